"""Generic coverage-guided lane: runs one libFuzzer target whose oracle lives in the target (==XV-ORACLE== + trap), bounded by a run count,
restarts behind a finding, replays every crash artefact in isolation and records the reproducible ones as failures."""
import base64, glob, os, re, shutil, subprocess, tempfile
import xv

def env():
    e = dict(os.environ); e.update(xv.ASAN_ENV)
    e['ASAN_OPTIONS'] = 'detect_leaks=0:abort_on_error=0:allocator_may_return_null=1:symbolize=1:handle_segv=1:detect_stack_use_after_return=0'
    return e

def replay(target, data):
    """-> (ok|None, detail); None = inconclusive (timeout / oom)"""
    d = tempfile.mkdtemp(prefix='verif.fz.')
    try:
        f = os.path.join(d, 'in'); open(f, 'wb').write(data)
        try: p = subprocess.run([xv.harness_path(target), '-timeout=120', '-rss_limit_mb=8000', '-artifact_prefix=' + d + '/', f], stdout=subprocess.DEVNULL, stderr=subprocess.PIPE, env=env(), timeout=300)
        except subprocess.TimeoutExpired: return None, 'replay timeout'
        if p.returncode == 0: return True, 'ok'
        txt = p.stderr.decode('utf-8', 'replace')
        m = re.search(r'==XV-ORACLE==[^\n]*\n(?:[^\n]*\n){0,3}', txt)
        if m: return False, m.group(0)
        if 'ERROR: libFuzzer: timeout' in txt or 'out-of-memory' in txt: return None, 'timeout/oom'
        return False, 'sanitizer report in the differential target:\n' + txt[-2500:]
    finally: shutil.rmtree(d, ignore_errors=True)

def run_lane(ctx, target, write_seeds, runs, safety_s, label, lane, dict_name='xml.dict', max_len=4096):
    S = ctx.stats
    base = tempfile.mkdtemp(prefix='verif.fz.')
    try:
        corpus = os.path.join(base, 'c'); art = os.path.join(base, 'a'); os.makedirs(corpus); os.makedirs(art)
        write_seeds(corpus)
        execs = 0; rounds = 0
        while execs < runs and rounds < 4:
            args = [xv.harness_path(target), corpus, '-runs=%d' % (runs - execs), '-max_total_time=%d' % safety_s, '-seed=%d' % (ctx.seed * 1000 + ctx.worker + 1 + rounds * 7919),
                    '-timeout=60', '-rss_limit_mb=6000', '-max_len=%d' % max_len, '-artifact_prefix=' + art + '/', '-print_final_stats=1', '-reload=0']
            if dict_name: args.append('-dict=' + os.path.join(xv.VERIF, 'dict', dict_name))
            try: p = subprocess.run(args, stdout=subprocess.DEVNULL, stderr=subprocess.PIPE, env=env(), timeout=safety_s + 300)
            except subprocess.TimeoutExpired: S.inconclusive += 1; break
            rounds += 1
            m = re.findall(rb'stat::number_of_executed_units:\s+(\d+)', p.stderr) or re.findall(rb'^#(\d+)\s', p.stderr, re.M)
            if m: execs += int(m[-1])
            if p.returncode == 0: break
        S.evaluations += execs; S.labels[label + ':execs'] += execs; S.labels[label + ':restarts_after_finding'] += max(0, rounds - 1)
        if execs < runs: S.labels[label + ':short-of-run-count'] += 1
        files = sorted(glob.glob(os.path.join(corpus, '*')))
        S.labels[label + ':corpus'] += len(files)
        for f in files[-400:]: S.nontrivial.add(label + ':' + os.path.basename(f)[:16])
        seen = set()
        for a in sorted(glob.glob(os.path.join(art, '*'))):
            kind = os.path.basename(a).split('-')[0]; data = open(a, 'rb').read()
            if kind != 'crash': S.inconclusive += 1; S.labels[label + ':artifact:' + kind] += 1; continue
            ok, detail = replay(target, data)
            if ok is None or ok: S.inconclusive += 1; S.labels[label + ':artifact-not-reproduced'] += 1; continue
            sig = ' '.join(detail.split('\n')[1:4])[:200]
            if sig in seen: continue
            seen.add(sig)
            S.failures.append({'case': {'lane': lane, 'target': target, 'input_b64': base64.b64encode(data).decode()}, 'detail': 'libFuzzer artefact (%d bytes): %s' % (len(data), detail)})
    finally: shutil.rmtree(base, ignore_errors=True)
