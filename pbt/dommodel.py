"""dommodel.py -- M7: plain Python reference model of DOM Level 2/3 Core (+ Traversal + Range, second half of the file).

Written from the W3C specification text (DOM Level 3 Core 1.4 "Fundamental Interfaces", DOM Level 2 Traversal-Range),
restricted to the intersection of what Level 2 and Level 3 say.  It is *not* a transcription of the Xerces code.

Every operation returns a Res:
    Res.ok(ret)            the operation must succeed; ret: None | Node | ('s', str|None) | ('i', int) | ('v', view id)
    Res.err({codes})       the operation must raise DOMException with one of the codes (the specification lists the
                           exceptions of a method without an order, so when several apply any of them is accepted)
                           and must leave every tree unchanged
    .unspec = reason       the specification says "implementation dependent" (or Xerces documents an extension): the model
                           mirrors what Xerces documents/does so that the history can go on, but only the structural
                           invariants are asserted on that step; a different outcome just ends the lock-step comparison.

Strings are restricted to the BMP by the generators, so Python string offsets are UTF-16 offsets.
"""
import zlib

EL, AT, TX, CD, ER, ENT, PI, CM, DOC, DT, FR, NOT = 1, 2, 3, 4, 5, 6, 7, 8, 9, 10, 11, 12
KIND = {EL: 'EL', AT: 'AT', TX: 'TX', CD: 'CD', ER: 'ER', ENT: 'ENT', PI: 'PI', CM: 'CM', DOC: 'DOC', DT: 'DT', FR: 'FR', NOT: 'NOT'}
KIND_R = {v: k for k, v in KIND.items()}

INDEX_SIZE, HIERARCHY, WRONG_DOC, INVALID_CHAR, NO_MOD, NOT_FOUND, NOT_SUPPORTED, INUSE, INVALID_STATE, NAMESPACE = 1, 3, 4, 5, 7, 8, 9, 10, 11, 14
BAD_BOUNDARYPOINTS, INVALID_NODE_TYPE = 111, 112

XML_NS = 'http://www.w3.org/XML/1998/namespace'

# children permitted by DOM Level 3 Core 1.1.1 "The DOM Structure Model"
ALLOWED = {
    DOC: {EL, PI, CM, DT},
    FR: {EL, PI, CM, TX, CD, ER}, EL: {EL, PI, CM, TX, CD, ER}, ER: {EL, PI, CM, TX, CD, ER}, ENT: {EL, PI, CM, TX, CD, ER},
    AT: {TX, ER},
    DT: set(), PI: set(), CM: set(), TX: set(), CD: set(), NOT: set(),
}

def esc(s):
    if s is None: return '\\N'
    out = []
    for ch in s:
        c = ord(ch)
        if 0x20 <= c <= 0x7E and c != 0x5C: out.append(ch)
        else: out.append('\\u%04X' % c)
    return ''.join(out)

def unesc(s):
    if s == '\\N': return None
    out = []; i = 0; n = len(s)
    while i < n:
        if s[i] == '\\' and i + 5 < n + 0 and s[i + 1] == 'u':
            out.append(chr(int(s[i + 2:i + 6], 16))); i += 6
        else:
            out.append(s[i]); i += 1
    return ''.join(out)

# ---------------------------------------------------------------------------------------------------------
# XML names.  The generators only use names from fixed pools; is_name() is exact on ASCII + Latin-1 letters,
# which covers the pools (valid in XML 1.0 4th and 5th edition alike, or invalid in both).
# ---------------------------------------------------------------------------------------------------------
def _name_start(c):
    return c.isalpha() and (ord(c) < 0x80 or 0xC0 <= ord(c) <= 0x24F and ord(c) not in (0xD7, 0xF7)) or c in '_:'
def _name_char(c):
    return _name_start(c) or c in '-.0123456789' or c == '·'
def is_name(s):
    return bool(s) and _name_start(s[0]) and all(_name_char(c) for c in s[1:])
def is_ncname(s):
    return is_name(s) and ':' not in s

def qname_errors(ns, qname, is_attr):
    """-> (set of codes, prefix, local) for createElementNS / createAttributeNS / setAttributeNS / renameNode"""
    codes = set()
    if qname is None or not is_name(qname):
        codes.add(INVALID_CHAR)
        if qname is None or qname == '':
            codes.add(NAMESPACE)      # the empty string is neither a Name nor a QName
            return codes, None, None
    prefix, local = None, qname
    if ':' in qname:
        parts = qname.split(':')
        if len(parts) != 2 or not is_ncname(parts[0]) or not is_ncname(parts[1]):
            codes.add(NAMESPACE); return codes, None, None
        prefix, local = parts
    elif not is_ncname(qname):
        return codes, None, None
    if prefix is not None and ns is None: codes.add(NAMESPACE)
    if prefix == 'xml' and ns != XML_NS: codes.add(NAMESPACE)
    return codes, prefix, local


class Node(object):
    __slots__ = ('id', 't', 'doc', 'parent', 'children', 'name', 'ns', 'local', 'prefix', 'value', 'attrs', 'owner', 'specified',
                 'readonly', 'dead', 'pub', 'sys', 'notation', 'entities', 'notations', 'isid', 'cloned')
    def __init__(self, t, doc):
        self.id = -1; self.t = t; self.doc = doc; self.parent = None; self.children = []
        self.name = None; self.ns = None; self.local = None; self.prefix = None; self.value = None
        self.attrs = [] if t == EL else None; self.owner = None; self.specified = True
        self.readonly = False; self.dead = False; self.pub = None; self.sys = None; self.notation = None
        self.entities = [] if t == DT else None; self.notations = [] if t == DT else None; self.isid = False; self.cloned = False
    def __repr__(self): return 'N%d<%s %s>' % (self.id, KIND[self.t], self.name if self.name is not None else (self.value or '')[:10])


class Res(object):
    __slots__ = ('codes', 'ret', 'unspec', 'killed', 'note')
    def __init__(self): self.codes = None; self.ret = None; self.unspec = None; self.killed = []; self.note = None
    @staticmethod
    def ok(ret=None, unspec=None):
        r = Res(); r.ret = ret; r.unspec = unspec; return r
    @staticmethod
    def err(codes, unspec=None):
        r = Res(); r.codes = set(codes); r.unspec = unspec; return r
    def is_err(self): return self.codes is not None


def attr_key(a):
    return (a.ns or '', a.local if a.local is not None else a.name, a.name)

def is_root(n):
    if n.t == AT: return n.owner is None
    if n.t in (ENT, NOT): return False
    return n.parent is None

def doc_of(n):
    return n if n.t == DOC else n.doc

def ancestors_or_self(n):
    while n is not None:
        yield n
        n = n.parent

def root_of(n):
    if n.t == AT and n.owner is not None: n = n.owner
    while n.parent is not None: n = n.parent
    return n

def subtree(n):
    """pre-order over element/child structure (no attributes)"""
    yield n
    for c in n.children:
        for x in subtree(c): yield x

def clen(n):
    """length of a node in the sense of DOM Range: 16-bit units for character data/PI, children otherwise"""
    if n.t in (TX, CD, CM, PI): return len(n.value or '')
    return len(n.children)


class World(object):
    def __init__(self):
        self.nodes = []; self.docs = []
        self.defaults = {}      # doc id -> {element name: [(attr name, value)]}  (from the DTD the driver wrote itself)
        self.captured = {}      # element -> DTD defaults known to it (creation time)
        self.idattrs = []       # attributes that are, or once were, ID attributes (DTD type ID or setIdAttribute*)
        self.gray_vals = {}     # doc id -> ID values ever carried by a *clone* of an ID attribute: never compared (see _gray)
        self.hidden_ids = {}    # doc id -> set of ID values carried by the harness's hidden filler elements (op idbulk)
        self.gray = None
        self.views = []         # C14
        self.listeners = []     # C14 view objects that receive mutation notifications (ranges, iterators)

    # ---- table ------------------------------------------------------------------------------------
    def reg(self, n):
        if n.id >= 0: return
        n.id = len(self.nodes); self.nodes.append(n)
    def live(self):
        return [n for n in self.nodes if not n.dead]
    def walk(self, n, depth, f):
        f(n, depth)
        if n.t == AT: return
        if n.t == EL:
            for a in sorted(n.attrs, key=attr_key): self.walk(a, depth + 1, f)
        if n.t == DT:
            for e in sorted(n.entities, key=lambda x: x.name): self.walk(e, depth + 1, f)
            for e in sorted(n.notations, key=lambda x: x.name): self.walk(e, depth + 1, f)
        for c in n.children: self.walk(c, depth + 1, f)
    def discover(self, ret=None):
        reg = lambda n, d: self.reg(n)
        if ret is not None and ret.id < 0: self.walk(ret, 0, reg)
        n0 = len(self.nodes)
        for i in range(n0):
            n = self.nodes[i]
            if not n.dead and is_root(n): self.walk(n, 0, reg)
    def kill(self, n):
        n.dead = True

    # ---- dump -------------------------------------------------------------------------------------
    def line(self, n, depth):
        t = n.t; ids = lambda x: '-' if x is None else str(x.id)
        if t == DOC:
            de = [c for c in n.children if c.t == EL]; dt = [c for c in n.children if c.t == DT]
            rest = 'DOC\t%s\t%s' % (ids(de[0] if de else None), ids(dt[0] if dt else None))
        elif t == DT: rest = 'DT\t' + esc(n.name)
        elif t == ENT: rest = 'ENT\t%s\t%s\t%s\t%s' % (esc(n.name), esc(n.pub), esc(n.sys), esc(n.notation))
        elif t == NOT: rest = 'NOT\t%s\t%s\t%s' % (esc(n.name), esc(n.pub), esc(n.sys))
        elif t == EL: rest = 'EL\t%s\t%s\t%s\t%s' % (esc(n.name), esc(n.ns), esc(n.local), esc(n.prefix))
        elif t == AT: rest = 'AT\t%s\t%s\t%s\t%s\t%s\t%s' % (esc(n.name), esc(n.ns), esc(n.local), esc(n.prefix),
                                                           ('1' if n.specified else '0') if n.owner is not None else '-', esc(n.value))
        elif t == TX: rest = 'TX\t' + esc(n.value)
        elif t == CD: rest = 'CD\t' + esc(n.value)
        elif t == CM: rest = 'CM\t' + esc(n.value)
        elif t == PI: rest = 'PI\t%s\t%s' % (esc(n.name), esc(n.value))
        elif t == ER: rest = 'ER\t' + esc(n.name)
        elif t == FR: rest = 'FR'
        else: rest = '??'
        return '%d\t%d\t%s\n' % (depth, n.id, rest)
    def dump(self):
        out = []
        f = lambda n, d: out.append(self.line(n, d))
        for n in self.nodes:
            if not n.dead and is_root(n): self.walk(n, 0, f)
        return ''.join(out)
    def dump_crc(self):
        d = self.dump().encode('ascii')
        return '%08x' % (zlib.crc32(d) & 0xFFFFFFFF), len(d)

    # ---- construction from the executor's INIT dump ------------------------------------------------
    @staticmethod
    def from_init(dump_text, ndocs, defaults0=None):
        """Build the model of the initial state from the executor's dump (the property is about mutation, not about
        parsing: C03/C06 own the parser).  Read-only flags follow DOM Core: entity reference subtrees, entities,
        notations and the doctype are read-only."""
        w = World(); stack = []
        rows = []
        for line in dump_text.split('\n'):
            if not line: continue
            f = line.split('\t'); rows.append((int(f[0]), int(f[1]), f[2], f[3:]))
        byid = {}
        for depth, nid, kind, f in rows:
            t = KIND_R[kind]
            del stack[depth:]
            par = stack[-1] if stack else None
            doc = None if t == DOC else (par if par.t == DOC else par.doc)
            n = Node(t, doc); n.id = nid
            if t == DT: n.name = unesc(f[0]); n.readonly = True
            elif t == ENT: n.name, n.pub, n.sys, n.notation = [unesc(x) for x in f[:4]]; n.readonly = True
            elif t == NOT: n.name, n.pub, n.sys = [unesc(x) for x in f[:3]]; n.readonly = True
            elif t == EL: n.name, n.ns, n.local, n.prefix = [unesc(x) for x in f[:4]]
            elif t == AT:
                n.name, n.ns, n.local, n.prefix = [unesc(x) for x in f[:4]]; n.specified = f[4] != '0'; n.value = unesc(f[5])
            elif t in (TX, CD, CM): n.value = unesc(f[0])
            elif t == PI: n.name = unesc(f[0]); n.value = unesc(f[1])
            elif t == ER: n.name = unesc(f[0]); n.readonly = True
            if par is not None:
                if par.readonly and par.t in (ER, ENT): n.readonly = True
                if par.t == EL and par.readonly: n.readonly = True
                if t == AT: n.owner = par; par.attrs.append(n)
                elif t == ENT: par.entities.append(n)
                elif t == NOT: par.notations.append(n)
                else: n.parent = par; par.children.append(n)
            stack.append(n); byid[nid] = n
        w.nodes = [byid[i] for i in range(len(byid))]
        w.docs = [n for n in w.nodes if n.t == DOC]
        if defaults0:
            w.defaults[w.docs[0].id] = defaults0
            for n in w.nodes:
                if n.t == EL and n.doc is w.docs[0]: w.captured[n] = list(defaults0.get(n.name, []))
        return w

    # ---- helpers ----------------------------------------------------------------------------------
    def new(self, t, doc, **kw):
        n = Node(t, doc)
        for k, v in kw.items(): setattr(n, k, v)
        return n
    def doctype(self, doc):
        for c in doc.children:
            if c.t == DT: return c
        return None
    def default_attrs(self, doc, ename):
        if self.doctype(doc) is None: return []       # the defaults live in the DocumentType node
        return self.defaults.get(doc.id, {}).get(ename, [])
    def make_default_attr(self, el, aname, value):
        # the driver's DTDs declare un-prefixed defaults only; the parser runs with namespaces on, so they are NS nodes
        a = self.new(AT, el.doc, name=aname, ns=None, local=aname, prefix=None, value=value, specified=False)
        return a
    def add_defaults(self, el):
        self.captured[el] = list(self.default_attrs(el.doc, el.name))     # an element knows the defaults of its creation time
        for aname, value in self.default_attrs(el.doc, el.name):
            if not any(a.name == aname for a in el.attrs):
                a = self.make_default_attr(el, aname, value); a.owner = el; a.readonly = el.readonly; el.attrs.append(a)

    # ---- notifications for live views (filled in by the C14 half) -----------------------------------
    def _pre_remove(self, child):
        for v in self.listeners: v.pre_remove(child)
    def _post_insert(self, child):
        for v in self.listeners: v.post_insert(child)

    def _detach(self, c):
        p = c.parent
        if p is None: return
        self._pre_remove(c)
        p.children.remove(c); c.parent = None
    def _insert(self, p, c, ref):
        if ref is None: p.children.append(c)
        else: p.children.insert(p.children.index(ref), c)
        c.parent = p
        self._post_insert(c)

    # =================================================================================================
    # creation (Document interface)
    # =================================================================================================
    def createElement(self, doc, name):
        if name is None or not is_name(name): return Res.err({INVALID_CHAR})
        e = self.new(EL, doc, name=name)
        self.add_defaults(e)
        return Res.ok(e)
    def createElementNS(self, doc, ns, qname):
        codes, prefix, local = qname_errors(ns, qname, False)
        if codes: return Res.err(codes)
        e = self.new(EL, doc, name=qname, ns=ns, local=local, prefix=prefix)
        # createElementNS: the specification promises DTD default attributes only for createElement; Xerces adds them (by
        # qualified name) here as well -> mirrored, tagged unspecified
        self.add_defaults(e)
        return Res.ok(e, 'createElementNS of an element type with DTD default attributes' if self.default_attrs(doc, qname) else None)
    def createTextNode(self, doc, data): return Res.ok(self.new(TX, doc, value=data))
    def createComment(self, doc, data): return Res.ok(self.new(CM, doc, value=data))
    def createCDATASection(self, doc, data): return Res.ok(self.new(CD, doc, value=data))
    def createProcessingInstruction(self, doc, target, data):
        if target is None or not is_name(target): return Res.err({INVALID_CHAR})
        return Res.ok(self.new(PI, doc, name=target, value=data))
    def createAttribute(self, doc, name):
        if name is None or not is_name(name): return Res.err({INVALID_CHAR})
        return Res.ok(self.new(AT, doc, name=name, value=''))
    def createAttributeNS(self, doc, ns, qname):
        codes, prefix, local = qname_errors(ns, qname, True)
        if codes: return Res.err(codes)
        return Res.ok(self.new(AT, doc, name=qname, ns=ns, local=local, prefix=prefix, value=''))
    def createDocumentFragment(self, doc): return Res.ok(self.new(FR, doc))
    def createEntityReference(self, doc, name):
        if name is None or not is_name(name): return Res.err({INVALID_CHAR})
        er = self.new(ER, doc, name=name, readonly=True)
        dt = self.doctype(doc)
        if dt is not None:
            for e in dt.entities:
                if e.name == name:
                    for c in e.children: self._append_raw(er, self._clone(c, True, doc, readonly=True))
        return Res.ok(er)
    def _append_raw(self, p, c):
        p.children.append(c); c.parent = p

    # =================================================================================================
    # child list (Node interface)
    # =================================================================================================
    def _insert_codes(self, p, c, ref, replacing=None):
        """error codes applying to inserting c into p (before ref / replacing `replacing`)"""
        codes = set()
        if p.readonly: codes.add(NO_MOD)
        if c.parent is not None and c.parent.readonly: codes.add(NO_MOD)
        if c.t == DOC:
            codes.update({HIERARCHY, WRONG_DOC})
        elif doc_of(c) is not doc_of(p): codes.add(WRONG_DOC)
        kids = c.children if c.t == FR else [c]
        allowed = ALLOWED[p.t]
        for k in kids:
            if k.t not in allowed: codes.add(HIERARCHY)
        if c.t != FR and c.t not in allowed: codes.add(HIERARCHY)
        if not allowed: codes.add(HIERARCHY)      # a node type that allows no children at all
        if any(a is c for a in ancestors_or_self(p)): codes.add(HIERARCHY)
        if p.t == DOC:
            for tt in (EL, DT):
                have = [x for x in p.children if x.t == tt and x is not replacing and x is not c]
                adding = [k for k in kids if k.t == tt]
                if len(have) + len(adding) > 1: codes.add(HIERARCHY)
        if ref is not None and ref.parent is not p: codes.add(NOT_FOUND)
        return codes

    def _ws_text_under_document(self, p, c):
        kids = c.children if c.t == FR else [c]
        # (Xerces accepts a Text child of a Document when it is non-empty and consists of white space only)
        return p.t == DOC and any(k.t == TX for k in kids) and all(k.t != TX or ((k.value or '') != '' and (k.value or '').strip(' \t\r\n') == '') for k in kids)

    def insertBefore(self, p, c, ref):
        codes = self._insert_codes(p, c, ref)
        unspec = None
        if ref is c:
            unspec = 'insertBefore(x, x) is implementation dependent (DOM3 Core, Node.insertBefore)'
        if p.t == DOC and c.parent is p and c.t in (EL, DT):
            # moving the document element / doctype inside its own document: the specification forbids "a second"
            # Element/DocumentType child but says "if newChild is already in the tree it is first removed"; Xerces refuses.
            return Res.err(codes | {HIERARCHY}, unspec='re-inserting the existing document element/doctype into its document')
        if self._ws_text_under_document(p, c) and codes == {HIERARCHY} and not any(a is c for a in ancestors_or_self(p)):
            # Xerces extension: white-space-only Text is accepted as a child of Document
            only_text_problem = self._insert_codes_without_text(p, c, ref)
            if not only_text_problem:
                unspec = 'whitespace Text under Document (Xerces extension)'
                codes = set()
        if codes: return Res.err(codes, unspec)
        if ref is c: return Res.ok(c, unspec)
        if c.t == FR:
            for k in list(c.children):
                self._detach(k); self._insert(p, k, ref)
        else:
            self._detach(c); self._insert(p, c, ref)
        return Res.ok(c, unspec)
    def _insert_codes_without_text(self, p, c, ref):
        kids = c.children if c.t == FR else [c]
        saved = [(k, k.t) for k in kids if k.t == TX]
        for k, _ in saved: k.t = CM
        try: return self._insert_codes(p, c, ref)
        finally:
            for k, t in saved: k.t = t

    def appendChild(self, p, c): return self.insertBefore(p, c, None)

    def removeChild(self, p, c):
        codes = set()
        if p.readonly: codes.add(NO_MOD)
        if c.parent is not p or c.t == AT: codes.add(NOT_FOUND)
        if codes: return Res.err(codes)
        self._detach(c)
        return Res.ok(c)

    def replaceChild(self, p, new, old):
        codes = self._insert_codes(p, new, None, replacing=old)
        if old.parent is not p or old.t == AT: codes.add(NOT_FOUND)
        unspec = None
        if new is old: unspec = 'replaceChild(x, x) is implementation dependent (DOM3 Core, Node.replaceChild)'
        if p.t == DOC and new.parent is p and new.t in (EL, DT) and new is not old:
            return Res.err(codes | {HIERARCHY}, unspec='re-inserting the existing document element/doctype into its document')
        if self._ws_text_under_document(p, new) and codes == {HIERARCHY} and not any(a is new for a in ancestors_or_self(p)):
            saved = [(k, k.t) for k in (new.children if new.t == FR else [new]) if k.t == TX]
            for k, _ in saved: k.t = CM
            try:
                c2 = self._insert_codes(p, new, None, replacing=old)
                if old.parent is not p: c2.add(NOT_FOUND)
            finally:
                for k, t in saved: k.t = t
            if not c2: unspec = 'whitespace Text under Document (Xerces extension)'; codes = set()
        if codes: return Res.err(codes, unspec)
        if new is old:
            # mirror: Xerces treats insertBefore(x, x) as a no-op and then removes x
            self._detach(old); return Res.ok(old, unspec)
        if new.t == FR:
            for k in list(new.children):
                self._detach(k); self._insert(p, k, old)
        else:
            self._detach(new); self._insert(p, new, old)
        self._detach(old)
        return Res.ok(old, unspec)

    # =================================================================================================
    # attributes (Element interface)
    # =================================================================================================
    def _find_attr(self, e, name):
        return [a for a in e.attrs if a.name == name]
    def _find_attr_ns(self, e, ns, local):
        return [a for a in e.attrs if a.local is not None and a.ns == ns and a.local == local]
    def _l1_clash(self, e, ns, local, qname=None):
        """NS-aware lookup on an element whose attribute set was built by mixing DOM Level 1 and namespace-aware
        methods (a Level 1 attribute of that name, or several attributes of that expanded name): left open by the specification"""
        return any(a.local is None and (a.name == local or a.name == qname) for a in e.attrs) or len(self._find_attr_ns(e, ns, local)) > 1 \
            or (qname is not None and any(a.name == qname and (a.ns != ns or a.local != local) for a in e.attrs))
    def _name_clash(self, e, name):
        return len(self._find_attr(e, name)) > 1
    def _set_value(self, a, value):
        a.value = value if value is not None else ''; a.specified = True
        if a.isid == 'gray': self.gray_vals.setdefault(a.doc.id, set()).add(a.value)
    def _remove_attr(self, e, a, restore_default=True):
        e.attrs.remove(a); a.owner = None
        self.gray = None
        if restore_default:
            for aname, value in self.captured.get(e, []):
                if aname == a.name and not any(x.name == aname for x in e.attrs):
                    d = self.make_default_attr(e, aname, value); d.owner = e; e.attrs.append(d)
                    if self.doctype(e.doc) is None: self.gray = 'default attribute restored although the document has lost its doctype'
            if self.captured.get(e, []) != self.default_attrs(e.doc, e.name) and any(an == a.name for an, _ in self.default_attrs(e.doc, e.name) + self.captured.get(e, [])):
                self.gray = 'DTD defaults of the element differ from those known when it was created'

    def setAttribute(self, e, name, value):
        codes = set()
        if name is None or not is_name(name): codes.add(INVALID_CHAR)
        if e.readonly: codes.add(NO_MOD)
        if codes: return Res.err(codes)
        found = self._find_attr(e, name)
        unspec = 'two attributes share the nodeName' if len(found) > 1 else None
        if found: self._set_value(found[0], value)
        else:
            a = self.new(AT, e.doc, name=name); self._set_value(a, value); a.owner = e; e.attrs.append(a)
        return Res.ok(None, unspec)
    def setAttributeNS(self, e, ns, qname, value):
        codes, prefix, local = qname_errors(ns, qname, True)
        if e.readonly: codes.add(NO_MOD)
        if codes: return Res.err(codes)
        unspec = 'namespace-aware lookup on an element carrying a DOM Level 1 attribute of that name' if self._l1_clash(e, ns, local, qname) else None
        found = self._find_attr_ns(e, ns, local)
        if found:
            a = found[0]
            # DOM2/DOM3 setAttributeNS: "its prefix is changed to be the prefix part of the qualifiedName, and its value is changed"
            if a.prefix != prefix:
                a.prefix = prefix; a.name = qname
            self._set_value(a, value)
        else:
            a = self.new(AT, e.doc, name=qname, ns=ns, local=local, prefix=prefix); self._set_value(a, value); a.owner = e; e.attrs.append(a)
        return Res.ok(None, unspec)
    def removeAttribute(self, e, name):
        if e.readonly: return Res.err({NO_MOD})
        found = self._find_attr(e, name)
        r = Res.ok(None, 'two attributes share the nodeName' if len(found) > 1 else None)
        if found:
            self._remove_attr(e, found[0]); r.killed.append(found[0])    # Xerces releases the removed Attr (documented memory model)
            r.unspec = r.unspec or self.gray
        return r
    def removeAttributeNS(self, e, ns, local):
        if e.readonly: return Res.err({NO_MOD})
        found = self._find_attr_ns(e, ns, local)
        r = Res.ok(None, 'namespace-aware lookup on an element carrying a DOM Level 1 attribute of that name' if self._l1_clash(e, ns, local) else None)
        if found:
            self._remove_attr(e, found[0]); r.killed.append(found[0])
            r.unspec = r.unspec or self.gray
        return r
    def _set_attr_node(self, e, a, nsaware):
        codes = set()
        if a.doc is not e.doc: codes.add(WRONG_DOC)
        if e.readonly: codes.add(NO_MOD)
        if a.owner is not None and a.owner is not e: codes.add(INUSE)
        if codes: return Res.err(codes)
        if a.owner is e:
            r = Res.ok(None); r.note = 'self-replace'      # "Replacing an attribute node by itself has no effect"; return value left open
            return r
        unspec = None
        if nsaware:
            if a.local is None: unspec = 'setAttributeNodeNS with a DOM Level 1 attribute'
            elif self._l1_clash(e, a.ns, a.local, a.name): unspec = 'namespace-aware lookup on an element carrying a DOM Level 1 attribute of that name'
            found = self._find_attr_ns(e, a.ns, a.local) if a.local is not None else self._find_attr(e, a.name)
        else:
            found = self._find_attr(e, a.name)
            if len(found) > 1: unspec = 'two attributes share the nodeName'
        old = found[0] if found else None
        if old is not None: self._remove_attr(e, old, restore_default=False)
        a.owner = e; e.attrs.append(a)
        if not nsaware and any(x is not a and x.name == a.name for x in e.attrs): unspec = 'two attributes share the nodeName'
        return Res.ok(old, unspec)
    def setAttributeNode(self, e, a): return self._set_attr_node(e, a, False)
    def setAttributeNodeNS(self, e, a): return self._set_attr_node(e, a, True)
    def removeAttributeNode(self, e, a):
        codes = set()
        if e.readonly: codes.add(NO_MOD)
        if a.owner is not e: codes.add(NOT_FOUND)
        if codes: return Res.err(codes)
        clash = (self._name_clash(e, a.name) if a.local is None else len(self._find_attr_ns(e, a.ns, a.local)) > 1)
        self._remove_attr(e, a)
        if a.isid != 'gray': a.isid = False
        return Res.ok(a, self.gray or ('removeAttributeNode on an element with two attributes of that name (DOM Level 1 / namespace-aware mix)' if clash else None))
    def getAttribute(self, e, name):
        f = self._find_attr(e, name)
        return Res.ok(('s', f[0].value if f else ''), 'two attributes share the nodeName' if len(f) > 1 else None)
    def getAttributeNS(self, e, ns, local):
        f = self._find_attr_ns(e, ns, local)
        return Res.ok(('s', f[0].value if f else ''), 'L1 clash' if self._l1_clash(e, ns, local) else None)
    def getAttributeNode(self, e, name):
        f = self._find_attr(e, name)
        return Res.ok(f[0] if f else None, 'two attributes share the nodeName' if len(f) > 1 else None)
    def getAttributeNodeNS(self, e, ns, local):
        f = self._find_attr_ns(e, ns, local)
        return Res.ok(f[0] if f else None, 'L1 clash' if self._l1_clash(e, ns, local) else None)
    def hasAttribute(self, e, name):
        return Res.ok(('i', 1 if self._find_attr(e, name) else 0))
    def hasAttributeNS(self, e, ns, local):
        return Res.ok(('i', 1 if self._find_attr_ns(e, ns, local) else 0), 'L1 clash' if self._l1_clash(e, ns, local) else None)

    # =================================================================================================
    # ID attributes / getElementById (DOM3 Element.setIdAttribute*, Document.getElementById)
    # =================================================================================================
    def _gray(self, a):
        """a clone of an ID attribute: DOM3 does not say whether it is an ID; Xerces flags it isId() and enters it into the
        ID table under the hash of the empty string (the value is copied afterwards), so it is unfindable until the table
        is rehashed and shadows the original afterwards.  Every value such an attribute ever carries is left uncompared."""
        a.isid = 'gray'; self.idattrs.append(a); self.gray_vals.setdefault(a.doc.id, set()).add(a.value)
    def _mark_id(self, a, isid):
        if a.isid == 'gray': return
        if isid:
            if a.isid != 'gray':
                if not a.isid: self.idattrs.append(a)
                a.isid = True
        else: a.isid = False
    def setIdAttribute(self, e, name, isid):
        codes = set()
        if e.readonly: codes.add(NO_MOD)
        found = self._find_attr(e, name)
        if not found: codes.add(NOT_FOUND)
        if codes: return Res.err(codes)
        self._mark_id(found[0], isid)
        return Res.ok(None, 'two attributes share the nodeName' if len(found) > 1 else None)
    def setIdAttributeNS(self, e, ns, local, isid):
        codes = set()
        if e.readonly: codes.add(NO_MOD)
        found = self._find_attr_ns(e, ns, local)
        unspec = 'namespace-aware lookup on an element carrying a DOM Level 1 attribute of that name' if self._l1_clash(e, ns, local) else None
        if not found and not unspec: codes.add(NOT_FOUND)
        if codes: return Res.err(codes)
        if not found: return Res.err({NOT_FOUND}, unspec)
        self._mark_id(found[0], isid)
        return Res.ok(None, unspec)
    def setIdAttributeNode(self, e, a, isid):
        codes = set()
        if e.readonly: codes.add(NO_MOD)
        if a.owner is not e: codes.add(NOT_FOUND)
        if codes: return Res.err(codes)
        self._mark_id(a, isid)
        return Res.ok()
    def id_expect(self, doc, v):
        """what getElementById(v) on doc must return: '-' (null), a node id, or None = not determined by the specification
        (several elements with that ID, a clone of an ID attribute, an element/attribute outside the document tree)"""
        if v in self.hidden_ids.get(doc.id, ()) or v in self.gray_vals.get(doc.id, ()): return None
        seen = set(); c = []
        for a in self.idattrs:
            if a.isid and not a.dead and a.doc is doc and a.value == v and id(a) not in seen: seen.add(id(a)); c.append(a)
        if not c: return '-'
        if len(c) > 1 or c[0].isid == 'gray' or c[0].owner is None or root_of(c[0].owner) is not doc: return None
        return str(c[0].owner.id)

    # =================================================================================================
    # character data
    # =================================================================================================
    def _text_changed(self, n, kind, offset, count, ins):
        for v in self.listeners: v.text_changed(n, kind, offset, count, ins)
    def appendData(self, n, s):
        if n.readonly: return Res.err({NO_MOD})
        off = len(n.value); n.value += s
        self._text_changed(n, 'ins', off, 0, len(s))
        return Res.ok()
    def insertData(self, n, off, s):
        codes = set()
        if off > len(n.value): codes.add(INDEX_SIZE)
        if n.readonly: codes.add(NO_MOD)
        if codes: return Res.err(codes)
        n.value = n.value[:off] + s + n.value[off:]
        self._text_changed(n, 'ins', off, 0, len(s))
        return Res.ok()
    def deleteData(self, n, off, cnt):
        codes = set()
        if off > len(n.value): codes.add(INDEX_SIZE)
        if n.readonly: codes.add(NO_MOD)
        if codes: return Res.err(codes)
        cnt = min(cnt, len(n.value) - off)
        n.value = n.value[:off] + n.value[off + cnt:]
        self._text_changed(n, 'del', off, cnt, 0)
        return Res.ok()
    def replaceData(self, n, off, cnt, s):
        codes = set()
        if off > len(n.value): codes.add(INDEX_SIZE)
        if n.readonly: codes.add(NO_MOD)
        if codes: return Res.err(codes)
        cnt = min(cnt, len(n.value) - off)
        n.value = n.value[:off] + n.value[off + cnt:]
        self._text_changed(n, 'del', off, cnt, 0)
        n.value = n.value[:off] + s + n.value[off:]
        self._text_changed(n, 'ins', off, 0, len(s))
        return Res.ok()
    def substringData(self, n, off, cnt):
        if off > len(n.value): return Res.err({INDEX_SIZE})
        return Res.ok(('s', n.value[off:off + cnt]))
    def setNodeValue(self, n, s):
        if n.t in (TX, CD, CM, PI):
            if n.readonly: return Res.err({NO_MOD})
            n.value = s
            self._text_changed(n, 'set', 0, 0, 0)
            return Res.ok()
        if n.t == AT:
            if n.readonly: return Res.err({NO_MOD})
            self._set_value(n, s); return Res.ok()
        # "When it is defined to be null, setting it has no effect, including if the node is read-only" (DOM3 Node.nodeValue)
        return Res.ok()
    def getNodeValue(self, n):
        return Res.ok(('s', n.value if n.t in (TX, CD, CM, PI, AT) else None))
    def splitText(self, n, off):
        codes = set()
        if off > len(n.value): codes.add(INDEX_SIZE)
        if n.readonly: codes.add(NO_MOD)
        if n.parent is not None and n.parent.readonly: codes.add(NO_MOD)
        if codes: return Res.err(codes)
        unspec = None
        if n.parent is not None and n.parent.t == DOC:
            # only reachable through the Xerces extension "whitespace Text under Document"
            unspec = 'splitText of a Text child of a Document (Xerces extension)'
            if n.value[off:].strip(' \t\r\n') != '': return Res.err({HIERARCHY}, unspec)
        new = self.new(n.t, n.doc, value=n.value[off:])
        n.value = n.value[:off]
        if n.parent is not None:
            p = n.parent; i = p.children.index(n)
            p.children.insert(i + 1, new); new.parent = p
        for v in self.listeners: v.text_split(n, new, off)
        return Res.ok(new, unspec)

    # =================================================================================================
    # normalize
    # =================================================================================================
    def text_runs(self, n):
        """maximal runs of adjacent Text nodes in the writable part of the subtree of n (pre-order)"""
        runs = []
        def rec(x):
            run = []
            for c in x.children:
                if c.t == TX: run.append(c)
                else:
                    if run: runs.append(run); run = []
            if run: runs.append(run)
            for c in x.children:
                if c.t == EL and not c.readonly: rec(c)
        if n.t in (EL, DOC, FR) and not n.readonly: rec(n)
        return runs
    def has_readonly_text_work(self, n):
        for x in subtree(n):
            if x.readonly and x.t in (ER, EL):
                prev = None
                for c in x.children:
                    if c.t == TX and (c.value == '' or (prev is not None and prev.t == TX)): return True
                    prev = c
        return False
    def normalize(self, n):
        unspec = None
        if n.readonly: unspec = 'normalize() on a read-only node'
        elif self.has_readonly_text_work(n): unspec = 'normalize() over a read-only subtree with adjacent/empty Text'
        if n.t == AT: return Res.ok(None)      # attribute children are outside the modelled live set
        for run in self.text_runs(n):
            data = ''.join(t.value for t in run)
            first = run[0]; p = first.parent
            if data == '':
                for t in run:
                    self._detach(t)
                continue
            # the first node of the run survives (which node survives is not stated by the spec; every implementation keeps the first)
            if len(run) > 1:
                self.appendData_merge(first, run[1:])
        return Res.ok(None, unspec)
    def appendData_merge(self, first, rest):
        for t in rest:
            off = len(first.value); first.value += t.value
            self._text_changed(first, 'ins', off, 0, len(t.value))
            self._detach(t)

    # =================================================================================================
    # cloneNode / importNode
    # =================================================================================================
    def _clone(self, n, deep, doc, readonly=False, importing=False):
        c = Node(n.t, doc)
        c.name, c.ns, c.local, c.prefix, c.value = n.name, n.ns, n.local, n.prefix, n.value
        c.readonly = readonly or n.t == ER
        c.cloned = not importing
        if n.t == EL and not importing: self.captured[c] = list(self.captured.get(n, []))
        if n.t == EL:
            for a in n.attrs:
                if importing and not a.specified: continue
                ca = self._clone(a, True, doc, readonly=c.readonly, importing=importing); ca.owner = c
                ca.specified = a.specified if not importing else True
                if a.isid:
                    # importNode registers the ID attributes of an imported element in the target document; what a *clone* of
                    # an ID attribute is, is not said by DOM3 (Xerces: isId() true, not findable) -> 'gray' = never compared
                    if importing and a.isid is True: ca.isid = True; self.idattrs.append(ca)
                    else: self._gray(ca)
                c.attrs.append(ca)
            if importing: self.add_defaults(c)
        if n.t == AT: c.specified = True
        if n.t == AT and n.isid and not importing and c.isid is False: self._gray(c)      # directly cloned ID attribute
        if n.t == ER:
            if importing:
                dt = self.doctype(doc)
                if dt is not None:
                    for e in dt.entities:
                        if e.name == n.name:
                            for k in e.children: self._append_raw(c, self._clone(k, True, doc, readonly=True))
                return c
            if deep:
                for k in n.children: self._append_raw(c, self._clone(k, True, doc, readonly=True))
            return c
        if deep and n.t != AT:
            for k in n.children: self._append_raw(c, self._clone(k, True, doc, readonly=c.readonly, importing=importing))
        return c
    def cloneNode(self, n, deep):
        if n.t in (DOC, DT, ENT, NOT):
            return None     # "implementation dependent" (DOM3 Node.cloneNode): never generated
        unspec = None
        if n.t == ER and not deep: unspec = 'shallow clone of an EntityReference (DOM3: subtree is constructed from the Entity regardless of deep)'
        return Res.ok(self._clone(n, deep, n.doc), unspec)
    def importNode(self, doc, n, deep):
        if n.t in (DOC, DT): return Res.err({NOT_SUPPORTED})
        if n.t in (ENT, NOT): return None
        unspec = None
        for x in (subtree(n) if deep else [n]):
            if x.t == EL and len(set(a.name for a in x.attrs)) != len(x.attrs):
                unspec = 'import of an element carrying two attributes of one nodeName (DOM Level 1 / namespace-aware mix)'
        return Res.ok(self._clone(n, deep or n.t == AT, doc, importing=True), unspec)


# =========================================================================================================
# Second half: live views (C14) -- DOM Level 2 Traversal and Range
# =========================================================================================================
SHOW_ALL = 0xFFFF
FILTER_ACCEPT, FILTER_REJECT, FILTER_SKIP = 1, 2, 3

def index_of(n):
    return n.parent.children.index(n)

def is_ancestor_or_self(a, n):
    while n is not None:
        if n is a: return True
        n = n.parent
    return False

def compare_points(an, ao, bn, bo):
    """document order of two boundary points of the same root container: -1 / 0 / 1 (DOM2 Range 2.5)"""
    if an is bn: return (ao > bo) - (ao < bo)
    # is bn inside a child of an?
    c = bn
    while c is not None and c.parent is not an: c = c.parent
    if c is not None:
        return -1 if ao <= index_of(c) else 1
    c = an
    while c is not None and c.parent is not bn: c = c.parent
    if c is not None:
        return -1 if index_of(c) < bo else 1
    # different branches: compare the children of the common ancestor
    aa = list(ancestors_or_self(an)); ba = list(ancestors_or_self(bn))
    sa = set(id(x) for x in aa)
    common = next(x for x in ba if id(x) in sa)
    ca = aa[aa.index(common) - 1]; cb = ba[ba.index(common) - 1]
    return -1 if index_of(ca) < index_of(cb) else 1

class NameFilter(object):
    """total function nodeName -> ACCEPT/REJECT/SKIP (the harness builds the same function from the same spec string)"""
    def __init__(self, default, table): self.default = default; self.table = dict(table)
    def spec(self): return ';'.join([str(self.default)] + ['%s=%d' % (esc(k), v) for k, v in sorted(self.table.items())])
    def __call__(self, n): return self.table.get(node_name(n), self.default)

def node_name(n):
    return {TX: '#text', CD: '#cdata-section', CM: '#comment', DOC: '#document', FR: '#document-fragment'}.get(n.t, n.name)

class View(object):
    kind = '?'
    def __init__(self, w, doc): self.w = w; self.doc = doc; self.id = len(w.views); w.views.append(self); self.touched = False
    def pre_remove(self, child): pass
    def post_insert(self, child): pass
    def text_changed(self, n, kind, offset, count, ins): pass
    def text_split(self, old, new, off): pass

class TagList(View):
    kind = 'L'
    def __init__(self, w, root, ns_aware, ns, name):
        View.__init__(self, w, doc_of(root)); self.root = root; self.ns_aware = ns_aware; self.ns = ns; self.name = name
    def items(self):
        out = []
        for x in subtree(self.root):
            if x is self.root or x.t != EL: continue
            if not self.ns_aware:
                if self.name == '*' or x.name == self.name: out.append(x)
            else:
                if self.ns != '*' and x.ns != self.ns: continue
                if self.name == '*' or (x.local is not None and x.local == self.name): out.append(x)
        return out
    def state(self):
        it = self.items()
        return 'L\t%d%s' % (len(it), ''.join('\t%d' % x.id for x in it))

class NodeIter(View):
    """DOM2 Traversal 1.1: a position between two nodes of the flattened list, kept as (reference node, before/after)"""
    kind = 'I'
    def __init__(self, w, doc, root, show, flt, expand):
        View.__init__(self, w, doc); self.root = root; self.show = show; self.flt = flt; self.expand = expand
        self.ref = root; self.before = True; self.detached = False; self.stepped = False
        w.listeners.append(self)
    def accept(self, n):
        if not (self.show >> (n.t - 1)) & 1: return False
        return self.flt is None or self.flt(n) == FILTER_ACCEPT
    def kids(self, n):
        if n.t == ER and not self.expand: return []
        return n.children
    def nxt(self, n, descend=True):
        if descend and self.kids(n): return self.kids(n)[0]
        while n is not None and n is not self.root:
            p = n.parent
            if p is None: return None
            i = p.children.index(n)
            if i + 1 < len(p.children): return p.children[i + 1]
            n = p
        return None
    def prv(self, n):
        if n is self.root: return None
        p = n.parent
        if p is None: return None
        i = p.children.index(n)
        if i == 0: return p
        x = p.children[i - 1]
        while self.kids(x): x = self.kids(x)[-1]
        return x
    def nextNode(self):
        if self.detached: return Res.err({INVALID_STATE})
        n = self.ref; before = self.before
        while True:
            cand = n if before else self.nxt(n)
            before = False
            if cand is None: return Res.ok(None)
            n = cand
            if self.accept(n):
                self.ref = n; self.before = False; self.stepped = True
                return Res.ok(n)
    def previousNode(self):
        if self.detached: return Res.err({INVALID_STATE})
        n = self.ref; before = self.before
        while True:
            cand = n if not before else self.prv(n)
            before = True
            if cand is None: return Res.ok(None)
            n = cand
            if self.accept(n):
                self.ref = n; self.before = True
                return Res.ok(n)
    def detach(self):
        self.detached = True
        if self in self.w.listeners: self.w.listeners.remove(self)
        return Res.ok()
    def pre_remove(self, child):
        """1.1.1.4: only the removal of the reference node (or of an ancestor of it below the root) matters"""
        if child is self.root or not is_ancestor_or_self(child, self.ref): return
        if not is_ancestor_or_self(self.root, child): return
        # is child on the path ref -> root (strictly below root)?
        self.touched = True
        if not self.before:         # reference node precedes the position: nearest node before the removed subtree
            self.ref = self.prv(child)
        else:                       # reference node follows the position: nearest node after the removed subtree, if any
            n = self.nxt(child, descend=False)
            if n is not None: self.ref = n
            else: self.ref = self.prv(child); self.before = False
    def state(self): return 'I\t.'

class Walker(View):
    """DOM2 Traversal 1.2 TreeWalker (logical view: whatToShow + filter; REJECT hides the subtree, SKIP only the node)"""
    kind = 'W'
    def __init__(self, w, doc, root, show, flt, expand):
        View.__init__(self, w, doc); self.root = root; self.show = show; self.flt = flt; self.expand = expand; self.cur = root
    def f(self, n):
        if not (self.show >> (n.t - 1)) & 1: return FILTER_SKIP
        return FILTER_ACCEPT if self.flt is None else self.flt(n)
    def kids(self, n):
        if n.t == ER and not self.expand: return []
        return n.children
    def state(self): return 'W\t%d' % self.cur.id
    def parentNode(self):
        n = self.cur
        while n is not None and n is not self.root:
            n = n.parent
            if n is not None and self.f(n) == FILTER_ACCEPT:
                self.cur = n; return Res.ok(n)
        return Res.ok(None)
    def _children(self, first):
        n = self.cur
        ks = self.kids(n)
        node = (ks[0] if first else ks[-1]) if ks else None
        while node is not None:
            r = self.f(node)
            if r == FILTER_ACCEPT:
                self.cur = node; return Res.ok(node)
            if r == FILTER_SKIP:
                ks = self.kids(node)
                if ks:
                    node = ks[0] if first else ks[-1]; continue
            while node is not None:
                p = node.parent; i = p.children.index(node)
                sib = (p.children[i + 1] if i + 1 < len(p.children) else None) if first else (p.children[i - 1] if i > 0 else None)
                if sib is not None:
                    node = sib; break
                if p is None or p is self.root or p is self.cur: return Res.ok(None)
                node = p
        return Res.ok(None)
    def firstChild(self): return self._children(True)
    def lastChild(self): return self._children(False)
    def _siblings(self, nxt):
        node = self.cur
        if node is self.root: return Res.ok(None)
        while True:
            p = node.parent
            if p is None: return Res.ok(None)
            i = p.children.index(node)
            sib = (p.children[i + 1] if i + 1 < len(p.children) else None) if nxt else (p.children[i - 1] if i > 0 else None)
            while sib is not None:
                node = sib
                r = self.f(node)
                if r == FILTER_ACCEPT:
                    self.cur = node; return Res.ok(node)
                ks = self.kids(node)
                sib = (ks[0] if nxt else ks[-1]) if ks else None
                if r == FILTER_REJECT or sib is None:
                    pp = node.parent; j = pp.children.index(node)
                    sib = (pp.children[j + 1] if j + 1 < len(pp.children) else None) if nxt else (pp.children[j - 1] if j > 0 else None)
            node = node.parent
            if node is None or node is self.root: return Res.ok(None)
            if self.f(node) == FILTER_ACCEPT: return Res.ok(None)
    def nextSibling(self): return self._siblings(True)
    def previousSibling(self): return self._siblings(False)
    def previousNode(self):
        node = self.cur
        while node is not self.root:
            p = node.parent
            if p is None: return Res.ok(None)
            i = p.children.index(node)
            sib = p.children[i - 1] if i > 0 else None
            while sib is not None:
                node = sib
                r = self.f(node)
                while r != FILTER_REJECT and self.kids(node):
                    node = self.kids(node)[-1]; r = self.f(node)
                if r == FILTER_ACCEPT:
                    self.cur = node; return Res.ok(node)
                pp = node.parent; j = pp.children.index(node)
                sib = pp.children[j - 1] if j > 0 else None
            if node is self.root or node.parent is None: return Res.ok(None)
            node = node.parent
            if self.f(node) == FILTER_ACCEPT:
                self.cur = node; return Res.ok(node)
        return Res.ok(None)
    def nextNode(self):
        node = self.cur; r = FILTER_ACCEPT
        while True:
            while r != FILTER_REJECT and self.kids(node):
                node = self.kids(node)[0]; r = self.f(node)
                if r == FILTER_ACCEPT:
                    self.cur = node; return Res.ok(node)
            sib = None; t = node
            while t is not None:
                if t is self.root: return Res.ok(None)
                p = t.parent
                if p is None: return Res.ok(None)
                i = p.children.index(t)
                if i + 1 < len(p.children): sib = p.children[i + 1]; break
                t = p
            if sib is None: return Res.ok(None)
            node = sib; r = self.f(node)
            if r == FILTER_ACCEPT:
                self.cur = node; return Res.ok(node)
    def setCurrentNode(self, n):
        if n is None: return Res.err({NOT_SUPPORTED})
        self.cur = n; return Res.ok()

class Range(View):
    """DOM2 Range: two boundary points + the fix-up rules of section 2.12"""
    kind = 'R'
    def __init__(self, w, doc):
        View.__init__(self, w, doc); self.sc = doc; self.so = 0; self.ec = doc; self.eo = 0; self.detached = False
        w.listeners.append(self)
    # -- helpers
    def _bad_type(self, n):
        return any(x.t in (ENT, NOT, DT) for x in ancestors_or_self(n))
    def _root_ok(self, n): return root_of(n).t in (DOC, FR, AT)
    def _set(self, which, n, off):
        if which == 's':
            self.sc, self.so = n, off
            if root_of(self.sc) is not root_of(self.ec) or compare_points(self.sc, self.so, self.ec, self.eo) > 0: self.ec, self.eo = n, off
        else:
            self.ec, self.eo = n, off
            if root_of(self.sc) is not root_of(self.ec) or compare_points(self.sc, self.so, self.ec, self.eo) > 0: self.sc, self.so = n, off
    def state(self):
        if self.detached: return 'R\texc:11'
        a = list(ancestors_or_self(self.sc)); sa = set(id(x) for x in a)
        cac = next((x for x in ancestors_or_self(self.ec) if id(x) in sa), None)
        return 'R\t%d\t%d\t%d\t%d\t%d\t%s' % (self.sc.id, self.so, self.ec.id, self.eo, 1 if (self.sc is self.ec and self.so == self.eo) else 0, '-' if cac is None else str(cac.id))
    # -- setters
    def setPoint(self, which, n, off):
        codes = set()
        if self.detached: return Res.err({INVALID_STATE})
        if self._bad_type(n): codes.add(INVALID_NODE_TYPE)
        if off > clen(n): codes.add(INDEX_SIZE)
        if codes: return Res.err(codes)
        self._set(which, n, off); return Res.ok()
    def setRel(self, which, after, n):
        """setStartBefore / setStartAfter / setEndBefore / setEndAfter"""
        if self.detached: return Res.err({INVALID_STATE})
        if not self._root_ok(n) or n.t in (DOC, FR, AT, ENT, NOT): return Res.err({INVALID_NODE_TYPE})
        self._set(which, n.parent, index_of(n) + (1 if after else 0)); return Res.ok()
    def collapse(self, to_start):
        if self.detached: return Res.err({INVALID_STATE})
        if to_start: self.ec, self.eo = self.sc, self.so
        else: self.sc, self.so = self.ec, self.eo
        return Res.ok()
    def selectNode(self, n):
        if self.detached: return Res.err({INVALID_STATE})
        if n.t in (DOC, FR, AT, ENT, NOT) or (n.parent is not None and self._bad_type(n.parent)): return Res.err({INVALID_NODE_TYPE})
        if n.parent is None: return None          # not generated: a parentless node has no (parent, index) position
        if n.t == DT:
            # the specification only forbids DocumentType *ancestors*; Xerces also refuses the doctype itself
            return Res.err({INVALID_NODE_TYPE}, 'selectNode(DocumentType)')
        self.sc, self.so = n.parent, index_of(n); self.ec, self.eo = n.parent, index_of(n) + 1
        return Res.ok()
    def selectNodeContents(self, n):
        if self.detached: return Res.err({INVALID_STATE})
        if self._bad_type(n): return Res.err({INVALID_NODE_TYPE})
        self.sc, self.so = n, 0; self.ec, self.eo = n, clen(n)
        return Res.ok()
    def compareBoundaryPoints(self, how, other):
        if self.detached or other.detached: return Res.err({INVALID_STATE})
        if how not in (0, 1, 2, 3): return None
        # START_TO_START 0, START_TO_END 1, END_TO_END 2, END_TO_START 3 : "<A>_TO_<B>" compares A of the source with B of this
        mine = (self.sc, self.so) if how in (0, 3) else (self.ec, self.eo)
        src = (other.sc, other.so) if how in (0, 1) else (other.ec, other.eo)
        unspec = None
        if root_of(mine[0]) is not root_of(src[0]):
            return Res.err({WRONG_DOC}, 'compareBoundaryPoints of ranges in different root containers')
        return Res.ok(('i', compare_points(mine[0], mine[1], src[0], src[1])), unspec)
    def cloneRange(self):
        if self.detached: return Res.err({INVALID_STATE})
        r = Range(self.w, self.doc); r.sc, r.so, r.ec, r.eo = self.sc, self.so, self.ec, self.eo
        return Res.ok(('v', r.id))
    def detach(self):
        if self.detached: return Res.err({INVALID_STATE})
        self.detached = True
        if self in self.w.listeners: self.w.listeners.remove(self)
        return Res.ok()
    def toString(self):
        if self.detached: return Res.err({INVALID_STATE})
        out = []
        if self.sc is self.ec and self.sc.t in (TX, CD):
            return Res.ok(('s', self.sc.value[self.so:self.eo]))
        root = root_of(self.sc)
        for n in subtree(root):
            if n.t not in (TX, CD): continue
            # part of n inside the range
            lo = 0; hi = len(n.value)
            if compare_points(n, hi, self.sc, self.so) <= 0 and not n is self.sc: continue
            if compare_points(n, 0, self.ec, self.eo) >= 0 and not n is self.ec: continue
            if n is self.sc: lo = self.so
            if n is self.ec: hi = self.eo
            if lo < hi: out.append(n.value[lo:hi])
        return Res.ok(('s', ''.join(out)))
    def touches_types(self, types):
        """does the range contain (wholly or partly) data of a node of one of the types?"""
        if self.sc.t in types or self.ec.t in types: return not (self.sc is self.ec and self.so == self.eo)
        for n in subtree(root_of(self.sc)):
            if n.t not in types or n.parent is None: continue
            i = index_of(n)
            if compare_points(n.parent, i + 1, self.sc, self.so) > 0 and compare_points(n.parent, i, self.ec, self.eo) < 0: return True
        return False
    # -- fix-ups (2.12)
    def pre_remove(self, child):
        p = child.parent; i = index_of(child)
        for which in ('s', 'e'):
            c, o = (self.sc, self.so) if which == 's' else (self.ec, self.eo)
            if is_ancestor_or_self(child, c): c, o = p, i; self.touched = True
            elif c is p and o > i: o -= 1; self.touched = True
            if which == 's': self.sc, self.so = c, o
            else: self.ec, self.eo = c, o
    def post_insert(self, child):
        p = child.parent; i = index_of(child)
        if self.sc is p and i < self.so: self.so += 1; self.touched = True
        if self.ec is p and i < self.eo: self.eo += 1; self.touched = True
    def text_changed(self, n, kind, offset, count, ins):
        for which in ('s', 'e'):
            c, o = (self.sc, self.so) if which == 's' else (self.ec, self.eo)
            if c is not n: continue
            self.touched = True
            if kind == 'ins':
                if offset < o: o += ins
            elif kind == 'del':
                if o > offset + count: o -= count
                elif o > offset: o = offset
            elif kind == 'set': o = 0
            if which == 's': self.so = o
            else: self.eo = o
    def text_split(self, old, new, off):
        # the new node has already been inserted after `old` (ordinary insertion fix-up for (parent, index) points)
        if old.parent is not None: self.post_insert(new)
        if self.sc is old and self.so > off: self.sc, self.so = new, self.so - off; self.touched = True
        if self.ec is old and self.eo > off: self.ec, self.eo = new, self.eo - off; self.touched = True

def _view_state(self):
    return ''.join('V\t%d\t%s\n' % (v.id, v.state()) for v in self.views)
World.view_state = _view_state
