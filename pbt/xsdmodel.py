"""xsdmodel.py -- M3: typed XML Schema 1.0 structures model (C08; reused by C10).

  * schema model (Schema / CType / Particle / AttrUse / ElemDecl) rendered to .xsd text (render_schema)
  * instance trees (Node) rendered to XML text (render_instance)
  * validity oracle assess(schema, node) -> set of violation tags (empty set == schema-valid), written from
    XML Schema 1.0 Structures (2nd ed.): content models are decided by a Brzozowski-derivative matcher with real
    counters (no occurrence expansion); `all` groups by set logic
  * second witness for content models: Python `re` on the *expanded* model (regex_witness)
  * Hypothesis strategies: content models, attribute uses, whole schemas, instances valid by construction,
    single-rule mutations, invalid-schema mutations

Only constructs with one reading in XSD 1.0 are generated (see DESIGN C08 soundness notes): no redefine, no
chameleon include, no wildcard inside all, lax wildcards only on names without any declaration, UPA-safe by
construction (expanded element names unique per content model incl. substitution members; a wildcard never admits the
namespace of an element particle of the same model; wildcards are not placed under ambiguous repetition).
"""
import re, itertools
from hypothesis import strategies as st

XS = 'http://www.w3.org/2001/XMLSchema'
XSI = 'http://www.w3.org/2001/XMLSchema-instance'
INF = None     # maxOccurs="unbounded"

# ==================================================================================================
# 1. regular terms with counters and their derivatives
#    term := ('eps',) | ('nul',) | ('leaf', i) | ('seq', t...) | ('alt', t...) | ('rep', t, min, max|None)
# ==================================================================================================
EPS = ('eps',); NUL = ('nul',)

def t_seq(ts):
    out = []
    for t in ts:
        if t == NUL: return NUL
        if t == EPS: continue
        if t[0] == 'seq': out.extend(t[1:])
        else: out.append(t)
    if not out: return EPS
    if len(out) == 1: return out[0]
    return ('seq',) + tuple(out)

def t_alt(ts):
    out = []
    for t in ts:
        if t == NUL: continue
        if t[0] == 'alt':
            for u in t[1:]:
                if u not in out: out.append(u)
        elif t not in out: out.append(t)
    if not out: return NUL
    if len(out) == 1: return out[0]
    return ('alt',) + tuple(sorted(out, key=repr))

def t_rep(t, mn, mx):
    if mx is not None and mx == 0: return EPS
    if t == EPS: return EPS
    if t == NUL: return EPS if mn == 0 else NUL
    if mn == 1 and mx == 1: return t
    return ('rep', t, mn, mx)

class Matcher:
    """Derivative matcher.  accepts(i, sym) says whether leaf i admits input symbol sym."""
    def __init__(self, accepts):
        self.accepts = accepts; self._n = {}; self._d = {}
    def nullable(self, t):
        k = t[0]
        if k == 'eps': return True
        if k in ('nul', 'leaf'): return False
        r = self._n.get(t)
        if r is None:
            if k == 'seq': r = all(self.nullable(u) for u in t[1:])
            elif k == 'alt': r = any(self.nullable(u) for u in t[1:])
            else: r = t[2] == 0 or self.nullable(t[1])
            self._n[t] = r
        return r
    def deriv(self, t, s):
        k = t[0]
        if k in ('eps', 'nul'): return NUL
        if k == 'leaf': return EPS if self.accepts(t[1], s) else NUL
        key = (t, s); r = self._d.get(key)
        if r is not None: return r
        if k == 'seq':
            alts = []
            for i in range(1, len(t)):
                alts.append(t_seq((self.deriv(t[i], s),) + t[i + 1:]))
                if not self.nullable(t[i]): break
            r = t_alt(alts)
        elif k == 'alt':
            r = t_alt([self.deriv(u, s) for u in t[1:]])
        else:
            _, u, mn, mx = t
            r = t_seq((self.deriv(u, s), t_rep(u, max(mn - 1, 0), None if mx is None else mx - 1)))
        self._d[key] = r
        return r
    def matches(self, t, syms):
        for s in syms:
            t = self.deriv(t, s)
            if t == NUL: return False
        return self.nullable(t)

# ---- second witness: expanded regex for Python re ------------------------------------------------
class TooBig(Exception): pass

def expand_regex(t, leafclass, budget=4000):
    """term -> Python regex text with every bounded repetition written out as copies (no {m,n}); raises TooBig."""
    def go(t):
        k = t[0]
        if k == 'eps': return ''
        if k == 'nul': return '[^\\x00-\\U0010ffff]'
        if k == 'leaf': return leafclass(t[1])
        if k == 'seq': return ''.join(go(u) for u in t[1:])
        if k == 'alt': return '(?:' + '|'.join(go(u) for u in t[1:]) + ')'
        _, u, mn, mx = t
        g = go(u)
        if (mx if mx is not None else mn + 1) * max(len(g), 1) > budget: raise TooBig()
        body = '(?:' + g + ')'
        s = body * mn
        if mx is None: s += body + '*'
        else:
            opt = ''
            for _ in range(mx - mn): opt = '(?:' + body + opt + ')?'
            s += opt
        if len(s) > budget: raise TooBig()
        return s
    return go(t)

# ==================================================================================================
# 2. schema model
# ==================================================================================================
BUILTIN_SIMPLE = ('string', 'int', 'boolean', 'token', 'NMTOKEN', 'date', 'decimal')
SIMPLE_OK = {'string': ['', 'x', 'hello world', ' 1 '], 'int': ['12', '-7', ' 5 ', '+0'], 'boolean': ['true', '0', '1', 'false'],
             'token': ['t', 'a b'], 'NMTOKEN': ['n1', 'x-y'], 'date': ['2001-02-03', '1999-12-31Z'], 'decimal': ['1.50', '-0.0', '7']}
SIMPLE_BAD = {'int': ['x', '1.5', ''], 'boolean': ['yes', '2', ''], 'NMTOKEN': ['a b', ''], 'date': ['2001-13-01', 'today', ''],
              'decimal': ['1e3', 'abc', '']}

def simple_valid(tname, text):
    """lexical validity for the handful of built-ins used in structure tests (datatypes proper belong to C09)"""
    if tname in ('string', 'anySimpleType'): return True
    s = ' '.join(text.split())   # whiteSpace=collapse for everything except string
    if tname == 'token': return True
    if tname == 'int':
        if not re.fullmatch(r'[+-]?[0-9]+', s): return False
        return -2147483648 <= int(s) <= 2147483647
    if tname == 'boolean': return s in ('true', 'false', '0', '1')
    if tname == 'NMTOKEN': return re.fullmatch(r'[A-Za-z0-9._:\-]+', s) is not None
    if tname == 'decimal': return re.fullmatch(r'[+-]?([0-9]+(\.[0-9]*)?|\.[0-9]+)', s) is not None
    if tname == 'date':
        m = re.fullmatch(r'-?([0-9]{4})-([0-9]{2})-([0-9]{2})(Z|[+-][0-9]{2}:[0-9]{2})?', s)
        if not m: return False
        y, mo, d = int(m.group(1)), int(m.group(2)), int(m.group(3))
        if y == 0 or not 1 <= mo <= 12: return False
        dim = [31, 29 if (y % 4 == 0 and (y % 100 != 0 or y % 400 == 0)) else 28, 31, 30, 31, 30, 31, 31, 30, 31, 30, 31][mo - 1]
        return 1 <= d <= dim
    raise KeyError(tname)

def simple_value(tname, text):
    """value-space key for fixed-value comparison (only for the literals this module generates)"""
    if tname in ('string', 'anySimpleType'): return ('s', text)
    s = ' '.join(text.split())
    if tname in ('token', 'NMTOKEN'): return ('s', s)
    if tname == 'int': return ('n', int(s))
    if tname == 'boolean': return ('b', s in ('true', '1'))
    if tname == 'decimal':
        from decimal import Decimal
        return ('n', Decimal(s).normalize() + 0)
    return ('s', s)

class AttrUse:
    def __init__(self, name, tname='string', use='optional', default=None, fixed=None, ns=''):
        self.name = name; self.tname = tname; self.use = use; self.default = default; self.fixed = fixed; self.ns = ns
    def key(self): return (self.ns, self.name)
    def to_json(self): return {'name': self.name, 't': self.tname, 'use': self.use, 'default': self.default, 'fixed': self.fixed, 'ns': self.ns}

class Particle:
    """k: 'e' element (decl = ElemDecl), 'seq' | 'choice' | 'all' (ch = list), 'any' (nsc, pc)"""
    def __init__(self, k, mn=1, mx=1, ch=None, decl=None, nsc=None, pc='skip', named=None):
        self.k = k; self.mn = mn; self.mx = mx; self.ch = ch or []; self.decl = decl; self.nsc = nsc; self.pc = pc
        self.named = named        # group name when rendered as <xs:group ref=...> to a global model group
    def to_json(self):
        d = {'k': self.k, 'min': self.mn, 'max': self.mx}
        if self.k == 'e': d['e'] = self.decl.to_json()
        elif self.k == 'any': d['nsc'] = self.nsc; d['pc'] = self.pc
        else: d['ch'] = [c.to_json() for c in self.ch]
        if self.named: d['group'] = self.named
        return d
    def show(self):
        occ = '' if (self.mn, self.mx) == (1, 1) else '{%d,%s}' % (self.mn, '*' if self.mx is None else self.mx)
        if self.k == 'e': return self.decl.name + occ
        if self.k == 'any': return 'any[%s]' % (self.nsc,) + occ
        sep = {'seq': ',', 'choice': '|', 'all': '&'}[self.k]
        return '(' + sep.join(c.show() for c in self.ch) + ')' + occ

class ElemDecl:
    def __init__(self, name, ns='', typ='string', is_global=False, nillable=False, abstract=False, default=None, fixed=None,
                 subst=None, block=''):
        self.name = name; self.ns = ns; self.typ = typ      # typ: builtin simple name (str) | CType
        self.is_global = is_global; self.nillable = nillable; self.abstract = abstract
        self.default = default; self.fixed = fixed; self.subst = subst; self.block = block
        self.ics = []           # identity constraints (C10): list of rendered-able objects with .render(prefixes)
    def key(self): return (self.ns, self.name)
    def to_json(self):
        return {'name': self.name, 'ns': self.ns, 'type': self.typ if isinstance(self.typ, str) else self.typ.to_json(),
                'global': self.is_global, 'nillable': self.nillable, 'abstract': self.abstract, 'default': self.default,
                'fixed': self.fixed, 'subst': self.subst.name if self.subst else None, 'block': self.block}

class CType:
    """complex type.  content: None (empty) | Particle | ('simple', builtin)"""
    def __init__(self, name=None, content=None, attrs=None, mixed=False, anyattr=None, base=None, deriv=None, abstract=False, block='',
                 ext_particle=None):
        self.name = name; self.content = content; self.attrs = attrs or []; self.mixed = mixed; self.anyattr = anyattr
        self.base = base; self.deriv = deriv; self.abstract = abstract; self.block = block
        self.tns = ''                       # target namespace of the schema document declaring a named type (Schema.add_type)
        self.ext_particle = ext_particle    # for deriv == 'extension': the particle added after the base content (rendering)
        self.own_attrs = None               # for derived types: attribute uses written in the derived type (rendering)
        self.own_anyattr = None             # for derived types: the anyAttribute written in the derived type; `anyattr` is then the EFFECTIVE
        self.has_own_wild = False           # {attribute wildcard} per Structures 3.4.2 (restriction: local only; extension: union with the base's)
    def to_json(self):
        c = self.content
        return {'name': self.name, 'content': None if c is None else (list(c) if isinstance(c, tuple) else c.to_json()),
                'attrs': [a.to_json() for a in self.attrs], 'mixed': self.mixed, 'anyattr': self.anyattr,
                'base': self.base.name if self.base else None, 'deriv': self.deriv, 'abstract': self.abstract, 'block': self.block}
    def derives_from(self, other):
        t = self
        while t is not None:
            if t is other: return True
            t = t.base
        return False

class Schema:
    def __init__(self, tns='', efd='unqualified', sysid='s.xsd'):
        self.tns = tns; self.efd = efd; self.sysid = sysid
        self.elements = []      # global ElemDecls (in order)
        self.types = []         # named CTypes
        self.groups = {}        # name -> Particle (named model groups)
        self.imports = []       # other Schema objects (different target namespaces)
        self.gattrs = []        # global attribute declarations (AttrUse; namespace = tns)
        self.includes = []      # Schema objects with the same target namespace
    def add_type(self, t):
        t.tns = self.tns; self.types.append(t); return t
    def all_schemas(self):
        out = [self]
        for s in self.imports + self.includes:
            for t in s.all_schemas():
                if t not in out: out.append(t)
        return out
    def find_global(self, key):
        for s in self.all_schemas():
            for e in s.elements:
                if e.key() == key: return e
        return None
    def find_global_attr(self, key):
        for s in self.all_schemas():
            for a in s.gattrs:
                if (s.tns, a.name) == key: return a
        return None
    def find_type(self, ns, name):
        for s in self.all_schemas():
            if s.tns != ns: continue
            for t in s.types:
                if t.name == name: return t
        return None
    def subst_members(self, head):
        """declarations substitutable for global element `head` (transitively), head itself excluded"""
        out = []
        for s in self.all_schemas():
            for e in s.elements:
                h = e.subst; seen = 0
                while h is not None and seen < 20:
                    if h is head: out.append(e); break
                    h = h.subst; seen += 1
        return out

# ==================================================================================================
# 3. rendering to .xsd
# ==================================================================================================
def xml_esc(s, attr=False):
    s = s.replace('&', '&amp;').replace('<', '&lt;').replace('>', '&gt;')
    if attr: s = s.replace('"', '&quot;').replace('\t', '&#9;').replace('\n', '&#10;').replace('\r', '&#13;')
    return s

def _occ(p):
    s = ''
    if p.mn != 1: s += ' minOccurs="%d"' % p.mn
    if p.mx != 1: s += ' maxOccurs="%s"' % ('unbounded' if p.mx is None else p.mx)
    return s

class Renderer:
    def __init__(self, schema, root_schema):
        self.s = schema; self.root = root_schema
        self.prefix = {}   # namespace -> prefix for QName references
        n = 0
        for t in root_schema.all_schemas():
            if t.tns and t.tns not in self.prefix:
                self.prefix[t.tns] = 'n%d' % n; n += 1
    def qn(self, ns, name):
        if not ns: return name
        return self.prefix[ns] + ':' + name
    def typeattr(self, typ):
        if isinstance(typ, str): return ' type="xs:%s"' % typ
        if typ.name: return ' type="%s"' % self.qn(typ.tns, typ.name)
        return ''
    def elem(self, d, occ='', ind='  '):
        a = ' name="%s"' % d.name
        if not d.is_global:
            want_q = (d.ns != '')
            if want_q != (self.s.efd == 'qualified'): a += ' form="%s"' % ('qualified' if want_q else 'unqualified')
        a += self.typeattr(d.typ) + occ
        if d.nillable: a += ' nillable="true"'
        if d.abstract: a += ' abstract="true"'
        if d.default is not None: a += ' default="%s"' % xml_esc(d.default, True)
        if d.fixed is not None: a += ' fixed="%s"' % xml_esc(d.fixed, True)
        if d.subst is not None: a += ' substitutionGroup="%s"' % self.qn(d.subst.ns, d.subst.name)
        if d.block: a += ' block="%s"' % d.block
        inner = ''
        if not isinstance(d.typ, str) and not d.typ.name: inner += self.ctype(d.typ, ind + '  ')
        for ic in d.ics: inner += ic.render(self, ind + '  ')
        if inner: return '%s<xs:element%s>\n%s%s</xs:element>\n' % (ind, a, inner, ind)
        return '%s<xs:element%s/>\n' % (ind, a)
    def particle(self, p, ind, top=False):
        if p.k == 'e':
            d = p.decl
            if d.is_global: return '%s<xs:element ref="%s"%s/>\n' % (ind, self.qn(d.ns, d.name), _occ(p))
            return self.elem(d, _occ(p), ind)
        if p.k == 'any':
            return '%s<xs:any namespace="%s" processContents="%s"%s/>\n' % (ind, p.nsc, p.pc, _occ(p))
        if p.named:
            return '%s<xs:group ref="%s"%s/>\n' % (ind, self.qn(self.s.tns, p.named), _occ(p))
        tag = {'seq': 'sequence', 'choice': 'choice', 'all': 'all'}[p.k]
        if not p.ch: return '%s<xs:%s%s/>\n' % (ind, tag, _occ(p))
        return '%s<xs:%s%s>\n%s%s</xs:%s>\n' % (ind, tag, _occ(p), ''.join(self.particle(c, ind + '  ') for c in p.ch), ind, tag)
    def group_def(self, name, p, ind='  '):
        q = Particle(p.k, 1, 1, p.ch)
        return '%s<xs:group name="%s">\n%s%s</xs:group>\n' % (ind, name, self.particle(q, ind + '  '), ind)
    def attr(self, a, ind):
        s = '%s<xs:attribute name="%s" type="xs:%s"' % (ind, a.name, a.tname)
        if a.ns: s += ' form="qualified"'
        if a.use != 'optional': s += ' use="%s"' % a.use
        if a.default is not None: s += ' default="%s"' % xml_esc(a.default, True)
        if a.fixed is not None: s += ' fixed="%s"' % xml_esc(a.fixed, True)
        return s + '/>\n'
    def attrs(self, t, ind, own=None):
        s = ''.join(self.attr(a, ind) for a in (t.attrs if own is None else own))
        w = t.own_anyattr if t.has_own_wild or t.base is not None else t.anyattr
        if w: s += '%s<xs:anyAttribute namespace="%s" processContents="%s"/>\n' % (ind, w[0], w[1])
        return s
    def ctype(self, t, ind, named=False):
        a = ''
        if named: a += ' name="%s"' % t.name
        if t.mixed: a += ' mixed="true"'
        if t.abstract: a += ' abstract="true"'
        if t.block: a += ' block="%s"' % t.block
        i2 = ind + '  '
        if t.base is not None and isinstance(t.content, tuple):
            own = t.own_attrs if t.own_attrs is not None else []
            inner = '%s<xs:simpleContent>\n%s  <xs:%s base="%s">\n%s%s  </xs:%s>\n%s</xs:simpleContent>\n' % (
                i2, i2, t.deriv, self.qn(t.base.tns, t.base.name), self.attrs(t, i2 + '    ', own), i2, t.deriv, i2)
        elif t.base is not None:
            own = t.own_attrs if t.own_attrs is not None else []
            if t.deriv == 'extension':
                body = (self.particle(t.ext_particle, i2 + '    ') if t.ext_particle is not None else '')
            else:
                body = (self.particle(t.content, i2 + '    ') if isinstance(t.content, Particle) else '')
            body += self.attrs(t, i2 + '    ', own)
            inner = '%s<xs:complexContent>\n%s  <xs:%s base="%s">\n%s%s  </xs:%s>\n%s</xs:complexContent>\n' % (
                i2, i2, t.deriv, self.qn(t.base.tns, t.base.name), body, i2, t.deriv, i2)
        elif isinstance(t.content, tuple):
            inner = '%s<xs:simpleContent>\n%s  <xs:extension base="xs:%s">\n%s%s  </xs:extension>\n%s</xs:simpleContent>\n' % (
                i2, i2, t.content[1], self.attrs(t, i2 + '    '), i2, i2)
        else:
            inner = (self.particle(t.content, i2, True) if t.content is not None else '') + self.attrs(t, i2)
        if not inner: return '%s<xs:complexType%s/>\n' % (ind, a)
        return '%s<xs:complexType%s>\n%s%s</xs:complexType>\n' % (ind, a, inner, ind)
    def render(self):
        s = self.s
        a = ' xmlns:xs="%s"' % XS
        for ns, p in sorted(self.prefix.items()): a += ' xmlns:%s="%s"' % (p, ns)
        if s.tns: a += ' targetNamespace="%s"' % s.tns
        if s.efd != 'unqualified': a += ' elementFormDefault="%s"' % s.efd
        out = '<?xml version="1.0"?>\n<xs:schema%s>\n' % a
        for t in s.imports:
            out += '  <xs:import%s schemaLocation="%s"/>\n' % (' namespace="%s"' % t.tns if t.tns else '', t.sysid)
        for t in s.includes:
            out += '  <xs:include schemaLocation="%s"/>\n' % t.sysid
        for name in sorted(s.groups): out += self.group_def(name, s.groups[name])
        for a in s.gattrs: out += '  <xs:attribute name="%s" type="xs:%s"/>\n' % (a.name, a.tname)
        for t in s.types: out += self.ctype(t, '  ', True)
        for e in s.elements: out += self.elem(e)
        return out + '</xs:schema>\n'

def render_schema(schema):
    """-> {sysid: text} for the schema and everything it imports/includes"""
    return {t.sysid: Renderer(t, schema).render() for t in schema.all_schemas()}

# ==================================================================================================
# 4. instances
# ==================================================================================================
class Node:
    def __init__(self, ns, name, attrs=None, children=None, xsi_type=None, xsi_nil=None):
        self.ns = ns; self.name = name; self.attrs = dict(attrs or {})     # {(ns, local): value}
        self.children = list(children or [])                               # Node | str (text) | ('c', text) comment | ('pi', t, d)
        self.xsi_type = xsi_type      # (ns, local) | None
        self.xsi_nil = xsi_nil        # lexical value | None
    def key(self): return (self.ns, self.name)
    def elems(self): return [c for c in self.children if isinstance(c, Node)]
    def text(self): return ''.join(c for c in self.children if isinstance(c, str))
    def copy(self):
        n = Node(self.ns, self.name, self.attrs, [c.copy() if isinstance(c, Node) else c for c in self.children], self.xsi_type, self.xsi_nil)
        return n

def render_instance(root, nsprefix=None, hint=None, extra_ns=None):
    """nsprefix: {ns: prefix}; all bindings are declared on the root.  hint: (kind, value) adds xsi:schemaLocation /
    xsi:noNamespaceSchemaLocation to the root."""
    nsprefix = dict(nsprefix or {})
    used = set()
    def collect(n):
        used.add(n.ns)
        for (ans, _) in n.attrs: used.add(ans)
        if n.xsi_type: used.add(n.xsi_type[0])
        for c in n.elems(): collect(c)
    collect(root)
    k = 0
    for ns in sorted(u for u in used if u):
        if ns not in nsprefix:
            nsprefix[ns] = 'p%d' % k; k += 1
    def qn(ns, name): return (nsprefix[ns] + ':' + name) if ns else name
    out = []
    def go(n, top):
        s = '<' + qn(n.ns, n.name)
        if top:
            for ns in sorted(nsprefix):
                if ns in used or ns == XSI: s += ' xmlns:%s="%s"' % (nsprefix[ns], ns)
            if XSI not in nsprefix: s += ' xmlns:xsi="%s"' % XSI
            for pr in sorted(extra_ns or {}): s += ' xmlns:%s="%s"' % (pr, extra_ns[pr])
            if hint: s += ' xsi:%s="%s"' % hint
        xp = nsprefix.get(XSI, 'xsi')
        if n.xsi_type is not None: s += ' %s:type="%s"' % (xp, qn(*n.xsi_type))
        if n.xsi_nil is not None: s += ' %s:nil="%s"' % (xp, n.xsi_nil)
        for (ans, an) in sorted(n.attrs): s += ' %s="%s"' % (qn(ans, an), xml_esc(n.attrs[(ans, an)], True))
        if not n.children: out.append(s + '/>'); return
        out.append(s + '>')
        for c in n.children:
            if isinstance(c, Node): go(c, False)
            elif isinstance(c, str): out.append(xml_esc(c))
            elif c[0] == 'c': out.append('<!--%s-->' % c[1])
            else: out.append('<?%s %s?>' % (c[1], c[2]))
        out.append('</%s>' % qn(n.ns, n.name))
    go(root, True)
    return ''.join(out)

# ==================================================================================================
# 5. validity oracle  (XSD 1.0 Structures: cvc-elt, cvc-type, cvc-complex-type, cvc-particle, cvc-model-group,
#    cvc-wildcard, cvc-attribute, cvc-au)
# ==================================================================================================
def wildcard_allows(nsc, tns, ns):
    """cvc-wildcard-namespace; nsc is the lexical namespace attribute of xs:any / xs:anyAttribute"""
    if nsc == '##any': return True
    if nsc == '##other': return ns != '' and ns != tns          # 1.0: not(tns) also excludes absent
    for tok in nsc.split():
        if tok == '##targetNamespace' and ns == tns: return True
        if tok == '##local' and ns == '': return True
        if tok == ns and not tok.startswith('##'): return True
    return False

def block_set(b):
    out = set(b.split())
    if '#all' in out: out = {'extension', 'restriction', 'substitution'}
    return out

def substitution_ok(head, m):
    """Substitution Group OK (Transitive), Structures 3.3.6, for a member m whose affiliation chain reaches head (clause 2.2 holds by construction):
    2.1 the head's {disallowed substitutions} must not contain substitution; 2.3 the derivation methods used between m's type and the head's
    type must not meet the union of the head's {disallowed substitutions}, the head TYPE's {prohibited substitutions} and those of every
    intermediate type (the member's own type's block does not count)."""
    blocking = block_set(head.block)
    if 'substitution' in blocking: return False
    ht, t = head.typ, m.typ
    if isinstance(ht, str) or isinstance(t, str): return True       # generated members of simple-typed heads have the head's type
    methods = set()
    while t is not ht:
        if t is None: return False
        methods.add(t.deriv)
        t = t.base
        if t is not None: blocking |= block_set(t.block)
    return not (methods & blocking)

class TypeModel:
    """content model of one complex type prepared for matching: leaves, term / all-group, attribution"""
    def __init__(self, schema, owner_tns, ct):
        self.schema = schema; self.tns = owner_tns; self.ct = ct
        self.leaves = []        # list of Particle (k 'e' or 'any')
        self.is_all = False; self.term = EPS; self.all = None
        p = ct.content if isinstance(ct.content, Particle) else None
        if p is not None:
            if p.k == 'all':
                self.is_all = True; self.all = p
                for c in p.ch: self.leaves.append(c)
            else:
                self.term = self._term(p)
        self.m = Matcher(self.accepts)
        self._names = {}
    def _term(self, p):
        if p.k in ('e', 'any'):
            self.leaves.append(p)
            return t_rep(('leaf', len(self.leaves) - 1), p.mn, p.mx)
        ts = [self._term(c) for c in p.ch]
        inner = t_seq(ts) if p.k == 'seq' else t_alt(ts)
        if p.k == 'choice' and not ts: inner = NUL
        return t_rep(inner, p.mn, p.mx)
    def elem_decl_for(self, leaf, key):
        """declaration governing child `key` when attributed to element leaf, or None if the leaf does not admit it"""
        d = leaf.decl
        if d.key() == key: return d
        if d.is_global:
            for m in self.schema.subst_members(d):
                if m.key() == key: return m if substitution_ok(d, m) else None
        return None
    def accepts(self, i, key):
        leaf = self.leaves[i]
        if leaf.k == 'e': return self.elem_decl_for(leaf, key) is not None
        return wildcard_allows(leaf.nsc, self.tns, key[0])
    def attribute(self, key):
        """leaf admitting `key` (unique by construction) or None"""
        for i, leaf in enumerate(self.leaves):
            if self.accepts(i, key): return leaf
        return None
    def content_ok(self, keys):
        if self.is_all:
            p = self.all
            if not keys:
                return p.mn == 0 or all(c.mn == 0 for c in p.ch)
            seen = set()
            for k in keys:
                hit = None
                for i, c in enumerate(p.ch):
                    if self.accepts(i, k): hit = i; break
                if hit is None or hit in seen: return False
                seen.add(hit)
            return all(c.mn == 0 or i in seen for i, c in enumerate(p.ch))
        return self.m.matches(self.term, keys)
    # second witness ------------------------------------------------------------------------------
    def witness(self, alphabet):
        """-> function(keys)->bool built on Python re over the expanded model, or None when not available"""
        chars = {k: chr(0x61 + i) for i, k in enumerate(alphabet)}
        if self.is_all:
            p = self.all
            req = [i for i, c in enumerate(p.ch) if c.mn == 1]; opt = [i for i, c in enumerate(p.ch) if c.mn == 0]
            if len(p.ch) > 6: return None
            cls = [[chars[k] for k in alphabet if self.accepts(i, k)] for i in range(len(p.ch))]
            lang = set()
            for r in range(len(opt) + 1):
                for sub in itertools.combinations(opt, r):
                    for perm in itertools.permutations(req + list(sub)):
                        for pick in itertools.product(*[cls[i] for i in perm]):
                            lang.add(''.join(pick))
            if p.mn == 0: lang.add('')
            return lambda keys: ''.join(chars[k] for k in keys) in lang
        def leafclass(i):
            cs = ''.join(chars[k] for k in alphabet if self.accepts(i, k))
            return '[' + cs + ']' if cs else '[^\\x00-\\U0010ffff]'
        try:
            src = expand_regex(self.term, leafclass)
            if len(src) > 400: return None          # long expansions (nested counted groups) make `re` backtrack for minutes inside one C call
            rx = re.compile(src)
        except (TooBig, re.error, RecursionError, OverflowError):
            return None
        return lambda keys: rx.fullmatch(''.join(chars[k] for k in keys)) is not None

class Oracle:
    def __init__(self, schema):
        self.schema = schema; self._tm = {}
        self.flags = set()      # input classes met during assess() that a caller may want to exclude (known findings)
        self.tns_of_type = {}
        for s in schema.all_schemas():
            for t in s.types: self.tns_of_type[id(t)] = s.tns
    def tm(self, ct, tns):
        k = id(ct)
        if k not in self._tm: self._tm[k] = TypeModel(self.schema, self.tns_of_type.get(k, tns), ct)
        return self._tm[k]
    def assess_root(self, node):
        d = self.schema.find_global(node.key())
        self.flags = set()
        if d is None: return {'root-undeclared'}
        tags = set()
        self.assess(node, d, self._tns_of_decl(d), tags)
        return tags
    def _tns_of_decl(self, d):
        for s in self.schema.all_schemas():
            if d in s.elements: return s.tns
        return self.schema.tns
    def assess(self, node, d, tns, tags):
        """node is governed by declaration d (declared in a schema document with target namespace tns)"""
        if d.abstract: tags.add('abstract-elem')
        typ = d.typ
        if node.xsi_type is not None:
            tns_, tn = node.xsi_type
            if tns_ == XS:
                # built-in simple type named by xsi:type: only used for the "not derived" mutation
                if isinstance(typ, str) and tn == typ: pass
                else: tags.add('xsitype-notderived');
            else:
                t2 = self.schema.find_type(tns_, tn)
                if t2 is None: tags.add('xsitype-unknown')
                elif isinstance(typ, str):
                    # complex type with simple content whose derivation starts at a built-in: validly derived from the declared simple type
                    # iff that built-in is (derived from) the declared one
                    root = t2; methods = {'extension'}
                    while root.base is not None: methods.add(root.deriv); root = root.base
                    sb = root.content[1] if isinstance(root.content, tuple) else None
                    if sb is not None and (sb == typ or (sb, typ) == ('int', 'decimal')):
                        if methods & block_set(d.block): tags.add('xsitype-blocked')
                        typ = t2
                    else: tags.add('xsitype-notderived')
                elif not t2.derives_from(typ): tags.add('xsitype-notderived')
                else:
                    # block on the declared type / element declaration
                    blocked = set(d.block.split()) | set(typ.block.split())
                    if '#all' in blocked: blocked |= {'extension', 'restriction'}
                    t = t2
                    while t is not typ:
                        if t.deriv in blocked: tags.add('xsitype-blocked')
                        t = t.base
                    typ = t2
        if not isinstance(typ, str) and typ.abstract: tags.add('abstract-type')
        nil = False
        if node.xsi_nil is not None:
            v = node.xsi_nil.strip()
            if v in ('1', '0'): self.flags.add('nil-numeric')
            if v not in ('true', 'false', '1', '0'): tags.add('nil-lexical')
            elif not d.nillable: tags.add('nil-notnillable')
            elif v in ('false', '0'): self.flags.add('nil-false-on-nillable')
            elif v in ('true', '1'):
                nil = True
                if node.elems() or node.text() != '': tags.add('nil-content')
                if not node.elems() and node.text() != '' and node.text().strip(' \t\r\n') == '': self.flags.add('ambiguous:nil-whitespace-only')
                if d.fixed is not None: tags.add('nil-fixed')
                elif d.default is not None: self.flags.add('nil-with-default')
        if isinstance(typ, str):
            for (ans, an) in node.attrs: tags.add('attr-on-simple')
            if node.elems(): tags.add('child-in-simple')
            elif not nil: self._simple_content(node, d, typ, tags)
            return
        # ---- complex type: attributes (cvc-complex-type 3, 4)
        locs = [k[1] for k in node.attrs]
        if len(set(locs)) != len(locs): self.flags.add('same-local-attrs')
        seen = set()
        for a in typ.attrs:
            k = a.key()
            if a.use == 'prohibited':
                if k in node.attrs:
                    # a prohibited use removes the attribute use; the attribute is then only admitted if the wildcard lets its namespace in
                    # (that combination has two readings and is not generated on purpose; a mutation can still produce it: flagged, not judged)
                    if not typ.anyattr or not wildcard_allows(typ.anyattr[0], self.tns_of_type.get(id(typ), tns), k[0]): tags.add('attr-prohibited')
                    else: self.flags.add('ambiguous:prohibited-under-wildcard')
                continue
            if k in node.attrs:
                seen.add(k)
                v = node.attrs[k]
                if not simple_valid(a.tname, v): tags.add('attr-datatype')
                elif a.fixed is not None and simple_value(a.tname, v) != simple_value(a.tname, a.fixed): tags.add('attr-fixed')
            elif a.use == 'required': tags.add('attr-required')
        for k in node.attrs:
            if k in seen: continue
            if any(a.key() == k and a.use == 'prohibited' for a in typ.attrs): continue
            if typ.anyattr and wildcard_allows(typ.anyattr[0], self.tns_of_type.get(id(typ), tns), k[0]):
                pc = typ.anyattr[1]
                if pc == 'skip': continue
                ga = self.schema.find_global_attr(k)
                if ga is not None:
                    if not simple_valid(ga.tname, node.attrs[k]): tags.add('attr-datatype')
                elif pc == 'strict': tags.add('attr-strict-undeclared')
                continue
            tags.add('attr-undeclared')
        if nil: return
        # ---- content
        c = typ.content
        if isinstance(c, tuple):
            if node.elems(): tags.add('child-in-simple')
            else: self._simple_content(node, d, c[1], tags)
            return
        kids = node.elems()
        if c is None:
            if kids or node.text() != '':
                # cvc-complex-type 2.1: empty content type: no character or element children at all
                tags.add('content-empty')
            if kids:
                pass
            return
        if not typ.mixed and node.text().strip(' \t\r\n') != '': tags.add('text-in-element-only')
        tm = self.tm(typ, tns)
        if not tm.content_ok([k.key() for k in kids]): tags.add('content')
        if not kids and d.fixed is None and d.default is None: pass
        for k in kids:
            leaf = tm.attribute(k.key())
            if leaf is None: continue          # not attributable: covered by 'content'
            if leaf.k == 'e':
                cd = tm.elem_decl_for(leaf, k.key())
                self.assess(k, cd, self._tns_of_decl(cd) if cd.is_global else tm.tns, tags)
            else:
                g = self.schema.find_global(k.key())
                if leaf.pc == 'skip':
                    if any(x.xsi_nil is not None or x.xsi_type is not None for x in all_nodes(k)): self.flags.add('xsi-in-skip')
                    continue
                if g is not None: self.assess(k, g, self._tns_of_decl(g), tags)
                elif leaf.pc == 'strict':
                    # Structures 3.10.1: strict = a top-level declaration is available OR the item has an xsi:type; the second case is assessed
                    # against that type, which the model does not follow: flagged, not judged
                    if k.xsi_type is not None: self.flags.add('ambiguous:strict-undeclared-with-xsitype')
                    else: tags.add('strict-undeclared')
                elif any(x.xsi_nil is not None or x.xsi_type is not None for x in all_nodes(k)):
                    self.flags.add('ambiguous:xsi-in-lax-undeclared')      # lax assessment honours xsi:type: partial-declaration territory, not generated
    def _simple_content(self, node, d, tname, tags):
        text = node.text()
        if text == '' and (d.default is not None or d.fixed is not None):
            # the value constraint supplies the value; cvc-elt 5.1.1: it must be valid for the ACTUAL type (xsi:type may have replaced the declared one)
            if not simple_valid(tname, d.fixed if d.fixed is not None else d.default): tags.add('datatype')
            return
        if text.strip(' \t\r\n') == '' and (d.default is not None or d.fixed is not None): self.flags.add('ambiguous:whitespace-only-with-value-constraint')
        if not simple_valid(tname, text):
            tags.add('datatype')
            if d.fixed is not None: self.flags.add('fixed-elem-invalid-literal')
            return
        if d.fixed is not None and simple_value(tname, text) != simple_value(tname, d.fixed): tags.add('elem-fixed')

# ==================================================================================================
# 6. Hypothesis strategies
# ==================================================================================================
OCC_SMALL = [(1, 1), (1, 1), (1, 1), (0, 1), (0, 1), (0, INF), (1, INF), (2, 2), (2, 3), (0, 2), (1, 2), (1, 3), (3, 3), (0, 3),
             (2, INF), (3, 5), (2, 4), (3, INF), (4, 4), (2, 5)]
OCC_GROUP = [(1, 1), (1, 1), (1, 1), (0, 1), (0, INF), (1, INF), (2, 2), (2, 3), (0, 2), (1, 2), (3, 3), (2, INF), (1, 3)]
OCC_BIG = [(0, 100), (1, 150), (2, 1000), (98, 100), (100, 100), (40, 45), (10, 12), (7, 7), (0, 12), (12, INF), (30, INF)]
OTHER_NS = 'urn:o'

class Gen:
    """mutable generation context: name supply, schema under construction"""
    def __init__(self, draw, schema, feats):
        self.draw = draw; self.s = schema; self.feats = feats
        self.names = ['a', 'b', 'c', 'd', 'e', 'f', 'g', 'h', 'i', 'j', 'k', 'l']
        self.ngroups = 0; self.ntypes = 0
        self.wild_used = False
        self.elem_ns = set()      # namespaces of element leaves in the content model being generated
    def fresh(self): return self.names.pop(0)

def occ_strategy(big=False, group=False):
    if big: return st.sampled_from(OCC_BIG)
    return st.sampled_from(OCC_GROUP if group else OCC_SMALL)

def gen_child_type(g, depth=0):
    d = g.draw
    k = d(st.sampled_from(['string', 'string', 'string', 'int', 'empty', 'attr', 'simplecontent']))
    if k in ('string', 'int'): return k
    if k == 'empty': return CType()
    if k == 'attr': return CType(attrs=[AttrUse('x', 'string', d(st.sampled_from(['optional', 'optional', 'required'])))])
    return CType(content=('simple', 'int'), attrs=[AttrUse('x', 'string', 'optional')])

BLOCKS = ['', '', '', 'extension', 'restriction', '#all', 'extension restriction']
def gen_subst_types(g):
    """head type HT and 1-2 types derived from it by extension / restriction, each with its own block -> [HT, T1(, T2)]"""
    d = g.draw; s = g.s; lns = s.tns if s.efd == 'qualified' else ''
    n = g.ntypes; g.ntypes += 1
    hx = ElemDecl('hx', lns, 'string')
    HT = CType('HT%d' % n, Particle('seq', 1, 1, [Particle('e', 0, 3, decl=hx)]), block=d(st.sampled_from(BLOCKS))); s.add_type(HT)
    out = [HT]
    chain = d(st.sampled_from([['e'], ['r'], ['e', 'e'], ['r', 'e'], ['r', 'r'], ['e'], ['r', 'e']]))
    for i, step in enumerate(chain):
        base = out[-1]; name = 'HT%d%s' % (n, 'ab'[i])
        if step == 'e':
            e = Particle('seq', 1, 1, [Particle('e', d(st.sampled_from([0, 1])), 1, decl=ElemDecl('hy' if i == 0 else 'hz', lns, 'string'))])
            t = CType(name, Particle('seq', 1, 1, [base.content, e]), base=base, deriv='extension', ext_particle=e)
        else:
            k = base.content.ch[0].mx          # base content is (hx{0,k}): narrow the range (a textbook particle restriction)
            t = CType(name, Particle('seq', 1, 1, [Particle('e', 0, k - 1, decl=hx)]), base=base, deriv='restriction')
        t.block = d(st.sampled_from(BLOCKS)); t.own_attrs = []
        s.add_type(t); out.append(t)
    return out

def gen_leaf(g, occ, allow_wild=True, under_rep=False):
    d = g.draw; s = g.s
    kinds = ['local', 'local', 'local', 'global']
    if 'subst' in g.feats: kinds += ['subst', 'subst']
    if 'wild' in g.feats and allow_wild and not g.wild_used: kinds += ['wild', 'wild']
    k = d(st.sampled_from(kinds))
    mn, mx = occ
    if k == 'wild':
        if under_rep and mn != (mx if mx is not None else -1): mx = mn = max(mn, 1)
        g.wild_used = True
        nsc = d(st.sampled_from(['##other', '##other', OTHER_NS, '##any', '##local', '##targetNamespace', OTHER_NS + ' urn:o2', '##local ' + OTHER_NS]))
        pc = d(st.sampled_from(['skip', 'skip', 'lax', 'strict']))
        return Particle('any', mn, mx, nsc=nsc, pc=pc)
    if k == 'local':
        q = (s.efd == 'qualified')
        if s.tns and d(st.integers(0, 9)) == 0: q = not q          # per-element form override
        decl = ElemDecl(g.fresh(), s.tns if q else '', gen_child_type(g))
        if 'nil' in g.feats and d(st.booleans()): decl.nillable = True
        if 'valueconstraint' in g.feats and isinstance(decl.typ, str):
            r = d(st.integers(0, 3))
            lit = d(st.sampled_from(SIMPLE_OK[decl.typ]))
            if r == 0: decl.default = lit
            elif r == 1: decl.fixed = lit
        return Particle('e', mn, mx, decl=decl)
    decl = ElemDecl(g.fresh(), s.tns, gen_child_type(g), is_global=True)
    s.elements.append(decl)
    if k == 'subst' and d(st.integers(0, 3)) > 0:
        types = gen_subst_types(g)
        decl.typ = types[0]
        for _ in range(d(st.integers(1, 2))):
            mt = d(st.sampled_from(types + types[1:]))
            s.elements.append(ElemDecl(g.fresh(), s.tns, mt, is_global=True, subst=decl))
        decl.block = d(st.sampled_from(['', '', '', 'extension', 'restriction', '#all', 'substitution', 'extension restriction']))
        if d(st.integers(0, 7)) == 0: decl.abstract = True
    elif k == 'subst':
        n = d(st.integers(1, 2))
        for _ in range(n):
            m = ElemDecl(g.fresh(), s.tns, decl.typ if isinstance(decl.typ, str) or decl.typ.name else 'string', is_global=True, subst=decl)
            if not isinstance(decl.typ, str) and not decl.typ.name:
                # anonymous head type cannot be named by the member: give the head a named type
                decl.typ.name = 'HT%d' % g.ntypes; g.ntypes += 1; s.add_type(decl.typ); m.typ = decl.typ
            s.elements.append(m)
        r = d(st.integers(0, 5))
        if r == 0: decl.abstract = True
        elif r == 1: decl.block = 'substitution'
    return Particle('e', mn, mx, decl=decl)

def gen_particle(g, depth, nleaves, big=False, under_rep=False, top=False):
    """particle with about `nleaves` leaves; names unique; wildcards constrained (see module doc)"""
    d = g.draw
    if nleaves <= 1 and (depth == 0 or d(st.integers(0, 3)) > 0) and not top:
        occ = d(occ_strategy(big and d(st.integers(0, 2)) == 0))
        return gen_leaf(g, occ, under_rep=under_rep)
    kind = d(st.sampled_from(['seq', 'seq', 'choice']))
    occ = d(occ_strategy(group=True))
    if top and d(st.booleans()): occ = (1, 1)
    n = nleaves
    parts = []
    if depth <= 0 or n <= 1:
        sizes = [1] * max(n, 1)
    else:
        # split n leaves into 1..3 children
        k = d(st.integers(1, min(3, n)))
        cuts = sorted(d(st.lists(st.integers(1, n - 1), min_size=k - 1, max_size=k - 1, unique=True))) if n > 1 and k > 1 else []
        sizes = [b - a for a, b in zip([0] + cuts, cuts + [n])]
    rep = under_rep or (occ[1] is None or occ[1] > 1)
    for sz in sizes:
        if sz == 1:
            o = d(occ_strategy(big and d(st.integers(0, 2)) == 0))
            parts.append(gen_leaf(g, o, under_rep=rep))
        else:
            parts.append(gen_particle(g, depth - 1, sz, big, rep))
    p = Particle(kind, occ[0], occ[1], parts)
    if 'groups' in g.feats and d(st.integers(0, 4)) == 0:
        p.named = 'G%d' % g.ngroups; g.ngroups += 1
        g.s.groups[p.named] = p
    return p

def gen_all(g, n):
    d = g.draw
    parts = []
    for _ in range(n):
        o = d(st.sampled_from([(1, 1), (1, 1), (0, 1)]))
        parts.append(gen_leaf(g, o, allow_wild=False))
    p = Particle('all', d(st.sampled_from([1, 1, 1, 0])), 1, parts)
    if 'groups' in g.feats and d(st.integers(0, 5)) == 0:
        p.named = 'G%d' % g.ngroups; g.ngroups += 1; g.s.groups[p.named] = p
        p.mn = 1          # a reference to an all-group must have minOccurs=maxOccurs=1 (cos-all-limited 1.2)
    return p

def fix_wildcards(p, s):
    """enforce: a wildcard never admits the namespace of an element leaf (incl. substitution members) of the same model"""
    ens = set()
    def walk(q):
        if q.k == 'e':
            ens.add(q.decl.ns)
            if q.decl.is_global:
                for m in s.subst_members(q.decl): ens.add(m.ns)
        for c in q.ch: walk(c)
    walk(p)
    def fix(q):
        if q.k == 'any':
            if any(wildcard_allows(q.nsc, s.tns, ns) for ns in ens):
                q.nsc = '##other' if '' not in [OTHER_NS] and not any(wildcard_allows('##other', s.tns, ns) for ns in ens) else OTHER_NS
        for c in q.ch: fix(c)
    fix(p)

ATTR_NAMES = ['p', 'q', 's', 'u']
def gen_attrs(g, n):
    d = g.draw; out = []
    for i in range(n):
        tn = d(st.sampled_from(['string', 'string', 'int', 'boolean', 'NMTOKEN', 'decimal']))
        use = d(st.sampled_from(['optional', 'optional', 'required', 'required', 'prohibited']))
        a = AttrUse(ATTR_NAMES[i], tn, use)
        if use != 'prohibited':
            r = d(st.integers(0, 4))
            lit = d(st.sampled_from(SIMPLE_OK[tn]))
            if r == 0 and use == 'optional': a.default = lit
            elif r == 1: a.fixed = lit
        if g.s.tns and d(st.integers(0, 7)) == 0: a.ns = g.s.tns
        out.append(a)
    return out

@st.composite
def gen_cm_schema(draw, feats=frozenset(), big=False):
    """one global element r whose (named or anonymous) complex type has a generated content model"""
    tns = draw(st.sampled_from(['', '', 'urn:t']))
    efd = draw(st.sampled_from(['qualified', 'unqualified'])) if tns else 'unqualified'
    s = Schema(tns, efd)
    g = Gen(draw, s, feats)
    nleaves = draw(st.sampled_from([1, 1, 2, 2, 2, 3, 3, 4]))
    shape = draw(st.sampled_from(['all', 'cm', 'cm', 'cm', 'cm', 'cm']))
    if shape == 'all': p = gen_all(g, max(nleaves, 1))
    else: p = gen_particle(g, draw(st.integers(0, 2)), nleaves, big=big, top=True)
    fix_wildcards(p, s)
    ct = CType(content=p, attrs=gen_attrs(g, draw(st.sampled_from([0, 0, 1, 2, 3]))))
    if draw(st.integers(0, 5)) == 0: ct.mixed = True
    if 'anyattr' in feats and draw(st.integers(0, 3)) == 0 and not any(a.use == 'prohibited' for a in ct.attrs):
        nsc = draw(st.sampled_from(['##other', OTHER_NS, '##any']))
        if not any(wildcard_allows(nsc, tns, a.ns) for a in ct.attrs): ct.anyattr = (nsc, draw(st.sampled_from(['skip', 'lax'])))
    if draw(st.booleans()): ct.name = 'T'; s.add_type(ct)
    root = ElemDecl('r', tns, ct, is_global=True)
    s.elements.insert(0, root)
    return s

# ---- instance material -----------------------------------------------------------------------------
def leaf_symbols(tm, schema):
    """input alphabet of a type model: every expanded name some leaf admits (+ sample names for wildcards)"""
    out = []
    for leaf in tm.leaves:
        if leaf.k == 'e':
            ks = [leaf.decl.key()]
            if leaf.decl.is_global: ks += [m.key() for m in schema.subst_members(leaf.decl)]
        else:
            ks = [k for k in [(OTHER_NS, 'w'), ('', 'w'), (tm.tns, 'w')] if wildcard_allows(leaf.nsc, tm.tns, k[0])][:1]
        for k in ks:
            if k not in out: out.append(k)
    return out

def child_node(oracle, tm, key, draw=None):
    """a valid element for child `key` of a type model (content valid for its own declaration)"""
    leaf = tm.attribute(key)
    n = Node(key[0], key[1])
    if leaf is None or leaf.k != 'e': return n
    d = tm.elem_decl_for(leaf, key)
    fill_valid(oracle, n, d, draw)
    return n

def fill_valid(oracle, n, d, draw=None, depth=0):
    """make node n valid for declaration d (minimal content; lexical choices drawn when draw is given)"""
    typ = d.typ
    pick = (lambda xs: draw(st.sampled_from(xs))) if draw else (lambda xs: xs[0])
    if isinstance(typ, str):
        if d.fixed is not None: n.children = [d.fixed] if (draw and draw(st.booleans())) else []
        elif typ not in ('string', 'token') or (draw and draw(st.booleans())):
            n.children = [pick(SIMPLE_OK[typ])]
            if n.children == ['']: n.children = []
        return
    for a in typ.attrs:
        if a.use == 'required' or (a.use == 'optional' and draw and draw(st.booleans())):
            n.attrs[a.key()] = a.fixed if a.fixed is not None else pick(SIMPLE_OK[a.tname])
    c = typ.content
    if isinstance(c, tuple):
        n.children = [pick(SIMPLE_OK[c[1]])]
        return
    if c is None: return
    tm = oracle.tm(typ, typ.tns)
    for key in valid_sequence(tm, oracle.schema, draw):
        n.children.append(child_node(oracle, tm, key, draw) if depth < 4 else Node(*key))

def valid_sequence(tm, schema, draw=None, boundary=True):
    """a child-name sequence in the language of the content model, built by walking the particle"""
    pickn = (lambda mn, mx: draw(st.sampled_from(sorted({mn, mn if mx is None else mx, mn + 1 if (mx is None or mx > mn) else mn,
                                                           (mn + 3) if mx is None else max(mn, mx - 1)})))) if draw else (lambda mn, mx: mn)
    def sym(leaf):
        i = tm.leaves.index(leaf)
        opts = [k for k in leaf_symbols(tm, schema) if tm.accepts(i, k)]
        if leaf.k == 'e' and leaf.decl.abstract: opts = [k for k in opts if k != leaf.decl.key()] or opts
        return draw(st.sampled_from(opts)) if draw and len(opts) > 1 else opts[0]
    def walk(p, out):
        for _ in range(pickn(p.mn, p.mx)):
            if p.k in ('e', 'any'): out.append(sym(p))
            elif p.k == 'seq':
                for c in p.ch: walk(c, out)
            elif p.k == 'choice':
                if p.ch: walk(draw(st.sampled_from(p.ch)) if draw else p.ch[0], out)
    out = []
    if tm.is_all:
        ch = list(tm.all.ch)
        if draw: ch = draw(st.permutations(ch))
        for c in ch:
            if c.mn == 1 or (draw and draw(st.booleans())): out.append(sym(c))
        return out
    if isinstance(tm.ct.content, Particle): walk(tm.ct.content, out)
    return out

def sequences_upto(alphabet, maxlen):
    for n in range(maxlen + 1):
        for t in itertools.product(alphabet, repeat=n): yield list(t)

def enum_bound(nsym, cap):
    """largest L <= 6 with sum_{i<=L} nsym^i <= cap"""
    L = 0; tot = 1
    while L < 6 and tot + nsym ** (L + 1) <= cap:
        L += 1; tot += nsym ** L
    return L

def attr_sets(ct, tns):
    """all subsets of declared (non-prohibited and prohibited) attribute names plus one undeclared name, with valid values"""
    names = [(a.key(), a) for a in ct.attrs] + [(('', 'zz'), None)]
    for r in range(len(names) + 1):
        for sub in itertools.combinations(names, r):
            yield {k: ((a.fixed if a.fixed is not None else SIMPLE_OK[a.tname][1 if a.tname == 'string' else 0]) if a is not None else 'v') for k, a in sub}

def valid_attrs(ct, draw=None):
    out = {}
    for a in ct.attrs:
        if a.use == 'required' or (a.use == 'optional' and draw is not None and draw(st.booleans())):
            out[a.key()] = a.fixed if a.fixed is not None else SIMPLE_OK[a.tname][1 if a.tname == 'string' else 0]
    return out

def mutate_sequence(draw, seq, alphabet, foreign):
    seq = list(seq)
    k = draw(st.sampled_from(['del', 'dup', 'swap', 'ins', 'rep', 'foreign'] if seq else ['ins', 'foreign']))
    if k == 'del': del seq[draw(st.integers(0, len(seq) - 1))]
    elif k == 'dup':
        i = draw(st.integers(0, len(seq) - 1)); seq.insert(i, seq[i])
    elif k == 'swap' and len(seq) > 1:
        i = draw(st.integers(0, len(seq) - 2)); seq[i], seq[i + 1] = seq[i + 1], seq[i]
    elif k == 'ins' and alphabet: seq.insert(draw(st.integers(0, len(seq))), draw(st.sampled_from(alphabet)))
    elif k == 'rep' and alphabet and seq: seq[draw(st.integers(0, len(seq) - 1))] = draw(st.sampled_from(alphabet))
    else: seq.insert(draw(st.integers(0, len(seq))), foreign)
    return seq, k

# ==================================================================================================
# 7. deep lane: derivation by extension/restriction, xsi:type, xsi:nil, abstract/block, imports, value constraints
# ==================================================================================================
PC_RANK = {'skip': 0, 'lax': 1, 'strict': 2}
AW_CHOICES = ['##any', '##other', OTHER_NS, OTHER_NS + ' urn:o2', '##local ' + OTHER_NS, '##targetNamespace urn:o2']

def aw_union(base, own):
    """{attribute wildcard} of an extension (3.4.2 / cos-aw-union): only the unions with one reading are produced, else None"""
    if base is None: return own
    if own is None: return base
    b, o = base[0], own[0]
    if b == '##any' or o == '##any': return ('##any', own[1])
    if b == '##other' or o == '##other':
        other = o if b == '##other' else b
        if other == '##other' or not any(tok.startswith('##') for tok in other.split()): return ('##other', own[1])
        return None            # not(tns) united with a set naming ##local / ##targetNamespace: errata territory, not generated
    toks = []
    for tok in (b + ' ' + o).split():
        if tok not in toks: toks.append(tok)
    return (' '.join(toks), own[1])

def aw_subsets(base, tns):
    """lexical namespace constraints that are subsets of the base's (cos-ns-subset), for a restriction that redeclares its wildcard"""
    b = base[0]
    foreign = [OTHER_NS, OTHER_NS + ' urn:o2', 'urn:o2']
    if b == '##any': return AW_CHOICES
    if b == '##other': return ['##other'] + [f for f in foreign if tns not in f.split()]
    toks = b.split()
    return [b] + ([toks[0]] if len(toks) > 1 else []) + ([toks[1]] if len(toks) > 1 else [])

def copy_particle(p):
    q = Particle(p.k, p.mn, p.mx, [copy_particle(c) for c in p.ch], p.decl, p.nsc, p.pc, p.named)
    return q

@st.composite
def gen_deep_schema(draw):
    tns = draw(st.sampled_from(['urn:t', 'urn:t', '']))
    efd = draw(st.sampled_from(['qualified', 'unqualified'])) if tns else 'unqualified'
    s = Schema(tns, efd)
    lns = tns if efd == 'qualified' else ''
    imp = None
    if draw(st.booleans()):
        imp = Schema(OTHER_NS, 'qualified', 'o.xsd')
        wt = draw(st.sampled_from(['int', 'string', 'ct']))
        if wt == 'ct': wt = CType(content=Particle('seq', 1, 1, [Particle('e', 1, 2, decl=ElemDecl('k', OTHER_NS, 'int'))]), attrs=[AttrUse('x', 'boolean', 'required')])
        imp.elements.append(ElemDecl('w', OTHER_NS, wt, is_global=True))
        imp.gattrs.append(AttrUse('ga', 'int'))
        s.imports.append(imp)
    occs = [(1, 1), (0, 1), (0, 3), (1, 3), (2, 4), (0, INF), (1, INF), (2, 2)]
    def leaf(name, typ=None, occ=None, **kw):
        o = occ or draw(st.sampled_from(occs))
        return Particle('e', o[0], o[1], decl=ElemDecl(name, lns, typ or draw(st.sampled_from(['string', 'int', 'boolean'])), **kw))
    # base type B
    bl = [leaf('a')] + ([leaf('b')] if draw(st.booleans()) else [])
    p_attr = AttrUse('p', draw(st.sampled_from(['int', 'string'])), 'optional')
    if draw(st.booleans()): p_attr.default = SIMPLE_OK[p_attr.tname][0 if p_attr.tname == 'int' else 1]
    B = CType('B', Particle('seq', 1, 1, bl), attrs=[p_attr] + ([AttrUse('s', 'boolean', 'optional')] if draw(st.booleans()) else []))
    r = draw(st.integers(0, 9))
    if r == 0: B.abstract = True
    B.block = draw(st.sampled_from(['', '', '', 'extension', 'restriction', '#all', 'extension restriction']))
    s.add_type(B)
    # E: extension
    ext = Particle('seq', 1, 1, [leaf('c')])
    q_attr = AttrUse('q', 'string', draw(st.sampled_from(['required', 'optional'])))
    E = CType('E', Particle('seq', 1, 1, [B.content, ext]), attrs=B.attrs + [q_attr], base=B, deriv='extension', ext_particle=ext)
    E.own_attrs = [q_attr]; s.add_type(E)
    # R: restriction (narrowed occurrences; an optional leaf may be dropped; an optional attribute becomes required/prohibited)
    rl = []
    for i, c in enumerate(bl):
        mn, mx = c.mn, c.mx
        if mn == 0 and i > 0 and draw(st.integers(0, 3)) == 0: continue
        nmn = mn + (1 if (mx is None or mx > mn) and draw(st.booleans()) else 0)
        nmx = mx
        if mx is None and draw(st.booleans()): nmx = nmn + draw(st.integers(0, 2))
        elif mx is not None and mx > nmn and draw(st.booleans()): nmx = mx - 1
        if nmx is not None and nmx == 0: nmx = mx; nmn = mn
        rl.append(Particle('e', nmn, nmx, decl=c.decl))
    ruse = draw(st.sampled_from(['required', 'prohibited', 'optional']))
    rp = AttrUse('p', p_attr.tname, ruse, default=(p_attr.default if ruse == 'optional' else None))
    R = CType('R', Particle('seq', 1, 1, rl), attrs=[rp] + B.attrs[1:], base=B, deriv='restriction')
    R.own_attrs = [rp]; s.add_type(R)
    # attribute wildcards: B declares one; E (extension) unites its own with B's; R (restriction) keeps ONLY what it redeclares
    pcs = ['skip', 'skip', 'lax', 'strict']
    if draw(st.integers(0, 2)) > 0:
        B.anyattr = (draw(st.sampled_from(AW_CHOICES)), draw(st.sampled_from(pcs)))
    eo = (draw(st.sampled_from(AW_CHOICES)), draw(st.sampled_from(pcs))) if draw(st.integers(0, 2)) == 0 else None
    if eo is not None and aw_union(B.anyattr, eo) is None: eo = ('##other', eo[1])
    if eo is not None and aw_union(B.anyattr, eo) is None: eo = None       # no union with a single reading: E declares no wildcard of its own
    E.own_anyattr = eo; E.has_own_wild = eo is not None; E.anyattr = aw_union(B.anyattr, eo)
    ro = None
    if B.anyattr is not None and draw(st.booleans()):
        ro = (draw(st.sampled_from(aw_subsets(B.anyattr, tns))), draw(st.sampled_from([p for p in PC_RANK if PC_RANK[p] >= PC_RANK[B.anyattr[1]]])))
    R.own_anyattr = ro; R.has_own_wild = ro is not None; R.anyattr = ro
    # a prohibited use next to a wildcard that admits the attribute's (absent) namespace has two readings: not generated
    if rp.use == 'prohibited' and any(w is not None and wildcard_allows(w[0], tns, '') for w in (B.anyattr, R.anyattr)):
        rp.use = 'required'; rp.default = None
    # E2: extension of E (two derivation steps)
    ext2 = Particle('seq', 1, 1, [leaf('d', occ=(0, 1))])
    E2 = CType('E2', Particle('seq', 1, 1, [E.content, ext2]), attrs=list(E.attrs), base=E, deriv='extension', ext_particle=ext2)
    E2.own_attrs = []; E2.anyattr = E.anyattr; s.add_type(E2)
    # simple-content chain: SB (extension of a built-in with a wildcard), SN (restriction of SB without / with a narrower wildcard)
    SB = CType('SB', ('simple', draw(st.sampled_from(['string', 'int']))), attrs=[AttrUse('k', 'string', 'optional')]); s.add_type(SB)
    if draw(st.integers(0, 3)) > 0: SB.anyattr = (draw(st.sampled_from(AW_CHOICES)), draw(st.sampled_from(pcs)))
    SN = CType('SN', SB.content, attrs=list(SB.attrs), base=SB, deriv='restriction'); SN.own_attrs = []
    so = None
    if SB.anyattr is not None and draw(st.integers(0, 2)) == 0:
        so = (draw(st.sampled_from(aw_subsets(SB.anyattr, tns))), draw(st.sampled_from([p for p in PC_RANK if PC_RANK[p] >= PC_RANK[SB.anyattr[1]]])))
    SN.own_anyattr = so; SN.has_own_wild = so is not None; SN.anyattr = so
    s.add_type(SN)
    # U: unrelated type
    U = CType('U', Particle('seq', 1, 1, [leaf('u', occ=(0, 1))])); s.add_type(U)
    # root
    x = ElemDecl('x', lns, B, nillable=draw(st.booleans()), block=draw(st.sampled_from(['', '', '', 'extension', 'restriction', '#all'])))
    ytyp = draw(st.sampled_from(['int', 'string', 'boolean', 'decimal']))
    y = ElemDecl('y', lns, ytyp, nillable=draw(st.booleans()))
    vc = draw(st.integers(0, 2))
    lit = draw(st.sampled_from(SIMPLE_OK[ytyp][:2])) if ytyp != 'string' else 'dflt'
    if vc == 1: y.default = lit
    elif vc == 2: y.fixed = lit
    parts = [Particle('e', *draw(st.sampled_from([(1, 1), (1, 3), (0, 2)])), decl=x), Particle('e', *draw(st.sampled_from([(0, 1), (1, 1), (0, 2)])), decl=y)]
    parts.append(Particle('e', *draw(st.sampled_from([(0, 1), (0, 2), (1, 1)])), decl=ElemDecl('z', lns, draw(st.sampled_from([SB, SB, SN])))))
    if imp is not None:
        if draw(st.booleans()): parts.append(Particle('e', *draw(st.sampled_from([(0, 1), (1, 2)])), decl=imp.elements[0]))
        else: parts.append(Particle('any', *draw(st.sampled_from([(0, 1), (1, 2), (0, INF)])), nsc='##other' if tns else OTHER_NS, pc=draw(st.sampled_from(['strict', 'lax', 'skip']))))
    rt = CType(content=Particle('seq', 1, 1, parts))
    s.elements.append(ElemDecl('r', tns, rt, is_global=True))
    return s

def derived_types(schema, typ):
    return [t for sc in schema.all_schemas() for t in sc.types if t is not typ and t.derives_from(typ)]

def fill_deep(oracle, n, d, draw, depth=0):
    """biased towards validity; the verdict always comes from Oracle.assess"""
    typ = d.typ
    if not isinstance(typ, str) and typ.name and draw(st.integers(0, 2)) > 0 or (not isinstance(typ, str) and typ.abstract):
        ders = derived_types(oracle.schema, typ)
        if ders:
            t2 = draw(st.sampled_from(ders)); n.xsi_type = (t2.tns, t2.name); typ = t2
    if d.nillable and draw(st.integers(0, 4)) == 0:
        n.xsi_nil = 'true'
        if not isinstance(typ, str):
            for a in typ.attrs:
                if a.use == 'required': n.attrs[a.key()] = a.fixed if a.fixed is not None else SIMPLE_OK[a.tname][1 if a.tname == 'string' else 0]
        return
    if d.nillable and draw(st.integers(0, 5)) == 0: n.xsi_nil = 'false'
    if isinstance(typ, str):
        if d.fixed is not None: n.children = [d.fixed] if draw(st.booleans()) else []
        elif d.default is not None and draw(st.booleans()): n.children = []
        else:
            v = draw(st.sampled_from(SIMPLE_OK[typ])); n.children = [v] if v != '' else []
        return
    for a in typ.attrs:
        if a.use == 'required' or (a.use == 'optional' and draw(st.booleans())):
            n.attrs[a.key()] = a.fixed if a.fixed is not None else draw(st.sampled_from(SIMPLE_OK[a.tname]))
    # attributes only a wildcard can admit: mostly ones the governing type's effective wildcard admits, sometimes ones only the BASE type's
    # wildcard admits (a restriction keeps just the wildcard it redeclares), rarely an arbitrary one; the verdict always comes from the oracle
    cands = WILD_ATTRS + ([(oracle.schema.tns, 'ta')] if oracle.schema.tns else [])
    r = draw(st.integers(0, 7)); pool = []
    if r <= 1 and typ.anyattr: pool = [k for k in cands if wildcard_allows(typ.anyattr[0], typ.tns, k[0])]
    elif r == 2 and typ.base is not None and typ.base.anyattr: pool = [k for k in cands if wildcard_allows(typ.base.anyattr[0], typ.tns, k[0])]
    elif r == 3 and draw(st.integers(0, 2)) == 0: pool = cands
    if pool:
        k = draw(st.sampled_from(pool))
        if k[1] not in [a[1] for a in n.attrs]: n.attrs[k] = draw(st.sampled_from(['5', '5', 'x']))
    c = typ.content
    if isinstance(c, tuple): n.children = [draw(st.sampled_from(SIMPLE_OK[c[1]]))]; return
    if c is None: return
    tm = oracle.tm(typ, typ.tns or oracle.schema.tns)
    for key in valid_sequence(tm, oracle.schema, draw):
        ch = Node(key[0], key[1])
        leaf = tm.attribute(key)
        if leaf is not None and depth < 5:
            if leaf.k == 'e': fill_deep(oracle, ch, tm.elem_decl_for(leaf, key), draw, depth + 1)
            else:
                g = oracle.schema.find_global(key)
                if g is not None: fill_deep(oracle, ch, g, draw, depth + 1)
        n.children.append(ch)

WILD_ATTRS = [(OTHER_NS, 'ga'), (OTHER_NS, 'fa'), ('urn:o2', 'fb'), ('', 'zz')]
DEEP_MUTATIONS = ['add-wild-attr', 'add-wild-attr', 'xsitype-unknown', 'xsitype-unrelated', 'xsitype-derived', 'xsitype-drop', 'nil-true', 'nil-true-content', 'nil-false', 'drop-attr', 'add-attr',
                  'bad-attr-value', 'bad-text', 'add-child', 'drop-child', 'dup-child', 'swap-ns', 'text-in-eo', 'wild-undeclared', 'clear-text']

def all_nodes(n, out=None):
    out = [] if out is None else out
    out.append(n)
    for c in n.elems(): all_nodes(c, out)
    return out

def mutate_deep(draw, schema, root):
    m = root.copy()
    nodes = all_nodes(m)
    kind = draw(st.sampled_from(DEEP_MUTATIONS))
    n = draw(st.sampled_from(nodes))
    parents = [p for p in nodes if p.elems()]
    if kind == 'xsitype-unknown': n.xsi_type = (schema.tns, 'Nope')
    elif kind == 'xsitype-unrelated': n.xsi_type = (schema.tns, 'U')
    elif kind == 'xsitype-derived': n.xsi_type = (schema.tns, draw(st.sampled_from(['E', 'R', 'E2', 'B', 'SN', 'SB'])))
    elif kind == 'xsitype-drop': n.xsi_type = None
    elif kind == 'nil-true': n.xsi_nil = 'true'; n.children = []
    elif kind == 'nil-true-content': n.xsi_nil = 'true'; n.children = n.children or ['1']
    elif kind == 'nil-false': n.xsi_nil = 'false'
    elif kind == 'drop-attr' and n.attrs: del n.attrs[draw(st.sampled_from(sorted(n.attrs)))]
    elif kind == 'add-attr': n.attrs[draw(st.sampled_from([('', 'p'), ('', 'q'), ('', 's'), ('', 'zz'), (OTHER_NS, 'p')]))] = draw(st.sampled_from(['1', 'true', 'x']))
    elif kind == 'add-wild-attr':
        k = draw(st.sampled_from(WILD_ATTRS + ([(schema.tns, 'ta')] if schema.tns else [])))
        if k[1] not in [a[1] for a in n.attrs]: n.attrs[k] = draw(st.sampled_from(['5', '5', 'x']))
    elif kind == 'bad-attr-value' and n.attrs: n.attrs[draw(st.sampled_from(sorted(n.attrs)))] = draw(st.sampled_from(['x y', '1.5', '']))
    elif kind == 'bad-text': n.children = [c for c in n.children if isinstance(c, Node)] + [draw(st.sampled_from(['zz', '1.5', 'tru']))]
    elif kind == 'clear-text': n.children = [c for c in n.children if isinstance(c, Node)]
    elif kind == 'add-child':
        n.children.insert(draw(st.integers(0, len(n.children))), Node(draw(st.sampled_from([n.ns, '', schema.tns, OTHER_NS])), draw(st.sampled_from(['a', 'b', 'c', 'd', 'x', 'y', 'w', 'zz']))))
    elif kind == 'drop-child' and parents:
        p = draw(st.sampled_from(parents)); p.children.remove(draw(st.sampled_from(p.elems())))
    elif kind == 'dup-child' and parents:
        p = draw(st.sampled_from(parents)); c = draw(st.sampled_from(p.elems())); p.children.insert(p.children.index(c), c.copy())
    elif kind == 'swap-ns': n.ns = '' if n.ns else (schema.tns or OTHER_NS)
    elif kind == 'text-in-eo': n.children.insert(draw(st.integers(0, len(n.children))), draw(st.sampled_from(['t', ' ', '\n'])))
    elif kind == 'wild-undeclared': m.children.append(Node(OTHER_NS, draw(st.sampled_from(['w', 'zz']))))
    return kind, m

def expected_info(oracle, root):
    """for a schema-VALID tree: list per element (document order) of
       (key, type name {ns}local | None when anonymous, {attr key: value} of attributes supplied by default/fixed, default text | None)"""
    out = []
    def walk(n, d):
        typ = d.typ
        if n.xsi_type is not None and n.xsi_type[0] != XS: typ = oracle.schema.find_type(*n.xsi_type)
        nil = n.xsi_nil is not None and n.xsi_nil.strip() in ('true', '1')
        if isinstance(typ, str):
            tn = '{%s}%s' % (XS, typ); dattrs = {}
            dt = None
            if not nil and not n.children and (d.fixed is not None or d.default is not None): dt = d.fixed if d.fixed is not None else d.default
            out.append((n.key(), tn, dattrs, dt)); return
        tn = '{%s}%s' % (typ.tns, typ.name) if typ.name else None
        dattrs = {a.key(): (a.fixed if a.fixed is not None else a.default) for a in typ.attrs
                  if a.use != 'prohibited' and a.key() not in n.attrs and (a.fixed is not None or a.default is not None)}
        out.append((n.key(), tn, dattrs, None))
        if nil or not isinstance(typ.content, Particle): return
        tm = oracle.tm(typ, typ.tns or oracle.schema.tns)
        for k in n.elems():
            leaf = tm.attribute(k.key())
            if leaf is None: out.append((k.key(), None, None, None)); skip(k); continue
            if leaf.k == 'e': walk(k, tm.elem_decl_for(leaf, k.key()))
            else:
                g = oracle.schema.find_global(k.key())
                if g is not None and leaf.pc != 'skip': walk(k, g)
                else: out.append((k.key(), None, None, None)); skip(k)
    def skip(n):
        for k in n.elems(): out.append((k.key(), None, None, None)); skip(k)
    walk(root, oracle.schema.find_global(root.key()))
    return out

# ==================================================================================================
# 8. invalid-schema mutations (each plants exactly one violation of a constraint on schema components / representation)
# ==================================================================================================
BAD_SCHEMA_MUTATIONS = ['min-gt-max', 'dup-global-element', 'dup-global-type', 'unresolved-type', 'unresolved-ref', 'dup-attribute', 'all-in-sequence',
                        'unresolved-base', 'default-and-fixed', 'default-required', 'all-member-max2', 'dup-group', 'non-upa']

def mutate_schema_text(text, kind, tnsprefix):
    """-> mutated schema text or None when the mutation does not apply.  Works on the rendered text so exactly one rule is broken."""
    q = (tnsprefix + ':') if tnsprefix else ''
    if kind == 'min-gt-max':
        m = re.search(r'<xs:(element|sequence|choice)( (?:name|ref)="[^"]*")?( type="[^"]*")?(?= |>|/)', text[text.index('<xs:element'):])
        i = text.index('<xs:complexType')
        m = re.search(r'<xs:(element (?:name|ref)="[^"]*"(?: type="[^"]*")?|sequence|choice)', text[i:])
        if not m: return None
        j = i + m.end()
        rest = text[j:text.index('>', j)]
        if 'minOccurs' in rest or 'maxOccurs' in rest:
            rest2 = re.sub(r' minOccurs="[^"]*"', '', rest); rest2 = re.sub(r' maxOccurs="[^"]*"', '', rest2)
            return text[:j] + ' minOccurs="3" maxOccurs="2"' + rest2 + text[j + len(rest):]
        return text[:j] + ' minOccurs="3" maxOccurs="2"' + text[j:]
    if kind == 'dup-global-element':
        return text.replace('</xs:schema>', '  <xs:element name="r" type="xs:string"/>\n</xs:schema>')
    if kind == 'dup-global-type':
        m = re.search(r'  <xs:complexType name="([^"]*)"', text)
        if not m: return None
        return text.replace('</xs:schema>', '  <xs:complexType name="%s"><xs:sequence/></xs:complexType>\n</xs:schema>' % m.group(1))
    if kind == 'dup-group':
        m = re.search(r'  <xs:group name="([^"]*)"', text)
        if not m: return None
        return text.replace('</xs:schema>', '  <xs:group name="%s"><xs:sequence/></xs:group>\n</xs:schema>' % m.group(1))
    if kind == 'unresolved-type':
        m = re.search(r'<xs:element name="[^"]*" type="xs:(string|int)"', text)
        if not m: return None
        return text[:m.start()] + m.group(0).replace('type="xs:' + m.group(1) + '"', 'type="%sNoSuchType"' % q) + text[m.end():]
    if kind == 'unresolved-ref':
        i = text.find('<xs:sequence>'); k = '<xs:sequence>'
        if i < 0: i = text.find('<xs:choice>'); k = '<xs:choice>'
        if i < 0: return None
        return text[:i + len(k)] + '<xs:element ref="%snoSuchElement" minOccurs="0"/>' % q + text[i + len(k):]
    if kind == 'unresolved-base':
        return text.replace('</xs:schema>', '  <xs:complexType name="ZZ"><xs:complexContent><xs:extension base="%sNoSuchBase"/></xs:complexContent></xs:complexType>\n</xs:schema>' % q)
    if kind == 'dup-attribute':
        m = re.search(r'( *)<xs:attribute name="([^"]*)" type="xs:([A-Za-z]*)"(?! form=)', text)      # the copy is unqualified: must collide with an unqualified original
        if not m: return None
        return text[:m.start()] + '%s<xs:attribute name="%s" type="xs:%s"/>\n' % (m.group(1), m.group(2), m.group(3)) + text[m.start():]
    if kind == 'all-in-sequence':
        i = text.find('<xs:sequence>')
        if i < 0: return None
        return text[:i + 13] + '<xs:all><xs:element name="zq" type="xs:string"/></xs:all>' + text[i + 13:]
    if kind == 'default-and-fixed':
        m = re.search(r'<xs:attribute name="[^"]*" type="xs:string"(?=/>)', text)
        if not m: return None
        return text[:m.end()] + ' default="d" fixed="d"' + text[m.end():]
    if kind == 'default-required':
        m = re.search(r'<xs:attribute name="[^"]*" type="xs:string" use="required"(?=/>)', text)
        if not m: return None
        return text[:m.end()] + ' default="d"' + text[m.end():]
    if kind == 'all-member-max2':
        i = text.find('<xs:all')
        if i < 0: return None
        m = re.search(r'<xs:element (name|ref)="[^"]*"( type="[^"]*")?', text[i:])
        if not m: return None
        j = i + m.end(); rest = text[j:text.index('>', j)]
        rest2 = re.sub(r' maxOccurs="[^"]*"', '', rest)
        return text[:j] + ' maxOccurs="2"' + rest2 + text[j + len(rest):]
    if kind == 'non-upa':
        # (zq?, zq) : the second zq particle competes with the first (checked only under full schema checking)
        return text.replace('</xs:schema>', '  <xs:complexType name="ZU"><xs:sequence><xs:element name="zq" type="xs:string" minOccurs="0"/><xs:element name="zq" type="xs:string"/></xs:sequence></xs:complexType>\n</xs:schema>')
    return None
