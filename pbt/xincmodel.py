"""xincmodel.py -- M8: reference model of XInclude 1.0 (section 4) over an in-memory file tree.

File tree   : dict  path -> {'kind': 'xml', 'doc': DOC} | {'kind': 'text', 'b64': ..., 'enc': ...}
              path is root-relative ('d1/f2.xml'); the URI of a file is VROOT + '/' + path.
DOC         : {'pro': [misc...], 'root': node, 'epi': [misc...], 'doctype': bool}
node        : ['e', ns, local, [[aname, avalue]...], [children]]     ordinary element (aname 'xml:base' is the base attribute)
              ['t', text] ['cd', text] ['c', text] ['p', target, data]
              ['inc', [[aname, avalue]...], [children]]              xi:include   (children: 'fb' + ignored content)
              ['fb',  [[aname, avalue]...], [children]]              xi:fallback
              ['x', local, [children]]                               any other element of the XInclude namespace
result item : ['e', ns, local, [[aname, avalue]...] (without xml:base), [children], base-uri] | t | cd | c | p

The model implements: href resolution (RFC 3986 5.2 == RFC 2396 5.2 on the inputs generated here: no excess '..', no
empty/odd references) against the base URI of the xi:include element, parse=xml|text, encoding, xi:fallback, inclusion-loop
detection on the chain of documents being processed, and the *meaning* of xml:base fix-up: every included element keeps the
base URI it had in its own document.  It never writes xml:base attributes -- the checker compares resolved base URIs.
"""
import base64, re, posixpath, urllib.parse

XI_NS = 'http://www.w3.org/2001/XInclude'
XML_NS = 'http://www.w3.org/XML/1998/namespace'
XMLNS_NS = 'http://www.w3.org/2000/xmlns/'
VROOT = 'file:///vr'          # virtual root; the real temp directory is substituted by the property module

# ------------------------------------------------------------------------------------------------
# RFC 3986 section 5.2 (reference resolution) -- own implementation; urllib.parse.urljoin is the second witness
# ------------------------------------------------------------------------------------------------
_URI = re.compile(r'^(?:([^:/?#]+):)?(?://([^/?#]*))?([^?#]*)(?:\?([^#]*))?(?:#(.*))?$')

def remove_dot_segments(path):
    out = []
    inp = path
    while inp:
        if inp.startswith('../'): inp = inp[3:]
        elif inp.startswith('./'): inp = inp[2:]
        elif inp.startswith('/./'): inp = inp[2:]
        elif inp == '/.': inp = '/'
        elif inp.startswith('/../'):
            inp = inp[3:]
            if out: out.pop()
        elif inp == '/..':
            inp = '/'
            if out: out.pop()
        elif inp in ('.', '..'): inp = ''
        else:
            i = inp.find('/', 1)
            if i < 0: seg, inp = inp, ''
            else: seg, inp = inp[:i], inp[i:]
            out.append(seg)
    return ''.join(out)

def resolve(ref, base):
    rs, ra, rp, rq, rf = _URI.match(ref).groups()
    bs, ba, bp, bq, bf = _URI.match(base).groups()
    if rs is not None:
        s, a, p, q = rs, ra, remove_dot_segments(rp), rq
    else:
        if ra is not None:
            a, p, q = ra, remove_dot_segments(rp), rq
        else:
            if rp == '':
                p = bp; q = rq if rq is not None else bq
            else:
                if rp.startswith('/'): p = remove_dot_segments(rp)
                else:
                    if ba is not None and bp == '': merged = '/' + rp
                    else: merged = bp[:bp.rfind('/') + 1] + rp
                    p = remove_dot_segments(merged)
                q = rq
            a = ba
        s = bs
    out = ''
    if s is not None: out += s + ':'
    if a is not None: out += '//' + a
    out += p
    if q is not None: out += '?' + q
    if rf is not None: out += '#' + rf
    return out

def resolve2(ref, base):
    return urllib.parse.urljoin(base, ref)

def normalise_uri(u):
    """equivalent-URI normal form used when comparing base URIs: dot segments removed"""
    m = _URI.match(u)
    if not m: return u
    s, a, p, q, f = m.groups()
    out = ''
    if s is not None: out += s.lower() + ':'
    if a is not None: out += '//' + a
    out += remove_dot_segments(p) if p.startswith('/') else p
    if q is not None: out += '?' + q
    if f is not None: out += '#' + f
    return out

def uri_of(path): return VROOT + '/' + path
def path_of(uri):
    if uri.startswith(VROOT + '/'): return uri[len(VROOT) + 1:]
    return None

# ------------------------------------------------------------------------------------------------
# rendering of a DOC to XML text
# ------------------------------------------------------------------------------------------------
def esc_text(s):
    return s.replace('&', '&amp;').replace('<', '&lt;').replace('>', '&gt;')
def esc_attr(s):
    return s.replace('&', '&amp;').replace('<', '&lt;').replace('"', '&quot;').replace('\n', '&#10;').replace('\t', '&#9;')

def _attrs(al):
    return ''.join(' %s="%s"' % (k, esc_attr(v)) for k, v in al)

def render_node(n, defns, out, top):
    k = n[0]
    xi = ' xmlns:xi="%s"' % XI_NS if top else ''
    if k == 'e':
        ns, local, attrs, ch = n[1], n[2], n[3], n[4]
        decl = ''
        if ns == 'urn:p': name = 'p:' + local; decl = ' xmlns:p="urn:p"'
        else:
            name = local
            if ns != defns: decl = ' xmlns="%s"' % ns; defns = ns
        out.append('<%s%s%s%s' % (name, xi, decl, _attrs(attrs)))
        if not ch: out.append('/>'); return
        out.append('>')
        for c in ch: render_node(c, defns, out, False)
        out.append('</%s>' % name)
    elif k == 't': out.append(esc_text(n[1]))
    elif k == 'cd': out.append('<![CDATA[%s]]>' % n[1])
    elif k == 'c': out.append('<!--%s-->' % n[1])
    elif k == 'p': out.append('<?%s%s?>' % (n[1], (' ' + n[2]) if n[2] else ''))
    elif k in ('inc', 'fb'):
        name = 'xi:include' if k == 'inc' else 'xi:fallback'
        out.append('<%s%s%s' % (name, xi, _attrs(n[1])))
        if not n[2]: out.append('/>'); return
        out.append('>')
        for c in n[2]: render_node(c, defns, out, False)
        out.append('</%s>' % name)
    elif k == 'x':
        out.append('<xi:%s%s' % (n[1], xi))
        if not n[2]: out.append('/>'); return
        out.append('>')
        for c in n[2]: render_node(c, defns, out, False)
        out.append('</xi:%s>' % n[1])
    else:
        raise ValueError(k)

def root_qname(n):
    if n[0] == 'e': return ('p:' + n[2]) if n[1] == 'urn:p' else n[2]
    if n[0] == 'inc': return 'xi:include'
    if n[0] == 'fb': return 'xi:fallback'
    return 'xi:' + n[1]

def render_doc(doc):
    out = []
    if doc.get('decl', True): out.append('<?xml version="1.0" encoding="UTF-8"?>\n')
    if doc.get('doctype'):
        out.append('<!DOCTYPE %s [<!-- internal subset --><!ENTITY unused "v">]>\n' % root_qname(doc['root']))
    for n in doc['pro']: render_node(n, '', out, False)
    render_node(doc['root'], '', out, True)
    for n in doc['epi']: render_node(n, '', out, False)
    return ''.join(out).encode('utf-8')

def file_bytes(f):
    if f['kind'] == 'xml': return render_doc(f['doc'])
    return base64.b64decode(f['b64'])

PY_CODEC = {'utf-8': 'utf-8', 'UTF-8': 'utf-8', 'utf-16le': 'utf-16-le', 'UTF-16LE': 'utf-16-le', 'utf-16be': 'utf-16-be', 'UTF-16BE': 'utf-16-be',
            'utf-16': 'utf-16', 'UTF-16': 'utf-16', 'iso-8859-1': 'latin-1', 'ISO-8859-1': 'latin-1', 'latin1': 'latin-1', 'us-ascii': 'ascii'}

# ------------------------------------------------------------------------------------------------
# expansion
# ------------------------------------------------------------------------------------------------
class TooBig(Exception): pass

class Ctx:
    def __init__(self, files, top, max_fetch=150):
        self.files = files; self.top = top
        self.causes = []        # error causes in processing order: loop, bad-parse, xpointer-text, xpointer-unsupported, no-href, multi-fb,
                                #   bad-child-xi, bad-child-include, orphan-fb, href-fragment, resource-nofb, nonwf-target, empty-href
        self.unspec = []        # tags of constructs whose outcome XInclude 1.0 leaves open / editions differ on
        self.labels = set()
        self.fetches = 0; self.max_fetch = max_fetch
        self.included = []      # successfully included xml targets (for the diamond label)
        self.maxchain = 1
        self.bytes = {}
        self.witness_disagree = 0
        self.dotdot_bases = set()   # directories (root-relative) that are the base of an include whose href climbs with '..'
    def data(self, path):
        if path not in self.bytes: self.bytes[path] = file_bytes(self.files[path])
        return self.bytes[path]
    def res(self, ref, base):
        a = resolve(ref, base)
        if a != resolve2(ref, base): self.witness_disagree += 1
        return a

def battr(attrs):
    for k, v in attrs:
        if k == 'xml:base': return v
    return None

def proc_nodes(ctx, nodes, base, chain):
    out = []
    for n in nodes: out.extend(proc_node(ctx, n, base, chain))
    return out

def proc_node(ctx, n, base, chain):
    k = n[0]
    if k == 'e':
        b = battr(n[3]); ebase = ctx.res(b, base) if b is not None else base
        attrs = [[a, v] for a, v in n[3] if a != 'xml:base']
        return [['e', n[1], n[2], attrs, proc_nodes(ctx, n[4], ebase, chain), ebase]]
    if k in ('t', 'cd', 'c', 'p'): return [list(n)]
    if k == 'inc': return proc_inc(ctx, n, base, chain)
    if k == 'fb':
        ctx.causes.append('orphan-fb'); return []
    if k == 'x':
        ctx.unspec.append('foreign-xi-element'); return []
    raise ValueError(k)

def proc_inc(ctx, n, base, chain):
    attrs = dict((a, v) for a, v in n[1])
    ibase = ctx.res(attrs['xml:base'], base) if 'xml:base' in attrs else base
    fbs = [c for c in n[2] if c[0] == 'fb']
    if any(c[0] == 'x' for c in n[2]): ctx.causes.append('bad-child-xi'); return []
    if any(c[0] == 'inc' for c in n[2]): ctx.causes.append('bad-child-include'); return []
    if len(fbs) > 1: ctx.causes.append('multi-fb'); return []
    if any(c[0] == 'e' for c in n[2]) or any(c[0] in ('t', 'c', 'p', 'cd') for c in n[2]): ctx.labels.add('ignored-content')
    href = attrs.get('href'); parse = attrs.get('parse', 'xml'); xp = attrs.get('xpointer')
    if parse not in ('xml', 'text'): ctx.causes.append('bad-parse'); return []
    if xp is not None:
        ctx.causes.append('xpointer-text' if parse == 'text' else 'xpointer-unsupported'); return []
    if href is None: ctx.causes.append('no-href'); return []
    if href == '':
        # same-document reference without xpointer: for parse=xml every reading makes it an error (fatal by 3.1, or an inclusion loop);
        # with a fallback, or as parse=text, implementations / editions differ -> unspecified
        if parse == 'xml' and not fbs: ctx.causes.append('empty-href')
        else: ctx.unspec.append('empty-href-text-or-fallback')
        return []
    if '#' in href: ctx.causes.append('href-fragment'); return []
    target = ctx.res(href, ibase)
    if '../' in href:
        # every directory the unnormalised concatenation base-directory + href walks through (the implementation under test
        # leaves dot segments to the file system, finding C20-D8; the property module creates these directories and counts)
        ctx.labels.add('href-dotdot')
        bd = path_of(ibase[:ibase.rfind('/') + 1]) or ''
        cur = []
        for seg in (bd + href).split('/')[:-1]:
            if seg == '..':
                if cur: cur.pop()
            elif seg not in ('', '.'): cur.append(seg)
            if cur: ctx.dotdot_bases.add('/'.join(cur) + '/')
    ctx.fetches += 1
    if ctx.fetches > ctx.max_fetch: raise TooBig()
    path = path_of(target)
    f = ctx.files.get(path) if path is not None else None
    items = None; reserr = False
    if parse == 'xml':
        ctx.labels.add('parse-xml')
        if target in chain:
            ctx.causes.append('loop'); ctx.labels.add('cycle-len-%d' % (len(chain) - chain.index(target)))
            return []
        if f is None: reserr = True
        elif f['kind'] != 'xml':
            ctx.causes.append('nonwf-target')
            if fbs: ctx.unspec.append('nonwf-target-with-fallback')
            return []
        else:
            ctx.included.append(path)
            ctx.maxchain = max(ctx.maxchain, len(chain) + 1)
            d = f['doc']
            if d.get('doctype'): ctx.labels.add('doctype-in-included')
            if d['pro'] or d['epi']: ctx.labels.add('toplevel-misc-in-included')
            if d['root'][0] == 'inc': ctx.labels.add('include-as-root-of-included')
            items = proc_nodes(ctx, d['pro'] + [d['root']] + d['epi'], target, chain + [target])
    else:
        ctx.labels.add('parse-text')
        if f is None: reserr = True
        else:
            enc = attrs.get('encoding', 'utf-8')
            ctx.labels.add('text-enc:' + enc.lower())
            data = ctx.data(path)
            try:
                s = data.decode(PY_CODEC[enc])
            except (UnicodeDecodeError, KeyError):
                ctx.unspec.append('text-undecodable'); return []
            if data[:3] == b'\xef\xbb\xbf' or data[:2] in (b'\xff\xfe', b'\xfe\xff'):
                ctx.unspec.append('text-bom')
            if any(ord(ch) > 0xFFFF for ch in s): ctx.labels.add('text-astral')
            if any(ch in '<&>' for ch in s): ctx.labels.add('text-markup-chars')
            if f['kind'] == 'xml': ctx.labels.add('text-include-of-xml-file')
            items = [['t', s]] if s else []
    if reserr:
        ctx.labels.add('missing-target')
        if not fbs:
            ctx.causes.append('resource-nofb'); return []
        fb = fbs[0]
        b = battr(fb[1]); fbase = ctx.res(b, ibase) if b is not None else ibase
        ctx.labels.add('fallback-used')
        if any(c[0] == 'inc' for c in fb[2]): ctx.labels.add('include-in-used-fallback')
        items = proc_nodes(ctx, fb[2], fbase, chain)
        if not items: ctx.labels.add('empty-expansion')
        return items
    if fbs:
        # fallback present but not needed: its content plays no role (XInclude 1.0 3.2 / 4.4).  The implementation under test
        # processes includes inside it eagerly; if that processing would fail the outcome is tagged unspecified.
        ctx.labels.add('fallback-unused')
        sub = Ctx(ctx.files, ctx.top, ctx.max_fetch); sub.bytes = ctx.bytes; sub.fetches = ctx.fetches
        fb = fbs[0]; b = battr(fb[1]); fbase = sub.res(b, ibase) if b is not None else ibase
        try:
            proc_nodes(sub, fb[2], fbase, chain)
        except TooBig:
            raise
        ctx.fetches = sub.fetches; ctx.dotdot_bases |= sub.dotdot_bases
        if sub.causes or sub.unspec: ctx.unspec.append('unused-fallback-failing')
    return items

def merge_text(items):
    out = []
    for it in items:
        if it[0] == 't':
            if not it[1]: continue
            if out and out[-1][0] == 't': out[-1] = ['t', out[-1][1] + it[1]]; continue
            out.append(['t', it[1]])
        elif it[0] == 'e':
            out.append(['e', it[1], it[2], it[3], merge_text(it[4]), it[5]])
        else: out.append(it)
    return out

def expand(files, top, max_fetch=150):
    """-> (ctx, items): items = children of the result document (None when an error cause was recorded)"""
    ctx = Ctx(files, top, max_fetch)
    d = files[top]['doc']
    turi = uri_of(top)
    items = proc_nodes(ctx, d['pro'] + [d['root']] + d['epi'], turi, [turi])
    if len(ctx.included) != len(set(ctx.included)): ctx.labels.add('diamond')
    if ctx.maxchain >= 3: ctx.labels.add('depth>=2')
    if ctx.maxchain >= 4: ctx.labels.add('depth>=3')
    if d['root'][0] == 'inc':
        ctx.labels.add('include-as-document-element')
        ctx.labels.add('document-element-from-fallback' if (any(c[0] == 'fb' for c in d['root'][2]) and ctx.causes == [] and
                       path_of(resolve(dict(map(tuple, d['root'][1])).get('href', 'x'), turi)) not in files) else 'document-element-from-target')
        if d['pro'] or d['epi']: ctx.labels.add('misc-around-root-include')
    return ctx, merge_text(items)

# ------------------------------------------------------------------------------------------------
# events (the comparison level): element names are expanded names, namespace declarations and xml:base are not part of it
# ------------------------------------------------------------------------------------------------
def events_of(items, ev=None, bases=None):
    if ev is None: ev = []; bases = []
    for it in items:
        k = it[0]
        if k == 'e':
            ev.append(['SE', '{%s}%s' % (it[1], it[2])])
            for a, v in sorted(it[3]): ev.append(['A', '{}' + a, v])
            bases.append(it[5])
            events_of(it[4], ev, bases)
            ev.append(['EE', '{%s}%s' % (it[1], it[2])])
        elif k == 't':
            if ev and ev[-1][0] == 'T': ev[-1] = ['T', ev[-1][1] + it[1]]
            elif it[1]: ev.append(['T', it[1]])
        elif k == 'cd': ev.append(['CD', it[1]])
        elif k == 'c': ev.append(['C', it[1]])
        elif k == 'p': ev.append(['PI', it[1], it[2]])
    return ev, bases
