"""C12 -- serialised DOM re-parses to an equal tree; output always well-formed; XMLFormatter escapes exactly what its mode requires.

Three lanes (all through harness xv_ser):
  parse   M1 document -> XercesDOMParser -> DOMLSSerializer(enc, features, target) -> re-parse -> compare -> serialise again
  build   tree built through the DOM API from a small script (content no parser ever produces) -> same pipeline
  format  XMLFormatter::formatBuf directly (string x EscapeFlags x UnRepFlags x encoding x version)
Oracle (DESIGN C12): (1) output well-formed for Xerces and for pyexpat (bytes decoded by Python codecs, declaration rewritten);
(2) isEqualNode(original, reparsed) both ways and equality of the canonical dumps (modulo CDATA division where a section had to be
split, namespace declarations added by fix-up on API-built trees); pyexpat's events on the original text equal pyexpat's events on the
serialised text; (3) serialize(reparse(serialize(T))) is byte-identical; (4) unencodable characters arrive as character references
(decoding with the Python codec + parse gives the original characters) and are reported in names/comments/PIs/CDATA-without-split;
(5) inexpressible trees => error reported.
"""
import base64, json, re, os, glob
from hypothesis import strategies as st
import xv, xmlmodel as xm
from driver import hyp_run, PropertyFailure, VERIF

ID = 'C12'
HARNESS = {'asan': ['xv_ser']}
RULE = ('parse/build lanes: non-trivial = the tree contains >=1 character that must be escaped (& < > CR in text, & < " TAB LF CR in attribute '
        'values), written as a character reference because the output encoding cannot represent it, a CDATA section that must be split, '
        'an entity reference / doctype that must be re-synthesised, or an element/attribute needing namespace fix-up; distinct by '
        'sha1(document bytes or build script, encoding, feature set, target, subtree index). format lane: string contains >=1 character of '
        'the mode\'s escape list or >=1 unencodable character; distinct by sha1(string, flags, encoding, version).')
ASSUMPTIONS = ['pyexpat 2.5 as second witness for XML 1.0 output (decoded with Python codecs); XML 1.1 output has Xerces + dump equality only',
               'windows-1252 / IBM1140 / ISO-8859-2: a Python-codec vs Xerces/ICU table disagreement is dropped and counted, not reported',
               'escape lists of XMLFormatter modes taken from gEscapeChars on the unchanged tree (header documentation is out of date) and '
               'cross-checked semantically by parsing the formatted text in the context the mode is for',
               'format-pretty-print off (excluded by the property); serializer feature "entities" left at its default (true)']
BUDGET = {'quick': 900, 'thorough': 4000}
WALLCAP = {'quick': 500, 'thorough': 2700}

XMLNS_URI = xm.XMLNS_URI

# xerces name -> (python codec, BOM bytes written when the BOM feature is on, core?)
ENCS = {
    'UTF-8': ('utf-8', b'\xef\xbb\xbf', True), 'ISO-8859-1': ('latin-1', b'', True), 'US-ASCII': ('ascii', b'', True),
    'UTF-16': ('utf-16-le', b'\xff\xfe', True), 'UTF-16LE': ('utf-16-le', b'\xff\xfe', True), 'UTF-16BE': ('utf-16-be', b'\xfe\xff', True),
    'windows-1252': ('cp1252', b'', False), 'IBM1140': ('cp1140', b'', False), 'ISO-8859-2': ('iso8859-2', b'', False),
}
CORE_ENCS = ['UTF-8', 'UTF-8', 'ISO-8859-1', 'US-ASCII']
ALL_ENCS = CORE_ENCS + ['UTF-16', 'UTF-16LE', 'UTF-16BE', 'windows-1252', 'IBM1140', 'ISO-8859-2']

# findings on the unchanged tree (see report); classes are removed from the generators by construction and counted
F_INTSUB = 'C12-intsubset-unescaped'
F_NSRED = 'C12-nsfixup-redundant-decl'
F_NSCONF = 'C12-nsfixup-prefix-conflict'
F_11NEL = 'C12-xml11-nel-ls-literal'
F_11CTL = 'C12-xml11-control-refused'
F_CDEND = 'C12-cdata-split-drops-terminator'
F_CDSUR = 'C12-cdata-unrep-surrogate-halves'
F_COMM = 'C12-comment-dashes-emitted'
F_PI = 'C12-pi-terminator-emitted'
F_ATTRNAME = 'C12-attr-name-charref'
F_CDBAD = 'C12-cdata-split-invalid-char-emitted'
F_ICUSUPP = 'C12-icu-encoding-supplementary'
F_DTEMPTY = 'C12-doctype-empty-intsubset-asymmetric'
ALL_EXCLUSIONS = {F_INTSUB, F_NSRED, F_NSCONF, F_11NEL, F_11CTL, F_CDEND, F_CDSUR, F_COMM, F_PI, F_ATTRNAME, F_CDBAD, F_ICUSUPP, F_DTEMPTY}
# Exclusions in force.  When a defect is fixed in /repo remove its id here (or, for a trial run, name it in the environment variable
# VERIF_C12_EXCLUSIONS_OFF=id1,id2): the class is then generated again and judged by the unrestricted oracle.
FIXED_IN_REPO = {'C12-nsfixup-redundant-decl', 'C12-pi-terminator-emitted', 'C12-comment-dashes-emitted', 'C12-cdata-split-invalid-char-emitted', 'C12-cdata-unrep-surrogate-halves', 'C12-doctype-empty-intsubset-asymmetric'}      # fix: commits landed; classes are generated again, witnesses moved to regress/
ACTIVE_EXCLUSIONS = set(ALL_EXCLUSIONS) - FIXED_IN_REPO - set(x for x in os.environ.get('VERIF_C12_EXCLUSIONS_OFF', '').split(',') if x)
def EX(fid): return fid in ACTIVE_EXCLUSIONS
INTRINSIC = {'UTF-8', 'UTF-16', 'UTF-16LE', 'UTF-16BE', 'ISO-8859-1', 'US-ASCII', 'windows-1252', 'IBM1140'}

def can_encode(ch, codec):
    try: ch.encode(codec); return True
    except UnicodeError: return False

# -------------------------------------------------------------------------------------------------
# response parsing
# -------------------------------------------------------------------------------------------------
def parse_resp(text):
    r = {'sections': {}, 'opexc': [], 'lines': []}
    cur = None
    for line in text.split('\n'):
        if line.startswith('#BEGIN\t'): cur = line[7:]; r['sections'][cur] = []; continue
        if line.startswith('#END\t'): cur = None; continue
        if cur is not None: r['sections'][cur].append(line); continue
        if not line: continue
        p = line.split('\t')
        if p[0] in ('SER1', 'SER2'): r[p[0]] = (p[1] == '1', bytes.fromhex(p[2]) if len(p) > 2 else b'')
        elif p[0] == 'EQ': r['EQ'] = (p[1] == '1', p[2] == '1')
        elif p[0] == 'OPEXC': r['opexc'].append(p[1:])
        else: r['lines'].append(line)
    return r

def dump_rows(lines):
    """dump lines -> list of tuples (unescaped lazily: kept escaped, they are ASCII)"""
    return [tuple(l.split('\t')) for l in lines if l]

def norm_dump(rows, ignore_spec=False, drop_xmlns=False, merge_cdata=False, skip_docinfo_version=True):
    out = []
    for e in rows:
        k = e[0]
        if k == 'DOCINFO':
            out.append(('DOCINFO', e[2] if len(e) > 2 else '')); continue     # version: absent (\N) originally vs "1.0" after the round trip
        if k == 'INTSUB':
            out.append(('INTSUB', '' if (len(e) < 2 or e[1] == '\\N') else e[1])); continue   # <!DOCTYPE a []> vs <!DOCTYPE a>: isEqualNode treats null and "" alike
        if k == 'A':
            e = list(e) + [''] * (6 - len(e))
            if drop_xmlns and e[1].startswith('{' + XMLNS_URI + '}'): continue
            if drop_xmlns and e[2] == 'xmlns' or (drop_xmlns and e[2].startswith('xmlns:')): continue
            if ignore_spec: e[4] = '-'
            out.append(tuple(e)); continue
        if merge_cdata and k in ('CD[', 'CD]'): continue
        if k in ('T', 'IW'):
            v = e[1] if len(e) > 1 else ''
            if out and out[-1][0] == 'T': out[-1] = ('T', out[-1][1] + v)
            else: out.append(('T', v))
            continue
        out.append(tuple(e))
    return [e for e in out if not (e[0] == 'T' and e[1] == '')] if merge_cdata else out

def first_diff(a, b):
    for i in range(max(len(a), len(b))):
        x = a[i] if i < len(a) else None; y = b[i] if i < len(b) else None
        if x != y: return 'row %d:\n  original %r\n  reparsed %r' % (i, x, y)
    return None

# -------------------------------------------------------------------------------------------------
# simulation of the serializer's namespace stack: would fix-up emit a declaration the element does not carry?
# (input-side predicate for finding C12-nsfixup-redundant-decl; also tells whether an API-built tree needs fix-up)
# -------------------------------------------------------------------------------------------------
def fixup_emissions(rows, discard):
    stack = []; added = 0; conflicts = 0
    i = 0; n = len(rows); depth_er = 0
    elstack = []
    def active(prefix, uri):
        for m in reversed(stack):
            if prefix in m and m[prefix] is not None: return (m[prefix] or '') == (uri or '')
        return False
    def default_declared():
        return any(('' in m and m[''] is not None) for m in stack)
    while i < n:
        e = rows[i]
        if e[0] == 'SER': depth_er += 1
        elif e[0] == 'EER': depth_er -= 1
        elif depth_er == 0 and e[0] == 'SE':
            m = re.match(r'\{(.*)\}(.*)$', e[1]); uri = m.group(1) or None; local = m.group(2); q = e[2]
            prefix = q.split(':', 1)[0] if (':' in q and local) else None
            attrs = []
            j = i + 1
            while j < n and rows[j][0] == 'A': attrs.append(rows[j]); j += 1
            own = set(a[2] for a in attrs)
            nsmap = None; emitted = []
            if local and (uri or (not prefix and default_declared())):
                pfx = prefix or ''
                if not active(pfx, uri):
                    nsmap = {}; stack.append(nsmap); nsmap[pfx] = uri
                    emitted.append('xmlns' if not pfx else 'xmlns:' + pfx)
            for a in attrs:
                if discard and a[4].startswith('0'): continue
                am = re.match(r'\{(.*)\}(.*)$', a[1]); ans = am.group(1) or None; alocal = am.group(2); aq = a[2]
                if not alocal or ans is None: continue
                if ans == XMLNS_URI:
                    if nsmap is None: nsmap = {}; stack.append(nsmap)
                    key = '' if aq == 'xmlns' else alocal
                    if key in nsmap: continue
                    nsmap[alocal] = a[5] if len(a) > 5 else ''
                elif ans != xm.XML_URI:
                    ap = aq.split(':', 1)[0] if ':' in aq else None
                    if ap and not active(ap, ans):
                        if nsmap is None: nsmap = {}; stack.append(nsmap)
                        if ap in nsmap and nsmap[ap] is not None and (nsmap[ap] or '') != ans: conflicts += 1
                        nsmap[ap] = ans; emitted.append('xmlns:' + ap)
            if len(set(emitted)) != len(emitted): conflicts += 1
            added += sum(1 for x in emitted if x not in own)
            elstack.append(nsmap is not None)
        elif depth_er == 0 and e[0] == 'EE':
            if elstack and elstack.pop(): stack.pop()
        i += 1
    return added, conflicts

# -------------------------------------------------------------------------------------------------
# expat on the produced bytes
# -------------------------------------------------------------------------------------------------
DECL_RE = re.compile(r'^<\?xml[ \t\r\n][^?]*\?>')
def decode_output(data, enc, bom):
    codec, bombytes, core = ENCS[enc]
    if bom and bombytes:
        if not data.startswith(bombytes): return None, 'BOM %r expected at the start of %s output, got %r' % (bombytes, enc, data[:4])
        data = data[len(bombytes):]
    try:
        return data.decode(codec), None
    except UnicodeError as e:
        return None, 'output is not valid %s for Python codec %s: %s' % (enc, codec, e)

def expat_proj(data, files, keep_xmlns=True):
    kind, ev = xm.expat_events(data, files, False)
    if kind != 'ok': return kind, ev
    out = []
    for e in xm.project_expat(ev, False):
        if e[0] in ('CD[', 'CD]'): continue
        if e[0] == 'T':
            if out and out[-1][0] == 'T': out[-1] = ('T', out[-1][1] + e[1])
            else: out.append(e)
            continue
        if e[0] == 'A' and not keep_xmlns and (e[3] == 'xmlns' or e[3].startswith('xmlns:')): continue
        out.append(e)
    return 'ok', out

# -------------------------------------------------------------------------------------------------
# the round-trip oracle (shared by parse and build lanes and by replay)
# -------------------------------------------------------------------------------------------------
def request_of(case):
    s = case['ser']
    req = {'kind': 'roundtrip', 'src': case['lane'], 'feat': case['feat'], 'enc': s['enc'], 'xmldecl': str(s['xmldecl']), 'split': str(s['split']),
           'discard': str(s['discard']), 'bom': str(s['bom']), 'target': s['target'], 'sub': str(s.get('sub', -1))}
    if s.get('force2'): req['force2'] = s['force2']
    if case['lane'] == 'parse':
        req['doc'] = base64.b64decode(case['doc_b64'])
        for k, v in case.get('files_b64', {}).items(): req['ent:' + k] = base64.b64decode(v)
    else:
        req['script'] = case['script']
    return req

def effective_enc(case):
    return 'UTF-16' if case['ser']['target'] == 'string' else case['ser']['enc']

def check_roundtrip(case, resp_text, stats=None):
    """-> (ok, detail, info)   info: dict(excluded=finding-id|None, labels=set)"""
    s = case['ser']; info = {'excluded': None, 'labels': set()}
    r = parse_resp(resp_text)
    sec = r['sections']
    if 'parse1err' in sec:
        info['labels'].add('source-parse-error'); return True, 'source document not accepted (not this property)', info
    if 'SER1' not in r: return False, 'harness gave no serialisation result:\n' + resp_text[:1500], info
    ok1, ser1 = r['SER1']
    serlog = [l.split('\t') for l in sec.get('serlog1', []) if l]
    reported = (not ok1) or any(l[0] == 'SEXC' or (l[0] == 'SERR' and l[1] in ('E', 'F')) for l in serlog)
    warnings = [l for l in serlog if l[0] == 'SERR' and l[1] == 'W']
    expect = case.get('expect', 'ok')
    enc = effective_enc(case); bom = s['bom'] and s['target'] != 'string' and s.get('sub', -1) < 0
    orig = dump_rows(sec.get('orig', []))
    if expect == 'error':
        # inexpressible tree: an error must be reported; a clean verdict together with accepted output would be a silently different document
        info['labels'].add('inexpressible')
        if not reported:
            return False, 'inexpressible tree (%s) serialised without any error report; output %r' % (case.get('why'), ser1[:300]), info
        return True, 'ok (error reported)', info
    if reported and case.get('err_allowed'):
        # a character the encoding cannot represent sits where the grammar allows no reference (name, comment, PI, CDATA without split,
        # doctype): reporting is the specified outcome
        info['labels'].add('reported-unencodable-markup'); return True, 'ok (unencodable markup reported)', info
    if reported:
        return False, 'expressible tree: serializer reported an error / failed: ok=%s log=%r output=%r' % (ok1, serlog[:4], ser1[:200]), info
    for w in warnings:
        if not (s['split'] and 'cdata' in w[2]):
            return False, 'unexpected serializer warning %r' % (w,), info
    # ---- input-side exclusion: redundant namespace declarations emitted by fix-up (finding F_NSRED)
    ns_on = 'ns=1' in case['feat']
    added, conflicts = fixup_emissions(orig, bool(s['discard'])) if ns_on else (0, 0)
    nsred = False
    if case['lane'] == 'parse' and added and not case.get('strict') and EX(F_NSRED):
        nsred = True; info['excluded'] = F_NSRED
    # (1) well-formed for Xerces
    p2 = [l for l in sec.get('parse2err', []) if l]
    if p2: return False, 'serialised output is not accepted by Xerces: %r\noutput: %r' % (p2[:3], ser1[:600]), info
    if 'EQ' not in r or 'SER2' not in r: return False, 'no comparison result: %r' % (r['lines'][:5],), info
    rep = dump_rows(sec.get('reparsed', []))
    split_happened = bool(warnings) or case.get('cdata_split', False)
    if split_happened: info['labels'].add('cdata-split')
    # (2) tree equality
    whole = s.get('sub', -1) < 0
    ignore_spec = (not s['discard']) or not whole
    loose_ns = nsred or case['lane'] == 'build' or not whole
    a = norm_dump(orig, ignore_spec, loose_ns, split_happened)
    b = norm_dump(rep, ignore_spec, loose_ns, split_happened)
    if not (s['xmldecl'] and whole):
        a = [e for e in a if e[0] != 'DOCINFO']; b = [e for e in b if e[0] != 'DOCINFO']
    if not whole:
        a = [e for e in a if e[0] not in ('SD', 'ED')]; b = [e for e in b if e[0] not in ('SD', 'ED')]
    d = first_diff(a, b)
    if d: return False, 'reparsed tree differs from the original (canonical dumps):\n%s\noutput: %r' % (d, ser1[:600]), info
    exact = [e for e in norm_dump(orig, ignore_spec, False, False) if e[0] != 'DOCINFO'] == [e for e in norm_dump(rep, ignore_spec, False, False) if e[0] != 'DOCINFO']
    eq = r['EQ']
    if eq == (True, False) and any(e[0] == 'INTSUB' and (len(e) < 2 or e[1] == '') for e in orig) and not case.get('strict') and EX(F_DTEMPTY):
        # <!DOCTYPE a []>: internalSubset "" before, null after the round trip; DOMDocumentTypeImpl::isEqualNode treats that pair as equal in
        # one direction only (finding F_DTEMPTY): input-side predicate, counted
        info['excluded'] = info['excluded'] or F_DTEMPTY; eq = (True, True)
    if eq[0] != eq[1]: return False, 'isEqualNode is not symmetric: a.isEqualNode(b)=%s b.isEqualNode(a)=%s' % eq, info
    if exact and not split_happened and not eq[0]:
        return False, 'dumps are equal but isEqualNode(original, reparsed) is false\noutput: %r' % (ser1[:600],), info
    if eq[0] and not exact:
        return False, 'isEqualNode is true but the canonical dumps differ: %s' % first_diff(norm_dump(orig, ignore_spec), norm_dump(rep, ignore_spec)), info
    if not exact: info['labels'].add('fixup-added-decl' if not split_happened else 'cdata-division')
    # (3) idempotence
    ok2, ser2 = r['SER2']
    if not ok2 or ser2 != ser1:
        return False, 'second serialisation differs from the first:\n first  %r\n second %r' % (ser1[:600], ser2[:600]), info
    # (1b)/(4) second witness: decode with the Python codec, rewrite the declaration, parse with expat
    if case.get('version', '1.0') == '1.0':
        text, err = decode_output(ser1, enc, bom)
        core = ENCS[enc][2]
        if text is None:
            if core: return False, err, info
            info['labels'].add('codec-disagreement'); info['disagree'] = True
            return True, 'ok (codec disagreement dropped)', info
        m = DECL_RE.match(text)
        body = text[m.end():] if m else text
        if s['xmldecl'] and whole:
            if not m: return False, 'xml-declaration=true but output does not start with one: %r' % text[:80], info
            dm = re.search(r'encoding="([^"]*)"', m.group(0))
            if not dm or dm.group(1).upper() != enc.upper(): return False, 'declared encoding %r != requested %r' % (dm and dm.group(1), enc), info
            sa = re.search(r'standalone="(yes|no)"', m.group(0))
            head = '<?xml version="1.0" encoding="utf-8"%s?>' % ((' standalone="%s"' % sa.group(1)) if sa else '')
        else:
            if m and whole: return False, 'xml-declaration=false but output starts with a declaration: %r' % text[:80], info
            head = ''
        if '\ufeff' in body[:1]: return False, 'unexpected BOM in output', info
        files = {k: base64.b64decode(v) for k, v in case.get('files_b64', {}).items()}
        try:
            k2, ev2 = expat_proj((head + body).encode('utf-8'), files, keep_xmlns=not loose_ns)
        except UnicodeError as e:
            return False, 'decoded output contains unpaired surrogates: %s' % e, info
        if k2 != 'ok':
            if not core and case.get('exotic_chars'):
                info['disagree'] = True; return True, 'ok (codec disagreement dropped)', info
            return False, 'serialised output (decoded by Python codec %s) rejected by pyexpat: %s\ntext: %r' % (ENCS[enc][0], ev2, text[:600]), info
        if case['lane'] == 'parse' and whole:
            k1, ev1 = expat_proj(base64.b64decode(case['doc_b64']), files, keep_xmlns=not loose_ns)
            if k1 != 'ok':
                info['disagree'] = True; return True, 'ok (expat rejects the source document: dropped)', info
            if ev1 != ev2:
                if not core: info['disagree'] = True; return True, 'ok (codec disagreement dropped)', info
                return False, 'pyexpat sees different documents before and after the round trip:\n%s\noutput text: %r' % (first_diff(ev1, ev2), text[:600]), info
        elif case['lane'] == 'build' and 'expat_expected' in case:
            exp = [tuple(x) for x in case['expat_expected']]
            got = [tuple(None if v is None else v for v in e) for e in ev2]
            if exp != got:
                if not core: info['disagree'] = True; return True, 'ok (codec disagreement dropped)', info
                return False, 'pyexpat on the decoded output does not give back the built tree:\n%s\noutput text: %r' % (first_diff(exp, got), text[:600]), info
    return True, 'ok', info

# -------------------------------------------------------------------------------------------------
# parse lane
# -------------------------------------------------------------------------------------------------
def all_chardata(d):
    """every character-data string of the model (text, CDATA, attribute values, defaults, entity content)"""
    out = []
    def walk(n):
        if isinstance(n, xm.El):
            for a in n.attrs:
                if isinstance(a, xm.At): out.append(a.value)
            for c in n.children: walk(c)
        elif isinstance(n, (xm.Tx, xm.CD, xm.Cm)): out.append(n.value)
        elif isinstance(n, xm.PI): out.append(n.data)
    walk(d.root)
    for e in d.ents_content.values():
        for c in e.content: walk(c)
    for e in d.ents_attr.values(): out.append(''.join(c for c, f in e.attoks))
    for lst in d.attdecls.values():
        for ad in lst:
            if ad.dtoks is not None: out.append(ad.dvalue)
    return out

SAFE_REF = {'<': '&lt;', '&': '&amp;', '>': '&gt;', '"': '&quot;', "'": '&apos;'}
def sanitize_intsubset(d):
    """Finding C12-intsubset-unescaped: the re-synthesised internal subset writes entity values and attribute defaults without
    re-escaping.  The class (internal-subset entity whose replacement text contains a character reference, '%' or '"'; attribute default
    whose value contains & < " TAB LF CR) is removed by construction: the offending lexical forms are replaced by equivalent safe ones or the
    token is dropped.  -> number of tokens changed"""
    changed = [0]
    def fix_toks(toks, ctx):
        out = []
        for c, f in toks:
            bad = f.startswith('&#') or '%' in f or '"' in f or (ctx == 'misc' and '&' in f) or (ctx == 'default' and (re.search('[&<"\t\n\r]', c) or f.startswith('&')))
            if not bad: out.append((c, f)); continue
            changed[0] += 1
            if ctx == 'default': continue
            if len(c) == 1 and c in SAFE_REF and ctx in ('content', 'attr'): out.append((c, SAFE_REF[c])); continue
            if f.startswith('&#') and len(c) == 1 and c not in '%"\r' and not (ctx == 'attr' and c in '\t\n') and xml_literal_ok(c, d.version):
                out.append((c, c)); continue
        toks[:] = out
    def walk(n):
        if isinstance(n, xm.El):
            for a in n.attrs:
                if isinstance(a, xm.At):
                    if a.quote == '"': a.quote = "'"; changed[0] += 1
                    fix_toks(a.toks, 'attr')
            for c in n.children: walk(c)
        elif isinstance(n, xm.Tx):
            fix_toks(n.toks, 'content')
            if not n.toks: n.toks.append(('x', 'x'))
        elif isinstance(n, (xm.CD, xm.Cm, xm.PI)):
            fix_toks(n.toks, 'misc')
            if isinstance(n, xm.CD) and not n.toks: n.toks.append(('x', 'x'))
    if not d.doctype: return 0
    for x in d.doctype['decls']:
        if x.where != 'int': continue
        if isinstance(x, xm.EntDecl) and x.kind == 'content':
            for c in x.content: walk(c)
        elif isinstance(x, xm.EntDecl) and x.kind == 'attr': fix_toks(x.attoks, 'attr')
        elif isinstance(x, xm.AttDecl) and x.dtoks is not None: fix_toks(x.dtoks, 'default')
    return changed[0]

def xml_literal_ok(c, version):
    o = ord(c)
    if version == '1.1' and ((1 <= o <= 0x1f and o not in (9, 10)) or 0x7f <= o <= 0x9f or o == 0x2028): return False
    return o in (9, 10) or 0x20 <= o <= 0xD7FF or 0xE000 <= o <= 0xFFFD or o >= 0x10000

RESTRICTED_11 = re.compile('[\x01-\x08\x0b\x0c\x0e-\x1f\x7f-\x84\x86-\x9f]')
def parse_exclusions(d):
    ex = []
    if d.doctype and EX(F_INTSUB):
        for x in d.doctype['decls']:
            if x.where != 'int': continue
            if isinstance(x, xm.EntDecl) and x.kind in ('content', 'attr'):
                if x.kind == 'content':
                    rr = xm.R(d); xm.render_nodes(rr, x.content, d.version); repl = ''.join(rr.out)
                else:
                    repl = xm.join_forms(x.attoks, d.version, 'attr')
                if '&#' in repl or '%' in repl or '"' in repl: ex.append(F_INTSUB); break
            if isinstance(x, xm.AttDecl) and x.dtoks is not None:
                if re.search('[&<"\t\n\r]', x.dvalue): ex.append(F_INTSUB); break
    if d.version == '1.1':
        cd = all_chardata(d)
        if any(RESTRICTED_11.search(s) for s in cd) and EX(F_11CTL): ex.append(F_11CTL)
        elif any(('\u0085' in s or '\u2028' in s) for s in cd) and EX(F_11NEL): ex.append(F_11NEL)
    return ex

def count_elements(n):
    return 1 + sum(count_elements(c) for c in n.children if isinstance(c, xm.El)) if isinstance(n, xm.El) else 0

def parse_labels(d, text, enc, s):
    L = set()
    codec = ENCS[enc][0]
    cd = all_chardata(d)
    joined = ''.join(cd)
    if re.search('[&<>\r]', joined): L.add('must-escape')
    if re.search('["\t\n]', ''.join(a.value for a in iter_attrs(d.root))): L.add('attr-escape')
    if any(not can_encode(ch, codec) for ch in set(joined)): L.add('char-ref-needed')
    if any(ord(ch) > 0xFFFF for ch in joined): L.add('supplementary')
    if d.doctype: L.add('doctype')
    if '<![CDATA[' in text: L.add('cdata')
    if d.ents_content and re.search(r'&e\d;|&xe;', text): L.add('entity-ref')
    if any(not a.written for a in iter_attrs(d.root)): L.add('defaulted-attr')
    if d.use_ns: L.add('namespaces')
    if d.version == '1.1': L.add('xml11')
    return L

def iter_cdata(d):
    def w(n):
        if isinstance(n, xm.CD): yield n
        elif isinstance(n, xm.El):
            for c in n.children:
                for x in w(c): yield x
    for x in w(d.root): yield x
    for e in d.ents_content.values():
        for c in e.content:
            for x in w(c): yield x

def iter_attrs_all(d):
    for a in iter_attrs(d.root): yield a
    for e in d.ents_content.values():
        for c in e.content:
            for a in iter_attrs(c): yield a

def iter_attrs(n):
    if isinstance(n, xm.El):
        for a in n.attrs:
            if isinstance(a, xm.At): yield a
        for c in n.children:
            for a in iter_attrs(c): yield a

NONTRIV = {'shadow', 'big-run', 'must-escape', 'attr-escape', 'char-ref-needed', 'cdata-split', 'entity-ref', 'doctype', 'needs-fixup', 'cdata', 'defaulted-attr'}

def ser_options(draw, encs, whole_only=False, version='1.0'):
    enc = draw(st.sampled_from(encs))
    target = draw(st.sampled_from(['mem', 'mem', 'mem', 'string', 'file']))
    s = dict(enc=enc, xmldecl=int(draw(st.integers(0, 3)) > 0), split=int(draw(st.integers(0, 3)) > 0), discard=int(draw(st.booleans())),
             bom=int(draw(st.integers(0, 2)) == 0), target=target, sub=-1)
    if version == '1.1': s['xmldecl'] = 1
    return s

def finish_ser(s):
    """derive the forced encoding for the re-parse where the output carries no usable declaration"""
    enc = 'UTF-16' if s['target'] == 'string' else s['enc']
    whole = s.get('sub', -1) < 0
    decl = s['xmldecl'] and whole
    bom = s['bom'] and whole and s['target'] != 'string'
    if not decl:
        if enc.startswith('UTF-16'):
            if not (bom and enc != 'UTF-16X'): s['force2'] = 'UTF-16LE' if enc != 'UTF-16BE' else 'UTF-16BE'
        elif enc != 'UTF-8': s['force2'] = enc
    return s

@st.composite
def parse_case_strategy(draw, encs):
    d = draw(xm.gen_doc(xm.GenCfg(max_depth=3, max_children=4, max_text=10)))
    ns = draw(st.booleans()); ere = draw(st.booleans())
    s = ser_options(draw, encs, version=d.version)
    sub = draw(st.integers(0, 7))
    big = draw(gen_big(odds=30))
    if big:
        where, n, cls, pos = big
        toks = [(c, c) for c in big_run(n, cls)]
        if where == 'A': d.root.attrs = [a for a in d.root.attrs if a.qname != 'big'] + [xm.At('big', toks)]
        else:
            node = {'T': xm.Tx, 'CD': xm.CD, 'C': xm.Cm}.get(where)
            node = node(toks) if node else xm.PI('t', toks, ' ')
            d.root.children.insert(min(pos, len(d.root.children)), node)
            d.root.lex['empty'] = False
        d.big = big
    return d, ns, ere, s, sub

def markup_strings(d, split):
    """strings that end up where the grammar allows no character reference"""
    out = []
    def walk(n):
        if isinstance(n, xm.El):
            out.append(xm.qname_str(n.qname))
            for c in n.children: walk(c)
        elif isinstance(n, xm.Cm): out.append(n.value)
        elif isinstance(n, xm.PI): out.append(n.target); out.append(n.data)
        elif isinstance(n, xm.CD) and not split: out.append(n.value)
    for n in d.prolog + getattr(d, 'prolog2', []) + d.epilog: walk(n)
    walk(d.root)
    for e in d.ents_content.values():
        for c in e.content: walk(c)
    if d.doctype:
        out.append(d.doctype['name'])
        for x in d.doctype['decls']:
            if x.where != 'int': continue
            out.append(xm.render_decl(d, x, d.version))
            if isinstance(x, xm.AttDecl) and x.dtoks is not None: out.append(x.dvalue)
    return out

def build_parse_case(d, ns, ere, s, sub, excluded=None):
    text, files = xm.render(d)
    data = xm.encode_doc(text, 'utf-8')
    fbytes = {k: v.replace('@ENC@', 'UTF-8').encode('utf-8') for k, v in files.items()}
    s = dict(s)
    excluded = excluded if excluded is not None else []
    enc = 'UTF-16' if s['target'] == 'string' else s['enc']; codec = ENCS[enc][0]
    cd = ''.join(all_chardata(d))
    if EX(F_ICUSUPP) and enc not in INTRINSIC and any(ord(ch) > 0xFFFF for ch in cd + text):
        excluded.append(F_ICUSUPP); s['enc'] = 'UTF-8'; codec = 'utf-8'
    if EX(F_ATTRNAME) and any(not can_encode(ch, codec) for a in iter_attrs_all(d) for ch in a.qname):
        excluded.append(F_ATTRNAME); s['enc'] = 'UTF-8'; codec = 'utf-8'
    if EX(F_CDSUR) and s['split'] and any(ord(ch) > 0xFFFF and not can_encode(ch, codec) for n in iter_cdata(d) for ch in n.value):
        excluded.append(F_CDSUR); s['enc'] = 'UTF-8'; codec = 'utf-8'
    err_allowed = any(not can_encode(ch, codec) for sv in markup_strings(d, s['split']) for ch in set(sv)) or any(not can_encode(ch, codec) for a in iter_attrs_all(d) for ch in a.qname)
    if sub == 0 and d.version == '1.0':
        s['sub'] = count_elements(d.root) // 2     # some element in the middle of the document (pre-order index)
    finish_ser(s)
    case = {'lane': 'parse', 'feat': 'ns=%d;ere=%d;val=0;loaddtd=1' % (ns, ere), 'ser': s, 'version': d.version,
            'doc_b64': base64.b64encode(data).decode(), 'files_b64': {k: base64.b64encode(v).decode() for k, v in fbytes.items()},
            'doc_preview': text[:500]}
    if err_allowed: case['err_allowed'] = True
    return case, text

def subtree_ok(orig_rows):
    """subtree serialisation is compared only when the subtree is self-contained: no entity references, no defaulted attributes"""
    return not any(e[0] == 'SER' or (e[0] == 'A' and e[4].startswith('0')) for e in orig_rows)

# -------------------------------------------------------------------------------------------------
# build lane: Python tree model -> creation script + expected outcome
# -------------------------------------------------------------------------------------------------
TEXT_ALPHA = (['a', 'b', 'z', 'Q', '0', ' ', ' ', '-', '.', '_', ';', '#', 'x'] * 2 +
              ['&', '<', '>', '"', "'", '\t', '\r', '\n', '\r\n', '\u0085', '\u2028', ']', ']]', ']]>', '--', '?>', '&amp;', '&#10;',
               '\u00e9', '\u00a0', '\u00ff', '\u20ac', '\u0105', '\u4e2d', '\ufffd', '\ud7ff', '\ue000', '\U00010000', '\U0001f600', '\U0010ffff'])
BAD_CHARS = ['\x01', '\x0b', '\x1f', '\ufffe', '\uffff', '\ud800', '\udbff', '\udc00', '\udfff', 'a\udc00\ud800b']
NAMES_ASCII = ['a', 'b', 'c1', 'x-y', '_z', 'n.m', 'item']
NAMES_NONASCII = ['\u00e9l', '\u4e2d', 'a\u0105', 'k\u00b7']
NS_TABLE = [('p', 'urn:p'), ('q', 'urn:q'), ('r', 'http://x.example/y?a=1&b=2'), ('', 'urn:d'), ('', None)]

def xml10_char_ok(s):
    i = 0
    while i < len(s):
        c = ord(s[i])
        if 0xD800 <= c <= 0xDFFF: return False       # Python str: a surrogate code point is always unpaired
        if not (c in (9, 10, 13) or 0x20 <= c <= 0xD7FF or 0xE000 <= c <= 0xFFFD or 0x10000 <= c <= 0x10FFFF): return False
        i += 1
    return True

# ---- size classes: one long run of characters that need no escaping, so that a single formatter call has to cross its internal buffer
# (XMLFormatter::fTmpBuf is 16 KiB: > 16384 ASCII, > 8192 two-byte, > 5461 three-byte, > 4096 four-byte characters in UTF-8; > 8192
# UTF-16 units in UTF-16 output, i.e. every writeToString) and MemBufFormatTarget / DOM string growth thresholds
BIG_LENGTHS = [20000, 9001, 5462, 40000, 8193, 12000, 16385, 5000]     # (Hypothesis favours the first entries)
BIG_CLASSES = ['three', 'ascii', 'supp', 'two']
def big_run(n, cls):
    """deterministic, non-periodic string of n characters of one encoding-size class (no markup, no white space, no '-' '?' ']')"""
    if cls == 'ascii':
        out = []; k = 0; i = 0
        while k < n:
            t = '%x.' % (i * i + 7 * i); out.append(t); k += len(t); i += 1
        return ''.join(out)[:n]
    if cls == 'two': return ''.join(chr(0xC0 + ((i * i + i // 7) % 0x180)) for i in range(n)).replace('\u00d7', 'x').replace('\u00f7', 'y')
    if cls == 'three': return ''.join(chr(0x4E00 + ((i * i + i // 5) % 5000)) for i in range(n))
    return ''.join(chr(0x10000 + ((i * 7 + i * i // 3) % 4000)) for i in range(n))

@st.composite
def gen_big(draw, odds=24):
    # about one case in 25-30: a big case costs 0.4-1.5 s against ~0.03 s for an ordinary one (a middle value is tested because
    # Hypothesis favours the ends of an integer range)
    if draw(st.integers(0, odds)) != odds // 2: return None
    return (draw(st.sampled_from(['A', 'T', 'CD', 'C', 'PI', 'T', 'A'])), draw(st.sampled_from(BIG_LENGTHS)), draw(st.sampled_from(BIG_CLASSES)), draw(st.integers(0, 5)))

MISC_ALPHA = [x for x in TEXT_ALPHA if '\r' not in x]     # CR inside comment/PI/CDATA cannot be written at all (no references there): not generated
@st.composite
def gen_string(draw, max_size=8, bad_ok=True, min_size=1, alpha=None):
    parts = draw(st.lists(st.sampled_from(alpha or TEXT_ALPHA), min_size=min_size, max_size=max_size))
    if bad_ok and draw(st.integers(0, 24)) == 0:
        parts.insert(draw(st.integers(0, len(parts))), draw(st.sampled_from(BAD_CHARS)))
    return ''.join(parts)

# ---- prefix shadowing: ONE prefix (or the default namespace) deliberately re-bound along a path of depth >= 3, so that the innermost
# declaration differs from an outer one that matches the node (A,B,A / A,none,A ...).  Fix-up has to re-declare at every change; a scope
# walk that accepts a shadowed outer binding would leave {A}leaf in namespace B after the round trip.
SHADOW_SEQS_P = [['urn:s1', 'urn:s2', 'urn:s1'], ['urn:s1', 'urn:s2', 'urn:s1', 'urn:s2'], ['urn:s1', 'urn:s2', 'urn:s2', 'urn:s1'],
                 ['urn:s1', 'urn:s2', 'urn:s3', 'urn:s1'], ['urn:p', 'urn:s2', 'urn:p']]
SHADOW_SEQS_D = [['urn:s1', None, 'urn:s1'], ['urn:s1', 'urn:s2', 'urn:s1'], ['urn:s1', None, 'urn:s2', 'urn:s1'], ['urn:d', None, 'urn:d', None],
                 ['urn:s1', None, None, 'urn:s1']]
@st.composite
def gen_shadow(draw):
    """-> (head element, label set) : a chain of nested elements using one prefix for alternating namespaces"""
    pfx = draw(st.sampled_from(['p', '', 'p', 'q']))
    seq = list(draw(st.sampled_from(SHADOW_SEQS_D if pfx == '' else SHADOW_SEQS_P)))
    leaf_attr = pfx != '' and draw(st.integers(0, 2)) == 0          # the last namespace is used by a prefixed attribute instead of an element
    declare = draw(st.sampled_from(['none', 'none', 'all', 'some']))    # explicit xmlns attribute nodes on the chain elements
    labels = {'shadow', 'shadow:' + ('default' if pfx == '' else 'prefix'), 'shadow:decl-' + declare, 'shadow:len%d' % len(seq)}
    if None in seq: labels.add('shadow:none')
    if leaf_attr: labels.add('shadow:attr')
    head = None; cur = None
    for k, uri in enumerate(seq):
        last = k == len(seq) - 1
        if last and leaf_attr:
            # element outside the game (other prefix or no namespace at all) carrying  pfx:at  in namespace seq[-1]
            epfx, euri = draw(st.sampled_from([('r', 'urn:r2'), (None, None)]))
            el = {'k': 'E', 'local': 'leaf', 'attrs': [(pfx, 'at', uri, 'v%d' % k)], 'children': [], 'prefix': epfx, 'ns': euri, 'decls': []}
            used = {pfx: uri}
            if epfx: used[epfx] = euri
        else:
            el = {'k': 'E', 'local': 'leaf' if last else 's%d' % k, 'attrs': [], 'children': [], 'prefix': pfx or None, 'ns': uri, 'decls': []}
            used = {pfx: uri} if uri is not None else {}
            if pfx and draw(st.integers(0, 3)) == 0:
                el['attrs'].append((pfx, 'a%d' % k, uri, 'w'))          # attribute in the element's own binding
            if draw(st.integers(0, 2)) == 0: el['children'].append({'k': 'T', 'v': 't%d' % k})
        if declare == 'all' or (declare == 'some' and draw(st.booleans())):
            el['decls'] = sorted(used.items())
            if pfx == '' and uri is None and not (last and leaf_attr): el['decls'] = [('', '')]      # explicit xmlns=""
        if cur is None: head = el
        else: cur['children'].append(el)
        cur = el
    return head, labels

@st.composite
def build_case_strategy(draw, encs):
    nsmode = draw(st.booleans())
    s = ser_options(draw, encs)
    excluded = []
    names = NAMES_ASCII * 3 + NAMES_NONASCII
    def gen_el(depth, scope_hint):
        local = draw(st.sampled_from(names))
        el = {'k': 'E', 'local': local, 'attrs': [], 'children': [], 'prefix': None, 'ns': None, 'decls': []}
        if nsmode:
            pfx, uri = draw(st.sampled_from(NS_TABLE))
            el['prefix'] = pfx or None; el['ns'] = uri
            declare = draw(st.integers(0, 2))      # 0: no explicit xmlns attributes (fix-up must supply), 1/2: explicit and consistent
            used = {}
            if uri is not None: used[pfx] = uri
            for i in range(draw(st.integers(0, 2))):
                apfx, auri = draw(st.sampled_from(NS_TABLE[:3] + [('', None), ('', None), ('p', 'urn:q')]))
                alocal = draw(st.sampled_from(names + ['a1', 'b2']))
                if apfx and apfx in used and used[apfx] != auri and EX(F_NSCONF):
                    # a second namespace under a prefix already used on this element: inexpressible without renaming the prefix;
                    # the serializer emits xmlns:p twice (finding F_NSCONF) -> class removed by construction, counted
                    excluded.append(F_NSCONF); continue
                if any(x[1] == alocal and x[2] == auri for x in el['attrs']): continue
                if apfx: used[apfx] = auri
                el['attrs'].append((apfx or None, alocal, auri, draw(gen_string(6, min_size=0))))
            if declare:
                for k, v in sorted(used.items()):
                    el['decls'].append((k, v))
        else:
            for i in range(draw(st.integers(0, 2))):
                alocal = draw(st.sampled_from(names + ['a1', 'b2']))
                if any(x[1] == alocal for x in el['attrs']): continue
                el['attrs'].append((None, alocal, None, draw(gen_string(6, min_size=0))))
        if depth < 3:
            for i in range(draw(st.integers(0, 4 if depth < 2 else 2))):
                kind = draw(st.sampled_from(['T', 'T', 'T', 'E', 'E', 'CD', 'CD', 'C', 'PI']))
                if kind == 'E': el['children'].append(gen_el(depth + 1, None))
                elif kind == 'T': el['children'].append({'k': 'T', 'v': draw(gen_string(8))})
                elif kind == 'CD': el['children'].append({'k': 'CD', 'v': draw(gen_string(6, min_size=0, alpha=MISC_ALPHA))})
                elif kind == 'C': el['children'].append({'k': 'C', 'v': draw(gen_string(6, min_size=0, alpha=MISC_ALPHA))})
                else: el['children'].append({'k': 'PI', 't': draw(st.sampled_from(['t', 'pi-1', 'x.y', '\u00e9t'])), 'v': draw(gen_string(6, min_size=0, alpha=MISC_ALPHA)).lstrip(' \t\r\n')})
        return el
    root = gen_el(1, None)
    big = draw(gen_big())
    if big:
        where, n, cls, pos = big
        v = big_run(n, cls)
        if where == 'A': root['attrs'] = [a for a in root['attrs'] if a[1] != 'big'] + [(None, 'big', None, v)]
        else:
            node = {'k': where, 'v': v}
            if where == 'PI': node['t'] = 't'
            root['children'].insert(min(pos, len(root['children'])), node)
    shadow = None
    if nsmode and draw(st.integers(0, 5)) == 3:
        chain, shadow = draw(gen_shadow())
        where = draw(st.integers(0, 2))
        if where == 0 and not big: root = chain                                        # the chain is the document element
        else:
            host = root
            while where == 2 and any(c['k'] == 'E' for c in host['children']) and host is root:
                host = [c for c in host['children'] if c['k'] == 'E'][0]   # one level down: an unrelated scope above the chain
            host['children'].insert(min(draw(st.integers(0, 3)), len(host['children'])), chain)
    misc_before = [{'k': 'C', 'v': draw(gen_string(4, min_size=0, alpha=MISC_ALPHA))} for _ in range(draw(st.integers(0, 1)))]
    misc_after = [{'k': 'PI', 't': 't', 'v': draw(gen_string(4, min_size=0, alpha=MISC_ALPHA)).lstrip(' \t\r\n')} for _ in range(draw(st.integers(0, 1)))]
    standalone = draw(st.booleans())
    return nsmode, s, root, misc_before, misc_after, standalone, excluded, big, shadow

def build_build_case(nsmode, s, root, misc_before, misc_after, standalone, pre_excluded, stats=None):
    """-> (case | None, excluded-ids, labels)"""
    s = dict(s)
    if EX(F_ICUSUPP) and (s['enc'] not in INTRINSIC and s['target'] != 'string') and has_supplementary(root, misc_before, misc_after):
        pre_excluded = list(pre_excluded) + [F_ICUSUPP]; s['enc'] = 'UTF-8'
    finish_ser(s)
    enc = 'UTF-16' if s['target'] == 'string' else s['enc']; codec = ENCS[enc][0]
    E = xv.esc
    lines = []; idx = [0]
    excluded = list(pre_excluded); labels = set(); why = []
    cdata_split = [False]; exotic = [False]
    def new(line):
        lines.append(line); idx[0] += 1; return idx[0]
    def enc_ok(sv): return all(can_encode(ch, codec) for ch in set(sv))
    def note_chars(sv):
        if re.search('[\u0080-\u009f]', sv): exotic[0] = True
    def sanitize_for_known(n):
        """remove the classes of known findings by construction (counted)"""
        if n['k'] == 'C':
            v = n['v']
            if ('--' in v or v.endswith('-')) and EX(F_COMM):
                excluded.append(F_COMM); v = v.replace('-', '_')
            n['v'] = v
        elif n['k'] == 'PI':
            if '?>' in n['v'] and EX(F_PI):
                excluded.append(F_PI); n['v'] = n['v'].replace('?>', '?_')
        elif n['k'] == 'CD':
            v = n['v']
            if s['split'] and not xml10_char_ok(v) and EX(F_CDBAD):
                excluded.append(F_CDBAD); v = ''.join(ch for ch in v if xml10_char_ok(ch))
            if s['split'] and ']]>' in v and EX(F_CDEND):
                excluded.append(F_CDEND); v = v.replace(']]>', ']]_')
            if EX(F_CDSUR) and s['split'] and any(ord(ch) > 0xFFFF and not can_encode(ch, codec) for ch in v):
                excluded.append(F_CDSUR); v = ''.join(ch for ch in v if not (ord(ch) > 0xFFFF and not can_encode(ch, codec)))
            n['v'] = v
    def emit(n, parent):
        sanitize_for_known(n)
        k = n['k']
        if k == 'E':
            fixed = []
            for (ap, al, au, av) in n['attrs']:
                if not enc_ok(al) and EX(F_ATTRNAME):
                    excluded.append(F_ATTRNAME); al = 'n' + str(len(fixed))
                fixed.append((ap, al, au, av))
            n['attrs'] = fixed
            q = (n['prefix'] + ':' + n['local']) if n['prefix'] else n['local']
            me = new('elns\t%s\t%s' % (E(n['ns']) if n['ns'] is not None else '\\N', E(q)) if nsmode else 'el\t' + E(q))
            if not enc_ok(q): why.append('unencodable element name')
            for (ap, al, au, av) in n['attrs']:
                aq = (ap + ':' + al) if ap else al
                lines.append(('attrns\t%d\t%s\t%s\t%s' % (me, E(au) if au is not None else '\\N', E(aq), E(av))) if nsmode else 'attr\t%d\t%s\t%s' % (me, E(aq), E(av)))
                if not enc_ok(aq): why.append('unencodable attribute name')
                if not xml10_char_ok(av): why.append('non-XML character in attribute value')
                if re.search('[&<"\t\n\r]', av): labels.add('attr-escape')
                if not enc_ok(av): labels.add('char-ref-needed')
                note_chars(av)
            for (dp, du) in n.get('decls', []):
                lines.append('attrns\t%d\t%s\t%s\t%s' % (me, E(XMLNS_URI), 'xmlns:' + dp if dp else 'xmlns', E(du or '')))
            for c in n['children']: emit(c, me)
        elif k == 'T':
            me = new('text\t' + E(n['v']))
            if not xml10_char_ok(n['v']): why.append('non-XML character in text')
            if re.search('[&<>\r]', n['v']): labels.add('must-escape')
            if not enc_ok(n['v']): labels.add('char-ref-needed')
            note_chars(n['v'])
        elif k == 'CD':
            me = new('cdata\t' + E(n['v']))
            v = n['v']
            if not xml10_char_ok(v): why.append('non-XML character in CDATA')
            elif not s['split']:
                if ']]>' in v: why.append("']]>' in CDATA with split-cdata-sections=false")
                elif not enc_ok(v): why.append('unencodable character in CDATA with split-cdata-sections=false')
            elif not enc_ok(v) or ']]>' in v: cdata_split[0] = True; labels.add('cdata-split')
            labels.add('cdata'); note_chars(v)
        elif k == 'C':
            me = new('comment\t' + E(n['v']))
            if not xml10_char_ok(n['v']): why.append('non-XML character in comment')
            elif '--' in n['v'] or n['v'].endswith('-'): why.append("'--' or trailing '-' in comment")
            elif not enc_ok(n['v']): why.append('unencodable character in comment')
        elif k == 'PI':
            me = new('pi\t%s\t%s' % (E(n['t']), E(n['v'])))
            if not xml10_char_ok(n['v']): why.append('non-XML character in PI')
            elif '?>' in n['v']: why.append("'?>' in PI data")
            elif not enc_ok(n['v']) or not enc_ok(n['t']): why.append('unencodable character in PI')
        lines.append('append\t%d\t%d' % (parent, me))
    if standalone: lines.append('standalone\t1')
    for n in misc_before: emit(n, 0)
    emit(root, 0)
    for n in misc_after: emit(n, 0)
    case = {'lane': 'build', 'feat': 'ns=%d;ere=1;val=0' % (1 if nsmode else 0), 'ser': s, 'version': '1.0', 'script': '\n'.join(lines),
            'cdata_split': cdata_split[0], 'exotic_chars': exotic[0]}
    if why:
        case['expect'] = 'error'; case['why'] = why[0]
    else:
        case['expat_expected'] = expat_expected(root, misc_before, misc_after, nsmode)
    return case, excluded, labels

def has_supplementary(root, before, after):
    def w(n):
        if n['k'] == 'E':
            return any(ord(ch) > 0xFFFF for a in n['attrs'] for ch in a[3]) or any(w(c) for c in n['children'])
        return any(ord(ch) > 0xFFFF for ch in n['v'])
    return any(w(n) for n in before + [root] + after)

def expat_expected(root, before, after, nsmode):
    """what pyexpat (non-namespace mode, xmlns attributes dropped, CDATA boundaries dropped) must report for the built tree"""
    ev = []
    def T(v):
        if not v: return
        if ev and ev[-1][0] == 'T': ev[-1] = ('T', ev[-1][1] + v)
        else: ev.append(('T', v))
    def walk(n):
        k = n['k']
        if k == 'E':
            q = (n['prefix'] + ':' + n['local']) if n['prefix'] else n['local']
            ev.append(('SE', None, None, q, None))
            rows = [('A', None, None, (ap + ':' + al) if ap else al, None, None, av) for (ap, al, au, av) in n['attrs']]
            ev.extend(sorted(rows, key=lambda t: (t[3], repr(t))))
            for c in n['children']: walk(c)
            ev.append(('EE', None, None, q, None))
        elif k in ('T', 'CD'): T(n['v'])
        elif k == 'C': ev.append(('C', n['v'], None))
        elif k == 'PI': ev.append(('PI', n['t'], n['v'], None))
    for n in before: walk(n)
    walk(root)
    for n in after: walk(n)
    return [list(e) for e in ev]

# -------------------------------------------------------------------------------------------------
# format lane
# -------------------------------------------------------------------------------------------------
ESC_LISTS = {0: '', 1: '&><"\'', 2: '&<"\n\r\t', 3: '&<>\r'}       # gEscapeChars: NoEscapes, StdEscapes, AttrEscapes, CharEscapes
STD_REF = {'&': '&amp;', '<': '&lt;', '>': '&gt;', '"': '&quot;', "'": '&apos;'}
FMT_ENCS = {'UTF-8': 'utf-8', 'ISO-8859-1': 'latin-1', 'US-ASCII': 'ascii', 'UTF-16LE': 'utf-16-le', 'windows-1252': 'cp1252'}
FMT_ALPHA = ['a', 'b', 'Z', '0', ' ', '-', ';', '#', 'x', '&', '<', '>', '"', "'", '\t', '\r', '\n', ']', ']]>', '&amp;', '&#x41;',
             '\u00e9', '\u00ff', '\u20ac', '\u4e2d', '\ufffd', '\U00010000', '\U0001f600', '\u0085', '\u2028']
FMT_11 = ['\x01', '\x1f', '\x7f', '\u0080', '\u009f']

def fmt_is_ctl11(ch):
    c = ord(ch)
    return (1 <= c <= 0x1f and c not in (9, 10, 13)) or (0x7f <= c <= 0x9f and c != 0x85)

def fmt_model(sv, escf, unrep, enc, ver):
    """-> ('ok', text) | ('exc',) ; text = expected output as a str (before encoding); replacement marked by \x1a"""
    codec = FMT_ENCS[enc]; out = []
    for ch in sv:
        if ch in ESC_LISTS[escf] or (escf != 0 and ver == '1.1' and XML11_CTRL(ch)):
            out.append(STD_REF.get(ch) or '&#x%X;' % ord(ch)); continue
        if can_encode(ch, codec): out.append(ch); continue
        if unrep == 1: out.append('&#x%X;' % ord(ch))
        elif unrep == 0: return ('exc',)
        else: out.append('\x1a')
    return ('ok', ''.join(out))

def XML11_CTRL(ch):
    # XMLChar1_1::isControlChar && !isWhitespace  (NEL and LS count as white space for XMLChar1_1)
    c = ord(ch)
    return (1 <= c <= 0x1f and c not in (9, 10, 13)) or (0x7f <= c <= 0x9f and c != 0x85)

@st.composite
def format_case_strategy(draw):
    ver = '1.1' if draw(st.integers(0, 5)) == 0 else '1.0'
    # XML 1.1: NEL / LS would have to be escaped (2.11 turns the literal characters into LF) but are written literally -- same root cause as
    # finding C12-xml11-nel-ls-literal; the two characters are left out of 1.1 strings instead of codifying that behaviour in the model
    alpha = [x for x in FMT_ALPHA if x not in ('\u0085', '\u2028')] + FMT_11 if ver == '1.1' else FMT_ALPHA
    sv = ''.join(draw(st.lists(st.sampled_from(alpha), min_size=0, max_size=10)))
    return {'lane': 'format', 's': xv.esc(sv), 'esc': draw(st.integers(0, 3)), 'unrep': draw(st.integers(0, 2)),
            'enc': draw(st.sampled_from(sorted(FMT_ENCS))), 'ver': ver}

def expat_text(doc):
    import pyexpat
    p = pyexpat.ParserCreate()
    got = {'t': [], 'a': None}
    p.CharacterDataHandler = lambda s: got['t'].append(s)
    def se(n, a):
        if 'a' in a: got['a'] = a['a']
    p.StartElementHandler = se
    p.Parse(doc.encode('utf-8'), True)
    return ''.join(got['t']), got['a']

def check_format(case, line):
    sv = xv.unesc(case['s']); escf = case['esc']; unrep = case['unrep']; enc = case['enc']; ver = case['ver']
    codec = FMT_ENCS[enc]
    p = line.split('\t')
    m = fmt_model(sv, escf, unrep, enc, ver)
    if m[0] == 'exc':
        if p[0] != 'EXC' or p[1] != 'TranscodingException':
            return False, 'UnRep_Fail with an unencodable character must throw TranscodingException, got %r' % (p[:3],)
        return True, 'ok'
    if p[0] != 'OK': return False, 'formatBuf threw %r for a representable request; expected %r' % (p[:3], m[1])
    data = bytes.fromhex(p[1]) if len(p) > 1 else b''
    if unrep == 2 and '\x1a' in m[1]:
        # replacement: every unencodable character is substituted by the transcoder's replacement character, nothing else changes
        pieces = m[1].split('\x1a')
        rx = b'[\\x1a?]{1,2}'.join(re.escape(x.encode(codec)) for x in pieces)
        if enc == 'UTF-16LE': return True, 'ok'
        if not re.fullmatch(rx, data, re.S): return False, 'UnRep_Replace: expected %r with substitutes at the marks, got %r' % (m[1], data)
        return True, 'ok'
    try:
        exp = m[1].encode(codec)
    except UnicodeError:
        return True, 'ok'
    if data != exp:
        return False, 'formatted bytes differ from the mode\'s definition:\n expected %r\n actual   %r' % (exp, data)
    # semantic check: in the context the mode is for, an XML 1.0 parser gives back exactly the input
    if ver == '1.0' and escf in (1, 2, 3) and unrep != 2 and xml10_char_ok(sv):
        text = data.decode(codec)
        try:
            if escf in (3, 1) and not (escf == 1 and re.search('[\r]', sv)):
                got, _ = expat_text('<r>' + text + '</r>')
                if got != sv: return False, 'CharEscapes/StdEscapes output in element content parses to %r, input was %r (bytes %r)' % (got, sv, data)
            if escf in (2, 1) and not (escf == 1 and re.search('[\r\n\t]', sv)):
                _, got = expat_text('<r a="' + text + '"/>')
                if got != sv: return False, 'AttrEscapes/StdEscapes output in an attribute parses to %r, input was %r (bytes %r)' % (got, sv, data)
        except Exception as e:
            return False, 'formatted text is not well-formed in its context: %s (bytes %r, input %r)' % (e, data, sv)
    return True, 'ok'

# -------------------------------------------------------------------------------------------------
# worker / replay
# -------------------------------------------------------------------------------------------------
def run_case(case, ex):
    if case['lane'] == 'format':
        try:
            resp = ex.request({'kind': 'format', 'items': '%d\t%d\t%s\t%s\t%s' % (case['esc'], case['unrep'], case['enc'], case['ver'], case['s'])})
        except xv.ExecutorDied as e:
            return False, 'executor died rc=%s\n%s' % (e.rc, e.stderr[-3000:]), {}
        ok, detail = check_format(case, resp.split('\n')[0])
        return ok, detail, {}
    try:
        resp = ex.request(request_of(case))
    except xv.ExecutorDied as e:
        return False, 'executor died rc=%s\n%s' % (e.rc, e.stderr[-3000:]), {}
    if case['ser'].get('sub', -1) >= 0 and case['lane'] == 'parse':
        r = parse_resp(resp)
        if 'NOSUB' in r['lines'] or not subtree_ok(dump_rows(r['sections'].get('orig', []))):
            return True, 'subtree not self-contained: skipped', {'labels': {'subtree-skipped'}}
    return check_roundtrip(case, resp)

def worker(ctx):
    ex = ctx.executor('xv_ser')
    st_ = ctx.stats
    thorough = ctx.tier == 'thorough'
    encs = ALL_ENCS
    def account(case, labels, ok, detail, info, key):
        labels = set(labels) | set(info.get('labels', ()))
        if info.get('disagree'): st_.oracle_disagreements += 1
        if info.get('excluded'): st_.excluded_known[info['excluded']] += 1
        s = case.get('ser', {})
        lab = list(labels) + ['lane:' + case['lane']]
        if s: lab += ['enc:' + s['enc'], 'target:' + s['target'], 'sub' if s.get('sub', -1) >= 0 else 'whole',
                      'xmldecl:%d' % s['xmldecl'], 'split:%d' % s['split'], 'discard:%d' % s['discard'], 'bom:%d' % s['bom']]
        st_.note(xv.sha(key), bool(labels & NONTRIV) or case.get('expect') == 'error', lab)
        if not ok: raise PropertyFailure(case, detail)

    def prop_parse(c):
        d, ns, ere, s, sub = c
        if EX(F_INTSUB) and sanitize_intsubset(d):
            st_.excluded_known[F_INTSUB] += 1
            xm.fix_comments(d)
        ex_ids = parse_exclusions(d)
        if ex_ids:
            for i in ex_ids: st_.excluded_known[i] += 1
            return
        exl = []
        case, text = build_parse_case(d, ns, ere, s, sub, exl)
        for i in exl: st_.excluded_known[i] += 1
        labels = parse_labels(d, text, effective_enc(case), s)
        if 'namespaces' in labels and ns: labels.add('ns-on')
        big = getattr(d, 'big', None)
        if big: labels |= {'big-run', 'big:' + big[0], 'big:' + big[2], 'big:%d' % big[1]}
        ok, detail, info = run_case(case, ex)
        if labels & NONTRIV: st_.sample({'lane': 'parse', 'ser': case['ser'], 'doc': text[:300]}, limit=2)
        account(case, labels, ok, detail, info, [case['doc_b64'], case['feat'], case['ser']])
    def prop_build(c):
        nsmode, s, root, mb, ma, sa, pre, big, shadow = c
        case, excluded, labels = build_build_case(nsmode, s, root, mb, ma, sa, pre)
        if shadow: labels |= shadow
        if big: labels |= {'big-run', 'big:' + big[0], 'big:' + big[2], 'big:%d' % big[1]}
        for i in set(excluded): st_.excluded_known[i] += 1
        if case is None: return
        ok, detail, info = run_case(case, ex)
        if nsmode and 'fixup-added-decl' in info.get('labels', ()): labels.add('needs-fixup')
        if labels & NONTRIV: st_.sample({'lane': 'build', 'ser': case['ser'], 'script': case['script'][:300], 'expect': case.get('expect', 'ok')}, limit=4)
        account(case, labels, ok, detail, info, [case['script'], case['feat'], case['ser']])
    def prop_format(case):
        ok, detail, info = run_case(case, ex)
        sv = xv.unesc(case['s'])
        nt = any(ch in ESC_LISTS[case['esc']] for ch in sv) or any(not can_encode(ch, FMT_ENCS[case['enc']]) for ch in sv)
        st_.note(xv.sha(case), nt, ['lane:format', 'esc:%d' % case['esc'], 'unrep:%d' % case['unrep'], 'fenc:' + case['enc'], 'ver:' + case['ver']])
        if not ok: raise PropertyFailure(case, detail)
    b = ctx.budget
    hyp_run(ctx, parse_case_strategy(encs), prop_parse, max(4, b * 55 // 100), batches=4, seed_salt=1)
    hyp_run(ctx, build_case_strategy(encs), prop_build, max(4, b * 45 // 100), batches=4, seed_salt=2)
    hyp_run(ctx, format_case_strategy(), prop_format, max(4, b * 2), batches=2, seed_salt=3)

def replay(case, ctx):
    ok, detail, info = run_case(case, ctx.executor('xv_ser'))
    return ok, detail

def classify(case, detail):
    return case.get('finding')

def known_witnesses():
    out = []
    for path in sorted(glob.glob(os.path.join(VERIF, 'regress-known', ID, '*.json'))):
        obj = json.load(open(path))
        out.append((obj.get('finding'), obj.get('case', obj)))
    return out
