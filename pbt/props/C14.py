"""C14 -- live lists, iterators, walkers and ranges stay consistent under mutation (M7 view models, harness/xv_dom)."""
import json, os, collections
from hypothesis import strategies as st
import xv, dommodel as dm, domhist as dh
from driver import hyp_run, PropertyFailure

ID = 'C14'
HARNESS = {'asan': ['xv_dom']}
RULE = ('C13 histories (child-list, attribute, character-data, splitText, normalize, clone/import operations over 1-3 documents) interleaved with '
        'creation, stepping and querying of several simultaneously live views: NodeIterator (whatToShow masks, name->ACCEPT/REJECT/SKIP '
        'filters, entity-reference expansion on/off), TreeWalker (all seven moves + setCurrentNode), getElementsByTagName(NS) lists on '
        'documents and elements, Range (setStart/End with arbitrary container+offset incl. out of range, Before/After, collapse, selectNode(Contents), '
        'compareBoundaryPoints, cloneRange, toString, detach). After EVERY operation: C13 structural invariants + range validity (live container, '
        'offset <= length, same root) in the harness; outcome and structural dump equal to the model; the state of every live view (list '
        'contents as node ids, walker currentNode, range boundary points/collapsed/commonAncestor) equal to the model. non-trivial = >=1 tree '
        'mutation happened while a view was alive and touched it (removed an iterator reference node or an ancestor, moved a range boundary '
        'point, or changed the contents of a live list); distinct by sha1 of the concrete history.')
ASSUMPTIONS = ['all C13 assumptions',
               'NodeIterator positions are observable only through the values returned by nextNode/previousNode (no getter exists)',
               'views are only given nodes of their own document (DOM2 Range and its errata differ on WRONG_DOCUMENT_ERR); Attr nodes are not used as range containers or traversal roots',
               'splitText/normalize with a range boundary inside the affected Text are tagged unspecified (DOM2 Range states no rule; the model follows DOM4, which is what Xerces does)',
               'filters are pure functions of nodeName, so acceptance of a node never changes during a history']
BUDGET = {'quick': 280, 'thorough': 700}
WALLCAP = {'quick': 500, 'thorough': 3000}
if os.environ.get('VERIF_DOM_BUDGET'): BUDGET = dict(BUDGET, quick=int(os.environ['VERIF_DOM_BUDGET']))    # development knob (sensitivity runs)

ACTIVE_EXCLUSIONS = {
    # C13 findings (same tree code)
    'C13-normalize-empty-text', 'C13-setAttributeNode-self',
    'C13-setAttributeNodeNS-self-inuse', 'C13-setAttributeNS-keeps-prefix', 'C13-setAttributeNS-prefixed-lookup',
    'C13-document-fragment-partial-insert', 'C13-clone-attr-specified', 'C13-clone-loses-defaults',
    'C13-document-replaceChild-self', 'C13-setNamedItemNS-breaks-sort-order',
    # C14 findings
    'C14-range-selectNode-chardata',
    'C14-range-toString-comment-pi',
    'C14-deepnodelist-pool-collision',
    'C14-range-splitText-detached',
    'C14-range-splitText-start-after-end',
}
_no = os.environ.get('VERIF_C14_NOEXCL', '')
if _no == 'all': ACTIVE_EXCLUSIONS = set()
elif _no: ACTIVE_EXCLUSIONS -= set(_no.split(','))

WALKERS = os.environ.get('VERIF_C14_WALKERS', '0') != '0'
OPTABLE = dh.expand(dh.CORE_OPS) + dh.expand(dh.VIEW_CORE_OPS) * 2 + (dh.expand(dh.WALKER_OPS) if WALKERS else []) + dh.expand(dh.ID_OPS)
MAXOPS = {'quick': 60, 'thorough': 200}

def op_strategy():
    v = st.integers(0, 65535)
    return st.tuples(st.sampled_from(range(len(OPTABLE))), v, v, v, v)      # uniform over the weighted table (st.integers favours small values)

def case_strategy(maxops):
    return st.fixed_dictionaries({
        'ndocs': st.integers(1, 2),
        'flags': st.one_of(st.none(), st.integers(0, 255)),
        'idpre': st.sampled_from([0, 1, 1, 2, 3]),
        'pre': st.integers(0, 3), 'vpre': st.integers(0, 3),
        'ops': st.integers(1, maxops).flatmap(lambda n: st.lists(op_strategy(), min_size=n, max_size=n)),
    })

def make_case(c):
    return {'setup': {'ndocs': c['ndocs'], 'flags': c['flags'], 'pre': c['pre'], 'idpre': c['idpre'], 'vpre': c['vpre']}, 'ops': [list(o) for o in c['ops']], 'excl': sorted(ACTIVE_EXCLUSIONS), 'gen': 2, 'idq': True}

class H(dh.ViewHist):
    vpre = 0
    def prelude(self, kind):
        dh.ViewHist.prelude(self, kind)
        self.view_prelude(self.vpre)

def run_case(case, ex):
    vp = case['setup'].get('vpre', 0)
    cls = type('H%d' % vp, (H,), {'vpre': vp})
    return dh.run_case(case, ex, case.get('optable') or OPTABLE, views=True, hist_cls=cls)

def worker(ctx):
    ex = ctx.executor('xv_dom')
    st_ = ctx.stats
    def prop(c):
        case = make_case(c)
        ok, detail, h = run_case(case, ex)
        if h is not None:
            labels = set(h.labels)
            if any(s.res.is_err() for s in h.steps): labels.add('rejected')
            if any(s.res.unspec for s in h.steps): labels.add('has-unspecified')
            touched = False
            for v in h.w.views:
                if getattr(v, 'touched', False): labels.add('touched:' + v.kind); touched = True
                labels.add('view:' + v.kind)
            if h.list_changed: labels.add('touched:L'); touched = True
            for fid, n in h.excluded.items(): st_.excluded_known[fid] += n
            hh = xv.sha([case['setup'], [s.line for s in h.steps]])
            st_.note(hh, touched, list(labels) + ['ndocs:%d' % case['setup']['ndocs'], 'parsed' if case['setup']['flags'] is not None else 'empty-docs'])
            st_.extra.setdefault('ops', {})
            for k, v in collections.Counter(s.opname for s in h.steps).items(): st_.extra['ops'][k] = st_.extra['ops'].get(k, 0) + v
            st_.extra['steps'] = st_.extra.get('steps', 0) + len(h.steps)
            st_.sample({'setup': case['setup'], 'history': [s.line.replace('\t', ' ') for s in h.steps[:30]]})
        if not ok:
            if detail.startswith('MODEL-SELFCHECK'):
                st_.oracle_disagreements += 1; return
            raise PropertyFailure(case, detail)
    hyp_run(ctx, case_strategy(MAXOPS[ctx.tier]), prop, ctx.budget)

def replay(case, ctx):
    ok, detail, h = run_case(case, ctx.executor('xv_dom'))
    return ok, detail

ALL_EXCLUSION_IDS = frozenset(ACTIVE_EXCLUSIONS) | frozenset(x[:-5] for d in ('C13', 'C14') if os.path.isdir(os.path.join(xv.VERIF, 'regress-known', d))
                                                         for x in os.listdir(os.path.join(xv.VERIF, 'regress-known', d)) if x.endswith('.json'))

def classify(case, detail):
    """A generated case always carries the full exclusion list, so it can never fall into a known class.  A stored witness is the
    same kind of case with exactly one exclusion id switched off: that id is the finding it demonstrates."""
    missing = [i for i in ALL_EXCLUSION_IDS if i not in set(case.get('excl', []))]
    mine = [i for i in missing if i.startswith(ID + '-')] or missing
    return mine[0] if len(mine) == 1 else None

def known_witnesses():
    out = []
    d = os.path.join(xv.VERIF, 'regress-known', ID)
    if os.path.isdir(d):
        for f in sorted(os.listdir(d)):
            if f.endswith('.json'):
                o = json.load(open(os.path.join(d, f))); out.append((o.get('finding', f[:-5]), o['case']))
    return out
