"""C03 -- reported content equals the infoset; all APIs agree (constructive oracle, M1)."""
import base64, json
from hypothesis import strategies as st
import xv, xmlmodel as xm
from driver import hyp_run, PropertyFailure

ID = 'C03'
HARNESS = {'asan': ['xvexec']}
RULE = ('M1 documents rendered from a random infoset with random lexical forms; per case one (API, scanner, ns, nsp, ere, encoding, '
        'chunk plan) configuration; expected canonical event list is derived from the model, never from the text. non-trivial = the '
        'rendering exercises >=1 normalisation rule whose omission would change the events (line-end form, whitespace char-ref, attribute '
        'whitespace, tokenised collapse, entity in attribute, nested/ext entity, CDATA next to text, defaulted attribute, misc outside root, '
        'external-subset declaration); distinct by sha1(document bytes, api, config).')
ASSUMPTIONS = ['pyexpat 2.5 agrees with the model on every XML 1.0 case or the case is dropped (oracle_disagreements)',
               'XML 1.1 cases have the model as only witness',
               'line numbers asserted only for SE/EE/PI/comment events lying directly in the document entity']
BUDGET = {'quick': 500, 'thorough': 6000}
WALLCAP = {'quick': 400, 'thorough': 3600}

APIS = ['sax1', 'sax2', 'dom', 'domls', 'psax1', 'psax2', 'pdom']
LEVEL_OF = {'sax1': 'sax1', 'psax1': 'sax1', 'sax2': 'sax2', 'psax2': 'sax2', 'dom': 'dom', 'pdom': 'dom', 'domls': 'dom', 'domlsf': 'dom'}

def labels_of(d, text, files):
    L = set()
    if '\r' in text: L.add('cr-or-crlf')
    if '\u0085' in text or ' ' in text: L.add('nel-ls')
    if '&#10;' in text or '&#13;' in text or '&#9;' in text or '&#xA;' in text or '&#xD;' in text: L.add('ws-charref')
    if '<![CDATA[' in text: L.add('cdata')
    if d.doctype: L.add('doctype')
    if files: L.add('external')
    if d.version == '1.1': L.add('xml11')
    def walk(n, depth):
        if isinstance(n, xm.El):
            for a in n.attrs:
                if not a.written: L.add('defaulted-attr')
                if a.atype not in ('CDATA',): L.add('tokenised-attr')
                if any(f.startswith('&ae') for c, f in a.toks): L.add('entity-in-attr')
                if a.written and any(f in ('\t', '\n', '\r\n', '\r') for c, f in a.toks): L.add('attr-ws-literal')
            for ch in n.children: walk(ch, depth + 1)
        elif isinstance(n, xm.ER):
            L.add('entity-ref')
            e = d.ents_content[n.name]
            if e.kind == 'ext': L.add('ext-entity')
            for ch in e.content:
                if isinstance(ch, xm.ER): L.add('nested-entity')
                walk(ch, depth + 1)
    walk(d.root, 0)
    if d.prolog or d.epilog: L.add('misc-outside-root')
    return L

NONTRIV = {'cr-or-crlf', 'nel-ls', 'ws-charref', 'cdata', 'defaulted-attr', 'tokenised-attr', 'entity-in-attr', 'attr-ws-literal',
           'entity-ref', 'ext-entity', 'nested-entity', 'misc-outside-root', 'external'}

@st.composite
def case_strategy(draw):
    d = draw(xm.gen_doc())
    api = draw(st.sampled_from(APIS))
    ns = draw(st.booleans())
    cfg = dict(ns=ns, nsp=draw(st.booleans()), ere=draw(st.booleans()))
    if d.doctype: scanner = draw(st.sampled_from(['IG', 'IG', 'DG']))
    else: scanner = draw(st.sampled_from(['IG', 'WF', 'DG', 'SG']))
    if scanner == 'SG':
        # SGXMLScanner is namespace-aware by definition: scanReset() forces fDoNamespaces=true whatever the
        # feature says, so "namespaces off" is not a configuration of that scanner (triaged false alarm).
        cfg['ns'] = True
    enc = draw(st.sampled_from(['utf-8', 'utf-8', 'utf-8-bom', 'utf-16le-bom', 'utf-16be-bom']))
    chunks = draw(st.sampled_from(['', '', '1', '2,3', '7', '1,4096', '5,1,1']))
    return d, api, cfg, scanner, enc, chunks

def build_case(d, api, cfg, scanner, enc, chunks):
    full, text, files = xm.expected_events(d, dict(ns=cfg['ns'], loaddtd=True))
    level = LEVEL_OF[api]
    exp = xm.project(full, level, ns=cfg['ns'], lines=True, ere=cfg['ere'], nsp=cfg['nsp'])
    feat = 'ns=%d;nsp=%d;ere=%d;scanner=%s;val=0;loaddtd=1' % (cfg['ns'], cfg['nsp'], cfg['ere'], scanner)
    data = xm.encode_doc(text, enc)
    fbytes = {k: v.replace('@ENC@', 'UTF-8').encode('utf-8') for k, v in files.items()}
    case = {'api': api, 'feat': feat, 'level': level, 'ns': cfg['ns'], 'ere': cfg['ere'], 'nsp': cfg['nsp'], 'chunks': chunks,
            'doc_b64': base64.b64encode(data).decode(), 'files_b64': {k: base64.b64encode(v).decode() for k, v in fbytes.items()},
            'expected': exp, 'lines': True, 'chunk1': xm.safe_first_read(data), 'version': d.version, 'doc_preview': text[:400], 'model_debug': xm.debug_repr(d)[:3000]}
    return case, full, text, files, data, fbytes

def run_case(case, ex):
    req = {'kind': 'parse', 'api': case['api'], 'feat': case['feat'], 'doc': base64.b64decode(case['doc_b64']), 'loc': '1'}
    if case.get('chunks'): req['chunks'] = case['chunks']; req['chunk1'] = str(case.get('chunk1', 0))
    for k, v in case['files_b64'].items(): req['ent:' + k] = base64.b64decode(v)
    try:
        resp = ex.request(req)
    except xv.ExecutorDied as e:
        return False, 'executor died rc=%s\n%s' % (e.rc, e.stderr[-3000:])
    events, extra = xv.parse_ced(resp)
    errs = [e for e in events if e[0] in ('ERR', 'EXC')]
    if errs:
        return False, 'well-formed document reported errors/exceptions: %r' % (errs[:3],)
    full_act = xm.actual_to_full(events, withloc=(case['level'] != 'dom'))
    act = xm.normalise_actual_types(xm.project(full_act, case['level'], ns=case['ns'], lines=case.get('lines', True), ere=case['ere'], nsp=case['nsp']), case['level'])
    exp = [tuple(e) for e in case['expected']]
    exp = xm.normalise_actual_types(exp, case['level'])
    # compare with wildcards: None in expected line/type/spec means "not asserted"
    diff = diff_events(exp, act)
    if diff: return False, diff
    return True, 'ok'

def match_event(x, y):
    if x is None or y is None: return False
    if x[0] != y[0] or len(x) != len(y): return False
    for a, b in zip(x, y):
        if a is None or b is None: continue
        if a != b: return False
    return True

def diff_events(exp, act):
    for i in range(max(len(exp), len(act))):
        x = exp[i] if i < len(exp) else None; y = act[i] if i < len(act) else None
        if not match_event(x, y):
            return 'event %d differs:\n  expected %r\n  actual   %r\n  context expected %r\n  context actual   %r' % (i, x, y, exp[max(0, i - 2):i + 2], act[max(0, i - 2):i + 2])
    return None

def worker(ctx):
    ex = ctx.executor('xvexec')
    st_ = ctx.stats
    def prop(c):
        d, api, cfg, scanner, enc, chunks = c
        case, full, text, files, data, fbytes = build_case(d, api, cfg, scanner, enc, chunks)
        # second witness
        if d.version == '1.0':
            kind, ev = xm.expat_events(data, fbytes, cfg['ns'] and True)
            if kind != 'ok' or xm.project_expat(ev, cfg['ns']) != strip_lines(xm.project_expat(full, cfg['ns'])):
                st_.oracle_disagreements += 1
                st_.extra.setdefault('disagreement_samples', [])
                if len(st_.extra['disagreement_samples']) < 3:
                    st_.extra['disagreement_samples'].append({'doc': text[:300], 'expat': str(ev)[:300]})
                return
        labels = labels_of(d, text, files)
        h = xv.sha([case['doc_b64'], api, case['feat'], chunks])
        st_.note(h, bool(labels & NONTRIV), list(labels) + ['api:' + api, 'scanner:' + scanner, 'ns:%d' % cfg['ns']])
        st_.sample({'api': api, 'feat': case['feat'], 'doc': text[:300]})
        ok, detail = run_case(case, ex)
        if not ok:
            raise PropertyFailure(case, detail)
    hyp_run(ctx, case_strategy(), prop, ctx.budget)

def strip_lines(evs):
    out = []
    for e in evs:
        if e[0] in ('SE', 'EE'): out.append(e[:4] + (None,))
        elif e[0] == 'C': out.append(('C', e[1], None))
        elif e[0] == 'PI': out.append(('PI', e[1], e[2], None))
        else: out.append(e)
    return out

def run_raw(case, ex):
    """regression case in raw form: document + configuration + the exact expected CED text"""
    req = {'kind': 'parse', 'api': case['api'], 'feat': case['feat'], 'doc': base64.b64decode(case['doc_b64']), 'loc': str(case.get('loc', 1))}
    try:
        resp = ex.request(req)
    except xv.ExecutorDied as e:
        return False, 'executor died rc=%s\n%s' % (e.rc, e.stderr[-3000:])
    got = [l for l in resp.split('\n') if l and not l.startswith('#')]
    if got != case['raw_expect']:
        return False, 'CED differs from the recorded expectation:\n expected %r\n actual   %r' % (case['raw_expect'], got)
    return True, 'ok'

def replay(case, ctx):
    if 'raw_expect' in case: return run_raw(case, ctx.executor('xvexec'))
    return run_case(case, ctx.executor('xvexec'))
