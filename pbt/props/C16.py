"""C16 -- a serialised grammar pool restores to a behaviourally identical pool (same build).

Per case: 1-4 grammars (schemas assembled from feature modules, DTDs; grammargen.py) are loaded into pool A with
loadGrammar(..., toCache=true); sA = serializeGrammars(A); B = deserialize(sA); sB = serialize(B); C = deserialize(sB); sC = serialize(C).
Oracle: for every instance document the canonical event dump (DOM + PSVI type names, error codes and positions, defaulted attributes)
obtained with useCachedGrammarInParse against A, B and C is identical; the sorted schema-component model dump (XSModel: every global
component, types with facets, particles, wildcards, identity constraints, annotations, notations) and the DTD grammar dump
(element/attribute/entity/notation declarations) are identical for A, B, C; len(sB) == len(sC) (byte equality is recorded only);
a stream whose level stamp was altered, a second deserialisation into the now non-empty pool, and a stream that delivers fewer bytes
than requested are rejected with XSerializationException.
"""
import base64, json, os, glob, re
from hypothesis import strategies as st
import xv, grammargen as gg
from driver import hyp_run, PropertyFailure, VERIF

ID = 'C16'
HARNESS = {'asan': ['xv_pool']}
RULE = ('non-trivial = the pool holds >=1 schema grammar with >=3 component kinds beyond plain element/attribute declarations (facet kinds, '
        'list/union, wildcard, all-group, model group, attribute group, substitution group, extension/restriction, simpleContent, mixed/empty, '
        'fixed/default/nillable, identity constraint, notation, import, annotation, recursion) AND >=1 instance that was generated as a '
        'deliberate violation of such a component and is rejected (>=1 ERR line) by the original pool A; distinct by sha1(grammar texts, '
        'instance texts, options).')
ASSUMPTIONS = ['same-build round trips only (the property claims nothing else)',
               'pools are serialised while unlocked, as in the pinned XSerializerTest; serialising a locked pool yields a stream that cannot be '
               'loaded (finding C16-locked-pool-stream, class removed by construction and counted)',
               'XSerializeEngine documents that the input stream must deliver exactly the requested number of bytes: short reads are only '
               'checked to be rejected with XSerializationException',
               'instance validity is known only approximately; the oracle is differential (A vs B vs C), the intent labels only feed the '
               'non-triviality measurement']
BUDGET = {'quick': 50, 'thorough': 500}
WALLCAP = {'quick': 500, 'thorough': 2700}

F_LOCKED = 'C16-locked-pool-stream'
F_READALIGN = 'C16-read-exact-buffer-multiple'
ALL_EXCLUSIONS = {F_LOCKED, F_READALIGN}
# remove the id when the defect is fixed in /repo (trial run: VERIF_C16_EXCLUSIONS_OFF=C16-locked-pool-stream)
FIXED_IN_REPO = {'C16-locked-pool-stream', 'C16-read-exact-buffer-multiple'}      # fix: commits landed; classes are generated again, witnesses moved to regress/
ACTIVE_EXCLUSIONS = set(ALL_EXCLUSIONS) - FIXED_IN_REPO - set(x for x in os.environ.get('VERIF_C16_EXCLUSIONS_OFF', '').split(',') if x)
F_PSVINOT = 'C15-psvi-null-xsmodel'     # not a C16 defect: crashes on the ORIGINAL pool (PSVI handler + XSModel created by the pool before the parse + attribute of a user-defined simple type)

def parse_resp(text):
    r = {'load': [], 'inst': {}, 'model': {}, 'lines': {}}
    cur = None
    for line in text.split('\n'):
        if line.startswith('#BEGIN\t'):
            p = line.split('\t')
            if p[1] == 'load': cur = r['load']
            elif p[1] == 'inst': cur = r['inst'].setdefault((int(p[2]), p[3]), [])
            elif p[1] == 'model': cur = r['model'].setdefault(p[2], [])
            continue
        if line.startswith('#END\t'): cur = None; continue
        if cur is not None: cur.append(line); continue
        if line:
            p = line.split('\t'); r['lines'].setdefault(p[0], []).append(p[1:])
    return r

def request_of(case):
    req = {'kind': 'pool', 'ng': str(len(case['grammars'])), 'ni': str(len(case['instances'])), 'lock': str(case['lock']), 'lockser': str(case.get('lockser', 0)),
           'api': case.get('api', 'dom'), 'feat': case['feat'], 'stampdelta': str(case.get('stampdelta', 1)), 'psvifirst': str(case.get('psvifirst', 0))}
    for i, g in enumerate(case['grammars']):
        req['g%d.type' % i] = g['type']; req['g%d.sysid' % i] = g['sysid']; req['g%d.text' % i] = g['text'].encode('utf-8')
        for k, v in g.get('files', {}).items(): req['ent:' + k] = v.encode('utf-8')
        if g['type'] == 'dtd': req['ent:' + g['sysid']] = g['text'].encode('utf-8')     # lets the instance's DOCTYPE system id resolve (the cached grammar is used)
    for j, inst in enumerate(case['instances']): req['i%d.doc' % j] = inst['doc'].encode('utf-8')
    return req

def first_diff(a, b):
    for i in range(max(len(a), len(b))):
        x = a[i] if i < len(a) else None; y = b[i] if i < len(b) else None
        if x != y: return 'line %d:\n   %r\n   %r' % (i, x, y)
    return None

def check(case, resp_text):
    """-> (ok, detail, info)"""
    info = {'labels': set(), 'nontrivial': False}
    r = parse_resp(resp_text)
    L = r['lines']
    if any(l.startswith('ERR') or l.startswith('EXC') or l.startswith('LOADNULL') for l in r['load']):
        info['labels'].add('grammar-load-error'); info['load'] = r['load'][:4]
        if not case.get('allow_load_errors'): return True, 'generated grammar not accepted: case dropped', info
    if 'SEREXC' in L or 'DESEREXC' in L:
        return False, 'serialisation round trip failed: %r' % ([('SEREXC', x) for x in L.get('SEREXC', [])] + [('DESEREXC', x) for x in L.get('DESEREXC', [])]), info
    if 'LEN' not in L: return False, 'no result from the harness:\n' + resp_text[:1000], info
    la, lb, lc, eab, ebc = L['LEN'][0]
    info['bytes_equal_AB'] = eab == '1'; info['bytes_equal_BC'] = ebc == '1'
    if lb != lc: return False, 'len(serialize(B))=%s != len(serialize(C))=%s' % (lb, lc), info
    # rejections
    st_ = L.get('STAMP', [['missing']])[0]
    if st_[0] != 'XSerializationException': return False, 'stream with altered level stamp was not rejected with XSerializationException: %r' % (st_,), info
    ne = L.get('NONEMPTY', [['missing']])[0]
    if ne[0] != 'XSerializationException': return False, 'deserialising into a non-empty pool was not rejected with XSerializationException: %r' % (ne,), info
    sr = L.get('SHORTREAD', [['missing']])[0]
    if sr[0] != 'XSerializationException': return False, 'short-reading input stream was not rejected with XSerializationException: %r' % (sr,), info
    # models
    ma = r['model'].get('A'); mb = r['model'].get('B'); mc = r['model'].get('C')
    if ma is None or mb is None or mc is None: return False, 'model dump missing', info
    if any(l.startswith('MODELEXC') for l in ma + mb + mc): return False, 'exception while enumerating the component model: %r' % [l for l in ma + mb + mc if l.startswith('MODELEXC')][:2], info
    d = first_diff(ma, mb)
    if d: return False, 'component model of the restored pool B differs from the original A:\n  ' + d, info
    d = first_diff(mb, mc)
    if d: return False, 'component model of pool C differs from B:\n  ' + d, info
    # instances
    rejected_aimed = False
    for j, inst in enumerate(case['instances']):
        a = r['inst'].get((j, 'A')); b = r['inst'].get((j, 'B')); c = r['inst'].get((j, 'C'))
        if a is None or b is None or c is None: return False, 'instance %d: result missing' % j, info
        d = first_diff(a, b)
        if d: return False, 'instance %d validates differently against the restored pool B than against A:\n  %s\ninstance: %s' % (j, d, inst['doc'][:600]), info
        d = first_diff(b, c)
        if d: return False, 'instance %d validates differently against pool C than against B:\n  %s\ninstance: %s' % (j, d, inst['doc'][:600]), info
        errs = [l for l in a if l.startswith('ERR')]
        if any(l.startswith('EXC') for l in a): info['labels'].add('instance-exception')
        info['labels'].add('inst-invalid' if errs else 'inst-valid')
        if errs and any(k not in gg.PLAIN_KINDS and not k.startswith('dtd:') and k != 'order' for k in inst.get('aimed', [])): rejected_aimed = True
        if errs and any(k.startswith('dtd:') for k in inst.get('aimed', [])): info['labels'].add('dtd-violation-rejected')
        if inst.get('aimed') and not errs: info['labels'].add('aimed-but-accepted')
    rich = any(g['type'] == 'xsd' and len([k for k in g.get('kinds', []) if k not in gg.PLAIN_KINDS]) >= 3 for g in case['grammars'])
    info['nontrivial'] = rich and rejected_aimed
    return True, 'ok', info

@st.composite
def case_strategy(draw):
    ng = draw(st.integers(1, 4))
    grammars = []; used_ns = set(); imported = False
    for i in range(ng):
        if draw(st.integers(0, 3)) == 0:
            grammars.append(draw(gg.gen_dtd(idx=i)))
        else:
            free = [n for n in ('urn:a', 'urn:b', '') if n not in used_ns]
            if not free: grammars.append(draw(gg.gen_dtd(idx=i))); continue
            g = draw(gg.gen_schema(tns_choices=tuple(free), idx=i))
            if g['has_import'] and imported:      # 'urn:imp' may be provided by one grammar only
                g = draw(gg.gen_dtd(idx=i))
            else:
                imported = imported or g['has_import']; used_ns.add(g['tns'])
            grammars.append(g)
    ni = draw(st.integers(3, 12))
    instances = []
    for j in range(ni):
        g = grammars[draw(st.integers(0, len(grammars) - 1))]
        inst = draw(gg.gen_schema_instance(g) if g['type'] == 'xsd' else gg.gen_dtd_instance(g))
        instances.append(inst)
    lock = draw(st.integers(0, 1)); lockser = int(draw(st.integers(0, 7)) == 0)
    api = draw(st.sampled_from(['dom', 'dom', 'sax2']))
    return grammars, instances, lock, lockser, api

def build_case(grammars, instances, lock, lockser, api):
    gs = [dict(type=g['type'], sysid=g['sysid'], text=g['text'], files=g['files'], kinds=sorted(g['kinds'])) for g in grammars]
    feat = 'ns=1;schema=1;val=1;usecached=1;fullcheck=1;ic=1'
    return {'grammars': gs, 'instances': instances, 'lock': lock, 'lockser': lockser, 'api': api, 'feat': feat, 'psvifirst': 0}

def run_case(case, ex):
    try:
        resp = ex.request(request_of(case), timeout=300)
    except xv.ExecutorDied as e:
        return False, 'executor died rc=%s\n%s' % (e.rc, died_summary(e.stderr)), {'labels': set(), 'nontrivial': False}
    return check(case, resp)

def died_summary(stderr):
    """sanitizer headline + the Xerces frames (the raw tail is dominated by the harness's std::function frames)"""
    head = re.findall(r'[^\n]*(?:runtime error|ERROR: AddressSanitizer|ERROR: LeakSanitizer)[^\n]*', stderr)[:2]
    frames = re.findall(r'#\d+ 0x[0-9a-f]+ in (xercesc_4_0::[^\s(]+)[^\n]*?(src/xercesc/\S+)', stderr)[:14]
    return '\n'.join(h[-300:] for h in head) + '\n' + '\n'.join('  %s %s' % f for f in frames) + '\n' + stderr[-600:]

def worker(ctx):
    ex = ctx.executor('xv_pool', restart_every=300)
    gg.LONG_PATTERN_ODDS = 2 if ctx.tier == 'thorough' else 11
    st_ = ctx.stats
    def prop(c):
        grammars, instances, lock, lockser, api = c
        if lockser and F_LOCKED in ACTIVE_EXCLUSIONS:
            st_.excluded_known[F_LOCKED] += 1; lockser = 0
        case = build_case(grammars, instances, lock, lockser, api)
        if api == 'dom':
            st_.excluded_known[F_PSVINOT] += 1      # PSVI (DOM type info) is not requested at all: see F_PSVINOT
        ok, detail, info = run_case(case, ex)
        labels = set(info.get('labels', ()))
        if 'grammar-load-error' in labels:
            st_.extra['grammar_load_errors'] = st_.extra.get('grammar_load_errors', 0) + 1
            if len(st_.extra.setdefault('load_error_samples', [])) < 2: st_.extra['load_error_samples'].append({'err': info.get('load'), 'g': [g['text'][:1500] for g in case['grammars']]})
            return
        for g in case['grammars']:
            labels.add('grammar:' + g['type'])
            for k in g['kinds']: labels.add('k:' + k)
        labels.add('ng:%d' % len(case['grammars'])); labels.add('lock:%d' % lock); labels.add('api:' + api)
        if info.get('bytes_equal_BC') is not None:
            st_.extra['bytes_equal_BC'] = st_.extra.get('bytes_equal_BC', 0) + int(info['bytes_equal_BC'])
            st_.extra['bytes_equal_AB'] = st_.extra.get('bytes_equal_AB', 0) + int(info['bytes_equal_AB'])
        st_.note(xv.sha([[g['text'] for g in case['grammars']], [i['doc'] for i in case['instances']], lock, api]), info.get('nontrivial', False), labels)
        if info.get('nontrivial'): st_.sample({'grammars': [g['text'][:400] for g in case['grammars']], 'instances': [i['doc'][:200] for i in case['instances'][:3]]}, limit=2)
        if not ok and F_READALIGN in ACTIVE_EXCLUSIONS and classify(case, detail) == F_READALIGN:
            # open defect whose trigger (alignment of a long string in the stream) the generator cannot construct or avoid: excluded by
            # its call-site signature and counted; the witness in regress-known/C16 keeps reporting it
            st_.excluded_known[F_READALIGN] += 1
            return
        if not ok:
            # no Hypothesis shrinking here: one execution costs seconds (three pools x instances); a cheap greedy reduction instead
            if len(st_.failures) < 3:
                case, detail = reduce_case(case, detail, ex)
                st_.failures.append({'case': case, 'detail': detail})
    hyp_run(ctx, case_strategy(), prop, ctx.budget, batches=3)

def reduce_case(case, detail, ex):
    def fails(c):
        ok, d, _ = run_case(c, ex)
        return (not ok), d
    # 1. one instance at a time (the first that still fails alone), else none
    cands = [dict(case, instances=[i]) for i in case['instances']][:12] + [dict(case, instances=[])]
    for c in cands:
        f, d = fails(c)
        if f: case, detail = c, d; break
    # 2. a single grammar
    if len(case['grammars']) > 1:
        for g in case['grammars']:
            c = dict(case, grammars=[g])
            f, d = fails(c)
            if f: case, detail = c, d; break
    return case, detail

def replay(case, ctx):
    ok, detail, info = run_case(case, ctx.executor('xv_pool'))
    return ok, detail

def classify(case, detail):
    if case.get('finding'): return case['finding']
    # XSerializeEngine::read(XMLByte*, n): when the part of a long byte string that follows the current buffer is an exact multiple of
    # the 8192-byte buffer, fBufCur is left at the start of the last buffer and the next read takes stale bytes: garbage lengths ->
    # allocation failure / XSerializationException inside deserializeGrammars.  Whether a case hits the alignment depends on the
    # stream offset of the string, which the generator cannot know: classified by call site (cases with long strings only).
    has_long = any(('long-string' in g.get('kinds', []) or 'dtd:long-string' in g.get('kinds', [])) for g in case.get('grammars', []))
    if has_long and ('XSerializeEngine::read' in detail or 'DESEREXC' in detail): return F_READALIGN
    return None

def known_witnesses():
    out = []
    for path in sorted(glob.glob(os.path.join(VERIF, 'regress-known', ID, '*.json'))):
        obj = json.load(open(path)); out.append((obj.get('finding'), obj.get('case', obj)))
    return out
