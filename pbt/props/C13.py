"""C13 -- DOM mutation keeps the tree well-formed and equal to a reference DOM (M7 model, harness/xv_dom)."""
import json, os, collections
from hypothesis import strategies as st
import xv, dommodel as dm, domhist as dh
from driver import hyp_run, PropertyFailure

ID = 'C13'
HARNESS = {'asan': ['xv_dom']}
RULE = ('histories of DOM Core operations over 1-3 documents (document 0 optionally parsed from a text with doctype, entities, entity '
        'references, default attribute, CDATA, PI); operands are indices modulo the live node set (all documents, attributes, doctype, '
        'entities, read-only entity-reference children, detached nodes), so self/ancestor/foreign/non-child operands occur. After EVERY '
        'operation: structural invariants through the public getters in the harness, outcome (DOMException code / returned node / value) '
        'and CRC of the canonical structural dump equal to the M7 model. non-trivial = the history contains >=1 rejected operation, >=1 '
        'cross-document operation and >=1 removal/replacement at a parent after an insertion at that parent; distinct by sha1 of the '
        'concrete history.')
ASSUMPTIONS = ['the initial state of a parsed document is taken from the executor (C03/C06 own parsing); read-only flags follow DOM Core (entity reference subtrees, entities, notations, doctype)',
               'when several DOMExceptions apply to one call any of them is accepted (the specification gives no precedence)',
               'operations the specification leaves implementation dependent are tagged unspecified by the model: invariants only, and the lock-step comparison ends if the implementation chose differently',
               'removeAttribute/removeAttributeNS release the removed Attr (Xerces memory model): the node leaves the live set',
               'children of Attr nodes are outside the live set (Attr is compared by value); Attr as insertion target is not generated',
               'strings are BMP-only; names come from fixed pools valid/invalid in all XML 1.0 editions; no "xmlns" names and no empty-string namespace (DOM2/DOM3 differ)']
BUDGET = {'quick': 350, 'thorough': 900}
WALLCAP = {'quick': 500, 'thorough': 3000}
if os.environ.get('VERIF_DOM_BUDGET'): BUDGET = dict(BUDGET, quick=int(os.environ['VERIF_DOM_BUDGET']))    # development knob (sensitivity runs)

# Known genuine defects of the unchanged tree: the input class is removed from the generator *by construction*.
# Remove an id from this set (or set VERIF_C13_NOEXCL=id,id or =all) once the defect is fixed in /repo.
ACTIVE_EXCLUSIONS = {
    'C13-normalize-empty-text',
    'C13-setAttributeNode-self',
    'C13-setAttributeNodeNS-self-inuse',
    'C13-setAttributeNS-keeps-prefix',
    'C13-setAttributeNS-prefixed-lookup',
    'C13-document-fragment-partial-insert',
    'C13-clone-attr-specified',
    'C13-clone-loses-defaults',
    'C13-document-replaceChild-self',
    'C13-setNamedItemNS-breaks-sort-order',
}
_no = os.environ.get('VERIF_C13_NOEXCL', '')
if _no == 'all': ACTIVE_EXCLUSIONS = set()
elif _no: ACTIVE_EXCLUSIONS -= set(_no.split(','))

OPTABLE = dh.expand(dh.CORE_OPS) + dh.expand(dh.ID_OPS)      # new kinds are appended: stored cases keep their meaning
MAXOPS = {'quick': 60, 'thorough': 200}

def op_strategy():
    v = st.integers(0, 65535)
    return st.tuples(st.sampled_from(range(len(OPTABLE))), v, v, v, v)      # uniform over the weighted table (st.integers favours small values)

def case_strategy(maxops):
    return st.fixed_dictionaries({
        'ndocs': st.integers(1, 3),
        'flags': st.one_of(st.none(), st.integers(0, 255)),
        'idpre': st.sampled_from([0, 1, 1, 2, 3]),
        'pre': st.integers(0, 3),
        'ops': st.integers(1, maxops).flatmap(lambda n: st.lists(op_strategy(), min_size=n, max_size=n)),
    })

def make_case(c):
    return {'setup': {'ndocs': c['ndocs'], 'flags': c['flags'], 'pre': c['pre'], 'idpre': c['idpre']}, 'ops': [list(o) for o in c['ops']], 'excl': sorted(ACTIVE_EXCLUSIONS), 'gen': 2, 'idq': True}

def run_case(case, ex):
    return dh.run_case(case, ex, case.get('optable') or OPTABLE)     # witnesses may carry their own (smaller) op table

NONTRIV = ('rejected', 'cross-document', 'remove-after-insert')

def worker(ctx):
    ex = ctx.executor('xv_dom')
    st_ = ctx.stats
    def prop(c):
        case = make_case(c)
        ok, detail, h = run_case(case, ex)
        if h is not None:
            labels = set(h.labels)
            if any(s.res.is_err() for s in h.steps): labels.add('rejected')
            if any(s.res.unspec for s in h.steps): labels.add('has-unspecified')
            opn = collections.Counter(s.opname for s in h.steps)
            for fid, n in h.excluded.items(): st_.excluded_known[fid] += n
            hh = xv.sha([case['setup'], [s.line for s in h.steps]])
            st_.note(hh, all(l in labels for l in NONTRIV), list(labels) + ['ndocs:%d' % case['setup']['ndocs'], 'parsed' if case['setup']['flags'] is not None else 'empty-docs'])
            st_.extra.setdefault('ops', {}); st_.extra.setdefault('rejected_by_code', {})
            for k, v in opn.items(): st_.extra['ops'][k] = st_.extra['ops'].get(k, 0) + v
            for s in h.steps:
                if s.res.is_err():
                    key = ','.join(str(x) for x in sorted(s.res.codes)); st_.extra['rejected_by_code'][key] = st_.extra['rejected_by_code'].get(key, 0) + 1
            st_.extra['steps'] = st_.extra.get('steps', 0) + len(h.steps)
            st_.sample({'setup': case['setup'], 'history': [s.line.replace('\t', ' ') for s in h.steps[:25]]})
        if not ok:
            if detail.startswith('MODEL-SELFCHECK'):
                st_.oracle_disagreements += 1; return
            raise PropertyFailure(case, detail)
    hyp_run(ctx, case_strategy(MAXOPS[ctx.tier]), prop, ctx.budget)

def replay(case, ctx):
    ok, detail, h = run_case(case, ctx.executor('xv_dom'))
    return ok, detail

# ---- known findings ------------------------------------------------------------------------------------
ALL_EXCLUSION_IDS = frozenset(ACTIVE_EXCLUSIONS) | frozenset(x[:-5] for d in ('C13', 'C14') if os.path.isdir(os.path.join(xv.VERIF, 'regress-known', d))
                                                         for x in os.listdir(os.path.join(xv.VERIF, 'regress-known', d)) if x.endswith('.json'))

def classify(case, detail):
    """A generated case always carries the full exclusion list, so it can never fall into a known class.  A stored witness is the
    same kind of case with exactly one exclusion id switched off: that id is the finding it demonstrates."""
    missing = [i for i in ALL_EXCLUSION_IDS if i not in set(case.get('excl', []))]
    mine = [i for i in missing if i.startswith(ID + '-')] or missing
    return mine[0] if len(mine) == 1 else None

def known_witnesses():
    out = []
    d = os.path.join(xv.VERIF, 'regress-known', ID)
    if os.path.isdir(d):
        for f in sorted(os.listdir(d)):
            if f.endswith('.json'):
                o = json.load(open(os.path.join(d, f))); out.append((o.get('finding', f[:-5]), o['case']))
    return out
