"""C06 -- namespace processing binds every name to the URI the declarations in scope imply (namespace-first generator)."""
import base64
from hypothesis import strategies as st
import xv, xmlmodel as xm, wfmut
from driver import hyp_run, PropertyFailure

ID = 'C06'
HARNESS = {'asan': ['xvexec']}
RULE = ('namespace-first trees: every element/attribute gets an expanded name, then declarations are invented (default vs prefixed, on the element or an '
        'ancestor, shadowing / re-declaration, xmlns="" and (XML 1.1) xmlns:p="" un-declaration, several prefixes per URI, 17-40 declarations on one '
        'element, declaration written after its first use in the tag, declaration supplied by a DTD attribute default). SAX2 (namespace-prefixes on/off), '
        'SAX1, DOM, DOMLS x IG/WF/DG/SG: reported (uri, local, qname) of every element and attribute, prefix-mapping events and their nesting, DOM '
        'namespaceURI/prefix/localName, and lookupNamespaceURI / lookupPrefix / isDefaultNamespace on every element (+ one attribute and text child) for '
        'all pool prefixes/URIs plus unknown ones must equal the DOM L3 Appendix B model; namespace-constraint violations must be reported. '
        'non-trivial = tree has shadowing, un-declaration, >16 declarations on an element, use-before-declaration in the tag or a DTD-defaulted '
        'declaration; distinct by sha1(bytes, api, config).')
ASSUMPTIONS = ['pyexpat (namespace mode) agrees with the model on XML 1.0 cases or the case is dropped', 'lookupPrefix: any in-scope, non-shadowed prefix bound to the URI is accepted',
               'prefixes xml/xmlns are not queried through the lookup methods (Appendix B is silent on their pre-binding)',
               'the namespace URI reported by SAX2 for xmlns attributes themselves is not asserted']
BUDGET = {'quick': 450, 'thorough': 6000}
WALLCAP = {'quick': 500, 'thorough': 3600}

URIS = ['urn:a', 'urn:b', 'http://x.example/ns', 'urn:c', 'urn:a#frag']
PFX = ['p', 'q', 'r', 's', 'pp', 'x-y', '_u']
LOCALS = ['a', 'b', 'c', 'item', 'e1', 'él']
QUERY_P = ['-', 'p', 'q', 'r', 's', 'pp', 'x-y', '_u', 'nope', 'big3']
QUERY_U = URIS + ['urn:unknown', 'urn:big3']

class NEl:
    def __init__(self): self.decls = []; self.prefix = None; self.local = 'a'; self.attrs = []; self.children = []; self.text = None; self.dtd_default = None

@st.composite
def gen_tree(draw, v11):
    state = {'n': 0, 'labels': set()}
    def el(depth, scope):
        e = NEl(); state['n'] += 1
        sc = dict(scope)
        # declarations on this element
        nd = draw(st.sampled_from([0, 0, 1, 1, 2, 3]))
        big = depth <= 2 and draw(st.integers(0, 25)) == 0
        seen = set()
        for i in range(nd):
            p = draw(st.sampled_from(PFX + ['', '']))
            if p in seen: continue
            seen.add(p)
            if p == '':
                u = draw(st.sampled_from(URIS + ['']))
                if u == '': state['labels'].add('undeclare-default')
            else:
                u = draw(st.sampled_from(URIS + ([''] if v11 else [])))
                if u == '': state['labels'].add('undeclare-prefix')
            if p in scope and scope[p] != u: state['labels'].add('shadowing')
            e.decls.append((p, u)); sc[p] = u
        if big:
            state['labels'].add('many-decls')
            for i in range(draw(st.integers(17, 40))):
                p = 'big%d' % i; e.decls.append((p, 'urn:big%d' % (i % 5))); sc[p] = 'urn:big%d' % (i % 5)
        bound = sorted(p for p, u in sc.items() if p and u)
        e.prefix = draw(st.sampled_from([None, None] + bound)) if bound else None
        e.local = draw(st.sampled_from(LOCALS))
        seen_exp = set()
        for i in range(draw(st.integers(0, 3))):
            ap = draw(st.sampled_from([None, None, 'xml'] + bound))
            al = draw(st.sampled_from(['at', 'b', 'id', 'c2']))
            if ap == 'xml': al = draw(st.sampled_from(['lang', 'space']))
            exp = (xm.XML_URI if ap == 'xml' else (sc[ap] if ap else ''), al)
            if exp in seen_exp: continue
            seen_exp.add(exp)
            val = 'preserve' if (ap, al) == ('xml', 'space') else draw(st.sampled_from(['v', '', 'a b', 'urn:a']))
            e.attrs.append((ap, al, val))
        e.order = draw(st.integers(0, 10 ** 6))
        if e.decls and (e.prefix in [p for p, u in e.decls]): pass
        if depth < 4:
            for i in range(draw(st.integers(0, 3 if depth < 3 else 1))):
                e.children.append(el(depth + 1, sc))
        if draw(st.booleans()): e.text = draw(st.sampled_from(['t', 'x y', 'é']))
        e.scope = sc
        return e
    root = el(1, {})
    return root, state['labels']

def qn(p, l): return (p + ':' + l) if p else l

def render(root, v11, dtd_default, shuffle=True):
    """-> text, expected full events (xmlmodel format), model tree annotations"""
    out = []; ev = []
    labels = set()
    def perm(items, k):
        items = list(items)
        for i in range(len(items) - 1, 0, -1):
            j = (k * 7919 + i * 104729) % (i + 1); items[i], items[j] = items[j], items[i]
        return items
    def w(e, is_root):
        tag = qn(e.prefix, e.local)
        pieces = []
        decls = list(e.decls)
        skip_written = None
        if is_root and dtd_default and decls:
            skip_written = decls[0]           # this declaration comes from the ATTLIST default, not from the tag
        for p, u in decls:
            if (p, u) == skip_written: continue
            pieces.append(('D', p, '%s="%s"' % ('xmlns:' + p if p else 'xmlns', u)))
        for ap, al, val in e.attrs:
            pieces.append(('A', ap, '%s="%s"' % (qn(ap, al), val)))
        pieces = perm(pieces, e.order)
        # use-before-declaration: an attribute or the element itself uses a prefix whose declaration is written later in the tag
        declared_here = {p for p, u in e.decls}
        pos = {pp[1]: i for i, pp in enumerate(pieces) if pp[0] == 'D'}
        if e.prefix in declared_here: labels.add('use-before-decl')
        for i, pp in enumerate(pieces):
            if pp[0] == 'A' and pp[1] in pos and pos[pp[1]] > i: labels.add('use-before-decl')
        out.append('<' + tag + ''.join(' ' + pp[2] for pp in pieces))
        for p, u in e.decls: ev.append(('SPM', p, u))
        sc = e.scope
        uri = sc.get(e.prefix, '') if e.prefix else sc.get('', '')
        ev.append(('SE', uri, e.local, tag, None))
        rows = []
        for p, u in e.decls:
            spec = '0' if (p, u) == skip_written else '1'
            rows.append(('A', xm.XMLNS_URI, p if p else 'xmlns', 'xmlns:' + p if p else 'xmlns', 'CDATA', spec, u))
        for ap, al, val in e.attrs:
            au = xm.XML_URI if ap == 'xml' else (sc[ap] if ap else '')
            rows.append(('A', au, al, qn(ap, al), 'CDATA', '1', val))
        ev.extend(rows)
        if not e.children and e.text is None:
            out.append('/>')
        else:
            out.append('>')
            if e.text is not None: out.append(e.text); ev.append(('T', e.text))
            for c in e.children: w(c, False)
            out.append('</' + tag + '>')
        ev.append(('EE', uri, e.local, tag, None))
        for p, u in reversed(e.decls): ev.append(('EPM', p))
    head = '<?xml version="1.1"?>' if v11 else ''
    if dtd_default and root.decls: root.local = 'rootel'        # the ATTLIST must apply to the root only
    if dtd_default and root.decls:
        p, u = root.decls[0]
        head += '<!DOCTYPE %s [<!ATTLIST %s %s CDATA "%s">]>' % (qn(root.prefix, root.local), qn(root.prefix, root.local), 'xmlns:' + p if p else 'xmlns', u)
        labels.add('dtd-default-decl')
        ev.append(('DT', qn(root.prefix, root.local), None, None)); ev.append(('DT]',))
    w(root, True)
    return head + ''.join(out), ev, labels

# ---------------- Appendix B model on the NEl tree ----------------
def elements_in_order(root):
    out = []
    def w(e, parent):
        e.parent = parent; out.append(e)
        for c in e.children: w(c, e)
    w(root, None)
    return out

def m_lookup_uri(e, prefix):
    while e is not None:
        uri = e.scope.get(e.prefix, None) if e.prefix else (e.scope.get('', '') or None)
        if uri and e.prefix == prefix: return uri
        for p, u in e.decls:
            if (p or None) == prefix: return u or None
        e = e.parent
    return None

def m_prefix_candidates(e, ns):
    cands = set(); x = e
    while x is not None:
        if x.prefix: cands.add(x.prefix)
        for p, u in x.decls:
            if p: cands.add(p)
        x = x.parent
    return {p for p in cands if m_lookup_uri(e, p) == ns}

def m_is_default(e, ns):
    while e is not None:
        if e.prefix is None:
            return (e.scope.get('', '') or None) == ns
        for p, u in e.decls:
            if p == '': return (u or None) == ns
        e = e.parent
    return False

def check_nsq(root, events):
    els = elements_in_order(root)
    rows = [e for e in events if e[0] == 'NSQ']
    byidx = {}
    for r in rows: byidx.setdefault(int(r[1]), []).append(r)
    if len(byidx) != len(els): return 'NSQ rows for %d elements, model has %d' % (len(byidx), len(els))
    np_, nu = len(QUERY_P), len(QUERY_U)
    for i, e in enumerate(els):
        for r in byidx[i]:
            vals = r[3:]
            for k, p in enumerate(QUERY_P):
                exp = m_lookup_uri(e, None if p == '-' else p)
                got = None if vals[k] == '\\N' else xv.unesc(vals[k])
                if got != exp: return 'element #%d <%s> (%s node): lookupNamespaceURI(%r) = %r, model %r' % (i, qn(e.prefix, e.local), r[2], p, got, exp)
            for k, u in enumerate(QUERY_U):
                got = None if vals[np_ + k] == '\\N' else xv.unesc(vals[np_ + k])
                cands = m_prefix_candidates(e, u)
                if (got is None) != (not cands) or (got is not None and got not in cands):
                    return 'element #%d <%s> (%s node): lookupPrefix(%r) = %r, acceptable %r' % (i, qn(e.prefix, e.local), r[2], u, got, sorted(cands))
            for k, u in enumerate(QUERY_U):
                got = vals[np_ + nu + k] == '1'
                if got != m_is_default(e, u): return 'element #%d <%s> (%s node): isDefaultNamespace(%r) = %r, model %r' % (i, qn(e.prefix, e.local), r[2], u, got, m_is_default(e, u))
    return None

APIS = ['sax2', 'sax2', 'sax1', 'dom', 'dom', 'domls', 'psax2', 'pdom']
LEVEL_OF = {'sax1': 'sax1', 'sax2': 'sax2', 'psax2': 'sax2', 'dom': 'dom', 'pdom': 'dom', 'domls': 'dom'}

@st.composite
def case_strategy(draw):
    v11 = draw(st.integers(0, 4)) == 0
    root, labels = draw(gen_tree(v11))
    dtd_default = draw(st.integers(0, 5)) == 0
    api = draw(st.sampled_from(APIS)); nsp = draw(st.booleans())
    scanner = draw(st.sampled_from(['IG', 'DG'] if dtd_default else ['IG', 'WF', 'DG', 'SG']))
    neg = draw(st.sampled_from([None, None, None] + wfmut.OPS_NS)); k = draw(st.integers(0, 1000))
    return root, labels, v11, dtd_default, api, nsp, scanner, neg, k

def run_pos(case, root, ex):
    req = {'kind': 'parse', 'api': case['api'], 'feat': case['feat'], 'doc': base64.b64decode(case['doc_b64'])}
    if case['level'] == 'dom': req['nsq_p'] = ','.join(QUERY_P); req['nsq_u'] = ','.join(QUERY_U)
    try: resp = ex.request(req)
    except xv.ExecutorDied as e: return False, 'executor died rc=%s\n%s' % (e.rc, e.stderr[-3000:])
    events, extra = xv.parse_ced(resp)
    errs = [e for e in events if e[0] in ('ERR', 'EXC')]
    if errs: return False, 'namespace-well-formed document reported errors: %r' % (errs[:3],)
    full_act = xm.actual_to_full([e for e in events if e[0] != 'NSQ'], withloc=False)
    act = xm.normalise_actual_types(xm.project(full_act, case['level'], ns=True, lines=False, ere=True, nsp=case['nsp']), case['level'])
    exp = xm.normalise_actual_types([tuple(e) for e in case['expected']], case['level'])
    import props.C03 as C03
    d = C03.diff_events(exp, act)
    if d: return False, d
    if case['level'] == 'dom' and root is not None:
        d = check_nsq(root, events)
        if d: return False, d
    return True, 'ok'

def run_neg(case, ex):
    req = {'kind': 'parse', 'api': case['api'], 'feat': case['feat'], 'doc': base64.b64decode(case['doc_b64'])}
    try: resp = ex.request(req)
    except xv.ExecutorDied as e: return False, 'executor died rc=%s\n%s' % (e.rc, e.stderr[-3000:])
    events, extra = xv.parse_ced(resp)
    errs = [e for e in events if (e[0] == 'ERR' and e[3] in ('E', 'F')) or e[0] == 'EXC']
    if not errs: return False, 'namespace-constraint violation (%s) not reported; events %r' % (case['op'], events[:10])
    return True, 'ok'

def tree_to_json(e):
    return {'decls': e.decls, 'prefix': e.prefix, 'local': e.local, 'attrs': e.attrs, 'order': e.order, 'text': e.text, 'children': [tree_to_json(c) for c in e.children]}
def tree_from_json(j, scope=None):
    e = NEl(); e.decls = [tuple(x) for x in j['decls']]; e.prefix = j['prefix']; e.local = j['local']; e.attrs = [tuple(a) for a in j['attrs']]
    e.order = j['order']; e.text = j['text']
    sc = dict(scope or {})
    for p, u in e.decls: sc[p] = u
    e.scope = sc
    e.children = [tree_from_json(c, sc) for c in j['children']]
    return e

def worker(ctx):
    ex = ctx.executor('xvexec'); S = ctx.stats
    def prop(c):
        root, glabels, v11, dtd_default, api, nsp, scanner, neg, k = c
        text, full, rlabels = render(root, v11, dtd_default)
        labels = set(glabels) | rlabels
        data = text.encode('utf-8')
        level = LEVEL_OF[api]
        if not v11:
            kind, ev = xm.expat_events(data, {}, True)
            if kind != 'ok' or xm.project_expat(ev, True) != xm.project_expat(full, True):
                S.oracle_disagreements += 1
                S.extra.setdefault('disagreement_samples', [])
                if len(S.extra['disagreement_samples']) < 3: S.extra['disagreement_samples'].append({'doc': text[:300], 'expat': str(ev)[:300]})
                return
        exp = xm.project(full, level, ns=True, lines=False, ere=True, nsp=nsp)
        feat = 'ns=1;nsp=%d;scanner=%s;val=0' % (nsp, scanner)
        case = {'kind': 'pos', 'api': api, 'feat': feat, 'level': level, 'nsp': nsp, 'doc_b64': base64.b64encode(data).decode(), 'expected': exp,
                'tree': tree_to_json(root), 'doc_preview': text[:300]}
        S.note(xv.sha([case['doc_b64'], api, feat]), bool(labels), list(labels) + ['api:' + api, 'scanner:' + scanner, 'v11' if v11 else 'v10'])
        S.sample({'api': api, 'feat': feat, 'doc': text[:250]})
        ok, detail = run_pos(case, root, ex)
        if not ok: raise PropertyFailure(case, detail)
        if neg and not (v11 and neg == 'ns-empty-prefix-decl') and not dtd_default:
            m = wfmut.mutate(text, None, neg, k)
            if m is None: return
            mdata = m.encode('utf-8')
            if not v11:
                kind, ev = xm.expat_events(mdata, {}, True)
                if kind == 'ok': S.oracle_disagreements += 1; S.labels['expat-accepts:' + neg] += 1; return
            elif neg not in wfmut.OPS_V11: return
            ncase = {'kind': 'neg', 'api': api, 'feat': feat, 'op': neg, 'doc_b64': base64.b64encode(mdata).decode(), 'doc_preview': m[:300]}
            S.note(xv.sha([ncase['doc_b64'], api, feat]), True, ['neg', 'op:' + neg])
            ok, detail = run_neg(ncase, ex)
            if not ok: raise PropertyFailure(ncase, detail)
    hyp_run(ctx, case_strategy(), prop, ctx.budget)

def run_raw(case, ex):
    req = {'kind': 'parse', 'api': case['api'], 'feat': case['feat'], 'doc': base64.b64decode(case['doc_b64']), 'loc': str(case.get('loc', 1))}
    if 'nsq_p' in case: req['nsq_p'] = case['nsq_p']; req['nsq_u'] = case['nsq_u']
    try: resp = ex.request(req)
    except xv.ExecutorDied as e: return False, 'executor died rc=%s\n%s' % (e.rc, e.stderr[-3000:])
    got = [l for l in resp.split('\n') if l and not l.startswith('#')]
    if got != case['raw_expect']: return False, 'CED differs from the recorded expectation:\n expected %r\n actual   %r' % (case['raw_expect'], got)
    return True, 'ok'

def replay(case, ctx):
    ex = ctx.executor('xvexec')
    if case['kind'] == 'raw': return run_raw(case, ex)
    if case['kind'] == 'neg': return run_neg(case, ex)
    root = tree_from_json(case['tree']) if case.get('tree') else None
    return run_pos(case, root, ex)
