"""C09 -- XML Schema datatypes: lexical, value-space, facet and canonical-form correctness (model M4 = pbt/dtypes.py).

Three lanes, each a JSON case that alone suffices for replay:
  builtin : one built-in type x a batch of raw literals -> XSValue (validate/canonical/actual), DatatypeValidator (validate/
            canonical, toValidate), in-parse validation (<e>lit</e> and <a v="lit"/>) ; oracle (i) (iii) (iv)
  order   : one built-in type x triples of valid literals -> DatatypeValidator::compare ; oracle (ii)
  derived : generated restriction / list / union definitions x raw literals -> factory-made validators + in-parse ; (i) (iv)
"""
import base64, json, os, re, struct, glob
from decimal import Decimal
from fractions import Fraction
from hypothesis import strategies as st
import xv, dtypes as D
from driver import hyp_run, PropertyFailure, VERIF

ID = 'C09'
HARNESS = {'asan': ['xv_dtype']}
RULE = ('one evaluation = one (type definition(s), literal) or (type, literal pair) pushed through the entry points. non-trivial = the generator '
        'recorded that the literal sits within one step of a lexical or facet boundary (label bd:* = boundary form such as range end +-1, leading '
        'zeros/sign, bare point, exponent form, leap day, hour 24, zone +-14:00, padding/embedded space, facet value = bound / digit count +-1 / '
        'length +-1; label nm:* = exactly one grammar rule broken), or the pair is equal-in-value but lexically different; distinct by '
        'sha1(lane, type definitions, literal(s)).  Cases in version-dependent zones (R2) are dropped and listed under unsure_classes.')
ASSUMPTIONS = ['model written from XML Schema Part 2 2nd edition; where 1st ed./2nd ed./1.1 differ or are silent the case is not asserted (unsure_classes in the evidence)',
               'XSValue takes the whitespace-processed literal for string-derived types (its documented contract: "no #xD #xA #x9"), the raw literal otherwise',
               'DatatypeValidator::validate takes the whitespace-processed literal (as the scanners call it); in-parse validation takes the raw literal',
               'float/double out-of-range literals follow doc/schema.xml (overflow -> +-INF, underflow -> +-0); the platform dependent double subnormal band and the float band (FLT_MAX, 2^128] are not generated',
               'DatatypeValidator::compare cannot express "indeterminate" (DateTimeValidator::compare maps it to -1): for model-indeterminate pairs only "not equal" is asserted',
               'decimal second witness: fractions.Fraction; double second witness: CPython float(); base64 second witness: base64 module',
               'known findings are excluded by construction (excluded_known) and kept as witnesses under regress-known/C09']
BUDGET = {'quick': 520, 'thorough': 5000}
if os.environ.get('C09_DEV_BUDGET'): BUDGET = {'quick': int(os.environ['C09_DEV_BUDGET']), 'thorough': int(os.environ['C09_DEV_BUDGET'])}    # sensitivity runs on a loaded machine only
WALLCAP = {'quick': 600, 'thorough': 3600}

CORE_TYPES = ['decimal'] + list(D.INT_RANGES) + ['boolean', 'float', 'double', 'dateTime', 'date', 'time', 'hexBinary', 'base64Binary', 'string', 'normalizedString', 'token']
EXT_TYPES = ['gYearMonth', 'gYear', 'gMonthDay', 'gDay', 'gMonth', 'duration', 'language', 'NMTOKEN', 'Name', 'NCName']
ALL_TYPES = CORE_TYPES + EXT_TYPES
XSV_CANON = set(['decimal', 'float', 'double', 'boolean', 'dateTime', 'time', 'date', 'hexBinary', 'base64Binary']) | set(D.INT_RANGES)
ORDERED = set(['decimal', 'float', 'double', 'duration']) | set(D.RE_DT) | set(D.INT_RANGES)

# ------------------------------------------------------------------------------------------------
# known findings (genuine defects of the unchanged tree, excluded by construction)
# ------------------------------------------------------------------------------------------------
def known_class(tn, proc, lane='builtin'):
    """finding id if (type, whitespace-processed literal) belongs to the input class of a known finding"""
    root = tn
    if lane == 'builtin' and root in ('float', 'double') and proc in ('INF', '-INF', 'NaN'): return 'C09-xsvalue-special-literals' 
    if root in ('float', 'double') and re.match(r'[+-]?\.(?:[eE][+-]?[0-9]+)?\Z', proc): return 'C09-float-no-digit-mantissa'
    if lane == 'builtin' and root == 'dateTime' and re.search(r'T24:00:00(\.0+)?(Z|[+-][0-9:]*)?\Z', proc): return 'C09-datetime-hour24-canonical'
    return None

def case_known(case):
    return case.get('known')

# ------------------------------------------------------------------------------------------------
# helpers
# ------------------------------------------------------------------------------------------------
def xml_escape(s):
    out = []
    for c in s:
        if c == '&': out.append('&amp;')
        elif c == '<': out.append('&lt;')
        elif c == '>': out.append('&gt;')
        elif c == '"': out.append('&quot;')
        elif c in '\t\n\r': out.append('&#%d;' % ord(c))
        else: out.append(c)
    return ''.join(out)

XSD_HEAD = '<xs:schema xmlns:xs="http://www.w3.org/2001/XMLSchema">\n'
def schema_for(types, target):
    q = ('xs:' + target) if isinstance(target, str) and target in D.PRIM or target in D.BUILTIN_LISTS else target
    return (XSD_HEAD + D.xsd_of(types) + '\n<xs:element name="r"><xs:complexType><xs:choice minOccurs="0" maxOccurs="unbounded">'
            '<xs:element name="e" type="%s"/><xs:element name="a"><xs:complexType><xs:attribute name="v" type="%s"/></xs:complexType></xs:element>'
            '</xs:choice></xs:complexType></xs:element></xs:schema>' % (q, q))

def run_parse(ex, schema, lits, scanner):
    """-> (verdict list (True = no validity error on that line), problem or None)"""
    rows = []
    for i, l in enumerate(lits):
        rows.append('<e>%s</e>' % xml_escape(l) if i % 2 == 0 else '<a v="%s"/>' % xml_escape(l))
    doc = '<r xmlns:xsi="http://www.w3.org/2001/XMLSchema-instance" xsi:noNamespaceSchemaLocation="s.xsd">\n' + '\n'.join(rows) + '\n</r>'
    resp = ex.request({'kind': 'parse', 'api': 'sax2', 'feat': 'ns=1;val=1;schema=1;scanner=%s' % scanner, 'doc': doc.encode('utf-8'), 'ent:s.xsd': schema.encode('utf-8')})
    bad = set(); problem = None
    for line in resp.split('\n'):
        f = line.split('\t')
        if f[0] == 'ERR':
            ln = int(f[4]); sysid = f[6] if len(f) > 6 else ''
            if f[3] == 'F' or not sysid.endswith('doc.xml'): problem = line; continue
            if f[3] == 'W': continue
            idx = ln - 2
            if 0 <= idx < len(lits): bad.add(idx)
            else: problem = line
        elif f[0] == 'EXC': problem = line
    return [i not in bad for i in range(len(lits))], problem

def types_from_json(defs):
    env = {}
    out = []
    def ref(n): return env[n] if n in env else n
    for d in defs:
        if d['k'] == 'R': t = D.Restr(d['name'], ref(d['base']), dict(d.get('facets', {})), list(d.get('enums', [])))
        elif d['k'] == 'L': t = D.ListT(d['name'], ref(d['item']))
        else: t = D.UnionT(d['name'], [ref(m) for m in d['members']])
        env[d['name']] = t; out.append(t)
    return out, env

def dtv_request(ex, types, ops):
    tl = []
    for row in D.type_lines(types):
        cells = []
        for c in row:
            cells.append(c[0] + xv.esc(c[1]) if isinstance(c, tuple) else c)
        tl.append('\t'.join(cells))
    ol = ['\t'.join([o[0], o[1]] + [xv.esc(x) for x in o[2:]]) for o in ops]
    resp = ex.request({'kind': 'dtv', 'types': '\n'.join(tl), 'ops': '\n'.join(ol)})
    lines = [l for l in resp.split('\n') if l]
    tres = {}
    k = 0
    while k < len(lines) and lines[k].startswith('T\t'):
        f = lines[k].split('\t'); tres[f[1]] = f[2:]; k += 1
    return tres, lines[k:]

class Note:
    """collects per-evaluation notes; flushed into ctx.stats by the worker (not during replay)"""
    def __init__(self): self.rows = []; self.unsure = {}; self.excluded = {}; self.samples = []
    def note(self, h, nontriv, labels): self.rows.append((h, nontriv, labels))

def nontrivial(labels): return any(l.startswith('bd:') or l.startswith('nm:') or l.startswith('eq:') for l in labels)

# ------------------------------------------------------------------------------------------------
# lane: builtin
# ------------------------------------------------------------------------------------------------
def float_bits(tn, fv):
    """expected IEEE bits of a finite model value (sign of zero not included)"""
    x = float(fv.fr)
    if tn == 'float': return struct.unpack('>I', struct.pack('>f', x))[0]
    return struct.unpack('>Q', struct.pack('>d', x))[0]

def check_actual(tn, val, proc, a_status, a_val):
    """XSValue::getActualValue for a model-valid literal -> problem string or None"""
    k = D.PRIM[tn]; v = val.v
    if k == 'string': return None if (a_status == 'NoActVal' and a_val == '\\N') else 'expected status NoActVal for a string type, got %s:%s' % (a_status, a_val)
    if tn == 'decimal':
        if a_status == 'FOCA0001': return None       # documented: value too large/small for the double it is delivered in
        if a_status != 'Init' or not a_val.startswith('d:'): return 'decimal actual value missing: %s:%s' % (a_status, a_val)
        if abs(v) != 0 and (abs(v) < Decimal('1e-300') or abs(v) > Decimal('1e300')): return None
        return None if float(a_val[2:]) == float(v) else 'decimal actual value %s != %r' % (a_val, float(v))
    if k == 'decimal':
        iv = int(v)
        signed = tn in ('integer', 'nonPositiveInteger', 'negativeInteger', 'long', 'int', 'short', 'byte')
        lo, hi = (-2**63, 2**63 - 1) if signed else (0, 2**64 - 1)
        if not (lo <= iv <= hi):
            return None if a_status == 'FOCA0003' and a_val == '\\N' else 'integer beyond 64 bits: expected FOCA0003, got %s:%s' % (a_status, a_val)
        if a_status != 'Init' or a_val != 'i:%d' % iv: return 'integer actual value %s:%s != %d' % (a_status, a_val, iv)
        return None
    if k == 'boolean': return None if (a_status == 'Init' and a_val == 'b:%d' % int(v)) else 'boolean actual value %s:%s' % (a_status, a_val)
    if k in ('float', 'double'):
        if a_status != 'Init' or a_val == '\\N': return 'float actual value missing: %s:%s' % (a_status, a_val)
        tag, enum, bits = a_val.split(':'); enum = int(enum); bits = int(bits, 16)
        if v.kind != 'num' or v.clamped:
            if v.clamped:
                want = {'-inf': 0, 'inf': 1, 'num': 3}[v.kind]
                return None if enum == want else 'clamped value: expected enum %d got %s' % (want, a_val)
            want = {'-inf': 0, 'inf': 1, 'nan': 2}[v.kind]           # only reached when replaying the witness of C09-xsvalue-special-literals
            return None if enum == want else 'special literal: expected DoubleFloatType %d, got %s (Normal with value 0)' % (want, a_val)
        if enum != 4: return 'finite in-range literal reported as converted: %s' % a_val
        mask = 0x7FFFFFFF if k == 'float' else 0x7FFFFFFFFFFFFFFF
        if (bits & mask) != (float_bits(k, v) & mask): return 'float bits %s != expected %X' % (a_val, float_bits(k, v))
        if v.fr != 0 and bool(bits & ~mask) != v.neg: return 'float sign wrong: %s' % a_val
        return None
    if k in D.RE_DT:
        if a_status != 'Init' or not a_val.startswith('t:'): return 'date/time actual value missing: %s:%s' % (a_status, a_val)
        if k not in ('dateTime', 'date', 'time') or (v.h == 24 and not v.tz): return None
        f = a_val[2:].split(',')
        got = [int(x) for x in f[:6]] + [float(f[6])]
        sec = v.s if v.s is not None else Decimal(0)
        want = [v.y or 0, v.mo or 0, v.d or 0, v.h or 0, v.mi or 0, int(sec)]
        if v.tz:
            # a zoned value is delivered normalised to UTC (the same normalisation the order relation and the canonical form use)
            if v.y is not None and (v.y < 2 or D._near_era_boundary(v)): return None
            mins = (v.h or 0) * 60 + (v.mi or 0) - v.tz
            if k == 'time': want[3], want[4] = (mins % 1440) // 60, mins % 60
            else:
                yy, mm, dd = D.civil_from_days(D.days_from_civil(v.y, v.mo, v.d) + mins // 1440)
                want[0], want[1], want[2] = yy, mm, dd
                if k == 'dateTime': want[3], want[4] = (mins % 1440) // 60, mins % 60
        if got[:6] != want: return 'date/time fields %r != %r' % (got[:6], want)
        fr = float(sec - int(sec))
        if abs(got[6] - fr) > 1e-9: return 'fraction %r != %r' % (got[6], fr)
        return None
    if k == 'duration': return None if a_status == 'Init' else 'duration actual value: %s' % a_status
    if k in ('hexBinary', 'base64Binary'):
        if a_status != 'Init': return 'binary actual value missing: %s' % a_status
        return None if a_val == 'x:' + v.hex().upper() else 'binary actual value %s != %s' % (a_val, v.hex().upper())
    return None

DTV_CANON = set(['decimal', 'float', 'double', 'boolean', 'dateTime', 'time', 'date']) | set(D.INT_RANGES)   # validators overriding getCanonicalRepresentation

def check_canonical(tn, val, proc, can, who, note=None, exact=True):
    """invariants of a canonical literal returned for a model-valid literal -> problem or None ('valid', 'same value', model string)"""
    ok, cv = D.verdict(tn, can)
    if ok is None: return None
    if ok is False: return '%s canonical form %r of %r is not valid for %s (%s)' % (who, can, proc, tn, cv)
    try:
        if D.PRIM[tn] in ('float', 'double') and (val.v.kind == 'nan' or (val.v.kind == 'num' and val.v.fr == 0)):
            same = (cv.v.kind == val.v.kind) and (val.v.kind == 'nan' or cv.v.fr == 0)
        elif tn == 'time' and (val.v.h == 24 or val.v.tz is not None):
            same = True          # covered by the exact-string comparison where the model defines it
        else:
            same = D.val_equal(val, cv)
    except D.Unsure:
        same = True
    if not same: return '%s canonical form %r of %r denotes another value (%r vs %r)' % (who, can, proc, cv.v, val.v)
    try:
        mc = D.canonical(tn, val.v, proc) if exact else None
    except D.Unsure:
        mc = None
    if mc is not None and mc != can:
        if who == 'DatatypeValidator' and tn not in DTV_CANON and can == proc and not D.KNOWN_OFF:
            # known finding: the base-class implementation returns the input unchanged (hexBinary, base64Binary)
            if note is not None: note.excluded['C09-dtv-canonical-identity'] = note.excluded.get('C09-dtv-canonical-identity', 0) + 1
            return None
        return '%s canonical form %r of %r differs from the specified canonical form %r' % (who, can, proc, mc)
    return None

def check_builtin(case, ex, note):
    tn = case['type']; lits = case['lits']; labels = case.get('labels') or [[] for _ in lits]
    ws = D.ws_of(tn)
    rows = []            # (raw, proc, model verdict, val/reason)
    for raw, lab in zip(lits, labels):
        proc = D.ws_process(raw, ws)
        kid = None if case.get('noexclude') else known_class(tn, proc)
        if kid:
            note.excluded[kid] = note.excluded.get(kid, 0) + 1; continue
        ok, info = D.verdict(tn, raw)
        rows.append((raw, proc, ok, info, lab))
    if not rows: return True, 'ok'
    isstr = D.PRIM[tn] == 'string'
    # (a) XSValue
    items = []
    for raw, proc, ok, info, lab in rows:
        xin = proc if isstr else raw
        alen = len(info.v) if (ok and tn in ('base64Binary', 'hexBinary')) else -1
        items.append('%s\t%s\t%d' % (tn, xv.esc(xin), alen))
    xs = [l for l in ex.request({'kind': 'xsv', 'items': '\n'.join(items)}).split('\n') if l]
    if len(xs) != len(rows): return False, 'xsv answered %d lines for %d items: %r' % (len(xs), len(rows), xs[:3])
    # (b) DatatypeValidator
    ops = [('w', tn)]
    for raw, proc, ok, info, lab in rows: ops += [('v', tn, proc), ('k', tn, proc, '1')]
    _, dl = dtv_request(ex, [], ops)
    if len(dl) != len(ops): return False, 'dtv answered %d lines for %d ops' % (len(dl), len(ops))
    if dl[0] != 'ws\t%d' % D.WSCODE[ws]: return False, 'whiteSpace facet of %s: %s, expected %s' % (tn, dl[0], ws)
    # (c) in-parse
    pv = None
    if case.get('parse'):
        pv, problem = run_parse(ex, schema_for([], tn), [r[0] for r in rows], case.get('scanner', 'IG'))
        if problem: return False, 'in-parse lane: unexpected %r' % problem
    second = []       # canonical forms to be fed back (idempotence)
    for i, (raw, proc, ok, info, lab) in enumerate(rows):
        x = xs[i]
        if x.startswith('EXC') or x.startswith('UNKNOWN') or x.startswith('BAD'): return False, 'XSValue on %s %r: %s' % (tn, raw, x)
        xf = dict(p.split('=', 1) for p in x.split('\t'))
        xv_ok = xf['v'][0] == '1'
        c_status, c_val = xf['c'].split(':', 1); a_status, a_val = xf['a'].split(':', 1)
        d_ok = dl[1 + 2 * i] == 'ok'
        d_can = dl[2 + 2 * i]
        if dl[1 + 2 * i].startswith('exc') or d_can.startswith('exc\tFOREIGN'): return False, 'DatatypeValidator on %s %r: %s / %s' % (tn, proc, dl[1 + 2 * i], d_can)
        h = xv.sha(['builtin', tn, raw])
        lab2 = list(lab) + ['type:' + tn, 'model:' + {True: 'valid', False: 'invalid', None: 'unsure'}[ok]]
        where = '%s literal %r (processed %r)' % (tn, raw, proc)
        blank = proc.strip(' \t\n\r') == ''
        fcl = ok is True and D.PRIM[tn] in ('float', 'double') and info.v.kind == 'num' and info.v.fr != 0 and re.match(r'[+-]?0*\.0', proc) is not None
        if fcl and not case.get('noexclude'): note.excluded['C09-float-canonical-small-mantissa'] = note.excluded.get('C09-float-canonical-small-mantissa', 0) + 1
        clamped = (ok is True and D.PRIM[tn] in ('float', 'double') and info.v.clamped) or (fcl and not case.get('noexclude'))
        # (iv) pure differential
        if ok is None and info == 'signed-zero-in-sign-restricted-integer' and not case.get('noexclude'):
            note.excluded['C09-xsvalue-negative-zero'] = note.excluded.get('C09-xsvalue-negative-zero', 0) + 1; continue
        if d_ok != xv_ok: return False, 'entry points disagree on %s: XSValue::validate=%s DatatypeValidator::validate=%s  [model: %s %s]' % (where, xv_ok, d_ok, ok, info if ok is not True else '')
        if pv is not None and pv[i] != d_ok:
            return False, 'entry points disagree on %s: in-parse(%s, %s)=%s DatatypeValidator::validate=%s  [model: %s]' % (where, 'element' if i % 2 == 0 else 'attribute', case.get('scanner'), pv[i], d_ok, ok)
        if ok is None:
            note.unsure[info] = note.unsure.get(info, 0) + 1
            note.note(h, False, lab2); continue
        note.note(h, nontrivial(lab), lab2)
        # (i) accept <=> model
        if xv_ok != ok: return False, 'XSValue::validate(%s) = %s but the model says %s (%s)' % (where, xv_ok, ok, info if ok is False else 'in the lexical and value space')
        if ok and xf['v'] != '1:Init': return False, 'XSValue::validate(%s) accepted with status %s' % (where, xf['v'])
        if not ok:
            if c_val != '\\N' or a_val != '\\N': return False, 'XSValue returned canonical %r / actual %r for the invalid %s' % (c_val, a_val, where)
            if c_status == 'Init' or a_status == 'Init': return False, 'XSValue left status Init for the invalid %s (c=%s a=%s)' % (where, c_status, a_status)
            if d_can not in ('can\t\\N',) and not d_can.startswith('exc'): return False, 'DatatypeValidator canonical (toValidate) of the invalid %s: %s' % (where, d_can)
            continue
        # (iii) canonical forms
        if tn in XSV_CANON:
            if blank:
                if c_status != 'NoContent' or c_val != '\\N': return False, 'XSValue canonical of blank content for %s: %s:%s' % (tn, c_status, c_val)
            elif c_status != 'Init' or c_val == '\\N': return False, 'XSValue::getCanonicalRepresentation(%s) failed with %s' % (where, c_status)
            else:
                can = xv.unesc(c_val)
                p = check_canonical(tn, info, proc, can, 'XSValue', note, exact=not clamped)
                if p: return False, p
                if not clamped: second.append((i, 'x', can))
        else:
            if not blank and (c_val != '\\N' or c_status != 'NoCanRep'): return False, 'XSValue canonical for %s: expected NoCanRep, got %s:%s' % (where, c_status, c_val)
        if d_can.startswith('can\t') and d_can != 'can\t\\N':
            can = xv.unesc(d_can[4:])
            p = None if clamped else check_canonical(tn, info, proc, can, 'DatatypeValidator', note)
            if p: return False, p
            if not clamped: second.append((i, 'd', can))
        elif d_can.startswith('exc'):
            return False, 'DatatypeValidator::getCanonicalRepresentation(%s) threw: %s' % (where, d_can)
        # (iv') actual value
        if not blank:
            p = check_actual(tn, info, proc, a_status, a_val)
            if p: return False, 'XSValue::getActualValue(%s): %s' % (where, p)
    # idempotence
    if second:
        xs2 = [l for l in ex.request({'kind': 'xsv', 'items': '\n'.join('%s\t%s' % (tn, xv.esc(c)) for _, w, c in second if w == 'x')}).split('\n') if l]
        _, dl2 = dtv_request(ex, [], [('k', tn, c, '1') for _, w, c in second if w == 'd'])
        xi = di = 0
        for i, w, c in second:
            judged = D.verdict(tn, c)[0] is not None      # e.g. a canonical form with year 0000 lies in an R2 zone
            if w == 'x':
                got = dict(p.split('=', 1) for p in xs2[xi].split('\t'))['c'].split(':', 1)[1]; xi += 1
            else:
                got = dl2[di][4:] if dl2[di].startswith('can\t') else dl2[di]; di += 1
            if judged and xv.unesc(got) != c:
                return False, '%s canonical form is not idempotent for %s: %r -> %r -> %r' % ('XSValue' if w == 'x' else 'DatatypeValidator', tn, rows[i][1], c, xv.unesc(got))
    return True, 'ok'

# ------------------------------------------------------------------------------------------------
# lane: order
# ------------------------------------------------------------------------------------------------
def sgn(x): return -1 if x < 0 else 1 if x > 0 else 0

def check_order(case, ex, note):
    tn = case['type']; kind = D.PRIM[tn]
    triples = []
    for tr in case['triples']:
        vals = []
        for l in tr:
            if not case.get('noexclude') and known_class(tn, l, 'order'): vals = None; break
            ok, info = D.verdict(tn, l)
            if ok is not True: vals = None; break
            vals.append(info)
        if vals and all(D.ws_process(l, D.ws_of(tn)) == l for l in tr): triples.append((tr, vals))
    if not triples: return True, 'ok'
    ops = []
    PAIRS = [(0, 1), (1, 0), (1, 2), (0, 2), (0, 0), (2, 1)]
    for tr, vals in triples:
        for (i, j) in PAIRS: ops.append(('c', tn, tr[i], tr[j]))
    _, dl = dtv_request(ex, [], ops)
    if len(dl) != len(ops): return False, 'dtv answered %d lines for %d ops' % (len(dl), len(ops))
    for t, (tr, vals) in enumerate(triples):
        res = {}
        for p, (i, j) in enumerate(PAIRS):
            r = dl[t * len(PAIRS) + p]
            if not re.match(r'-?[0-9]+\Z', r): return False, 'compare(%r, %r) on %s: %s' % (tr[i], tr[j], tn, r)
            res[(i, j)] = int(r)
        labs = ['type:' + tn, 'lane:order']
        eqdiff = False
        for (i, j) in PAIRS:
            try:
                m = D.compare_values(kind, vals[i].v, vals[j].v)
            except D.Unsure as u:
                note.unsure[u.cls] = note.unsure.get(u.cls, 0) + 1; labs.append('model:unsure'); continue
            r = res[(i, j)]
            where = 'compare(%r, %r) on %s' % (tr[i], tr[j], tn)
            if m == D.EQ and tr[i] != tr[j]:
                eqdiff = True
                if kind in ('hexBinary', 'base64Binary') and not case.get('noexclude'):
                    note.excluded['C09-binary-compare-lexical'] = note.excluded.get('C09-binary-compare-lexical', 0) + 1; continue
            if m in (D.LT, D.EQ, D.GT):
                if tn in ORDERED:
                    if r != m: return False, '%s = %d, model order says %d' % (where, r, m)
                else:
                    if (r == 0) != (m == D.EQ): return False, '%s = %d, model equality says %s' % (where, r, m == D.EQ)
            else:
                labs.append('model:indeterminate' if m == D.INDET else 'model:ne')
                if r == 0: return False, '%s = 0 but the values are %s' % (where, 'incomparable (indeterminate)' if m == D.INDET else 'different')
        # pure axioms, independent of the model: reflexivity, antisymmetry, transitivity (totally ordered kinds only)
        if res[(0, 0)] != 0: return False, 'compare(%r, %r) on %s = %d (not reflexive)' % (tr[0], tr[0], tn, res[(0, 0)])
        if kind == 'decimal' or (kind in ('float', 'double') and all(v.v.kind != 'nan' for v in vals)):
            if sgn(res[(0, 1)]) != -sgn(res[(1, 0)]): return False, 'antisymmetry: compare(%r,%r)=%d compare(%r,%r)=%d on %s' % (tr[0], tr[1], res[(0, 1)], tr[1], tr[0], res[(1, 0)], tn)
            if sgn(res[(1, 2)]) != -sgn(res[(2, 1)]): return False, 'antisymmetry: compare(%r,%r)=%d compare(%r,%r)=%d on %s' % (tr[1], tr[2], res[(1, 2)], tr[2], tr[1], res[(2, 1)], tn)
            a, b, c = sgn(res[(0, 1)]), sgn(res[(1, 2)]), sgn(res[(0, 2)])
            if a <= 0 and b <= 0 and not (c <= 0 and (c < 0 or (a == 0 and b == 0))): return False, 'transitivity: %r<=%r<=%r but compare(a,c)=%d on %s' % (tr[0], tr[1], tr[2], res[(0, 2)], tn)
            if a >= 0 and b >= 0 and not (c >= 0 and (c > 0 or (a == 0 and b == 0))): return False, 'transitivity: %r>=%r>=%r but compare(a,c)=%d on %s' % (tr[0], tr[1], tr[2], res[(0, 2)], tn)
        if eqdiff: labs.append('eq:equal-value-different-literal')
        note.note(xv.sha(['order', tn, tr]), eqdiff or nontrivial(case.get('labels', [])), labs)
    return True, 'ok'

# ------------------------------------------------------------------------------------------------
# lane: derived
# ------------------------------------------------------------------------------------------------
def safe_pattern_match(p, s):
    return re.fullmatch(p.replace('\\d', '[0-9]'), s) is not None

def binary_enum_value_only(types, target, proc):
    """a hexBinary/base64Binary enumeration is involved and no token of the literal is lexically identical to an enumeration literal"""
    for t in types:
        if isinstance(t, D.Restr) and t.enums and D.PRIM.get(D.root_builtin(t)) in ('hexBinary', 'base64Binary'):
            toks = proc.split(' ') if D.variety(target) == 'list' else [proc]
            if any(tok not in t.enums for tok in toks): return True
    return False

def check_derived(case, ex, note):
    types, env = types_from_json(case['types'])
    target = env[case['target']]
    lits = case['lits']; labels = case.get('labels') or [[] for _ in lits]
    ws = D.ws_of(target)
    rb = None
    rows = []
    for raw, lab in zip(lits, labels):
        proc = D.ws_process(raw, ws)
        if not case.get('noexclude'):
            kid = None
            for piece in (proc.split(' ') if D.variety(target) != 'atomic' else [proc]):
                for bt in case.get('builtins', []):
                    kid = kid or known_class(bt, piece, 'derived')
            if kid:
                note.excluded[kid] = note.excluded.get(kid, 0) + 1; continue
        ok, info = D.verdict(target, raw, safe_pattern_match)
        rows.append((raw, proc, ok, info, lab))
    if not rows: return True, 'ok'
    ops = [('w', target.name)] + [('v', target.name, r[1]) for r in rows]
    tres, dl = dtv_request(ex, types, ops)
    badtypes = [n for n, r in tres.items() if r[0] != 'ok']
    if badtypes:
        # the factory refused a definition the generator believed legal: schema-level question (C08), not asserted here
        note.unsure['type-definition-refused'] = note.unsure.get('type-definition-refused', 0) + 1
        note.samples.append({'refused': case['types'], 'why': tres})
        return True, 'ok'
    if len(dl) != len(ops): return False, 'dtv answered %d lines for %d ops' % (len(dl), len(ops))
    if dl[0] != 'ws\t%d' % D.WSCODE[ws]: return False, 'whiteSpace facet of derived type %s: %s, expected %s; types=%r' % (target.name, dl[0], ws, case['types'])
    pv = None
    if case.get('parse'):
        pv, problem = run_parse(ex, schema_for(types, target.name), [r[0] for r in rows], case.get('scanner', 'IG'))
        if problem:
            if 's.xsd' in problem:
                note.unsure['schema-refused'] = note.unsure.get('schema-refused', 0) + 1
                note.samples.append({'schema-refused': case['types'], 'why': problem})
                return True, 'ok'
            return False, 'in-parse lane: unexpected %r' % problem
    tdesc = json.dumps(case['types'], ensure_ascii=True)
    for i, (raw, proc, ok, info, lab) in enumerate(rows):
        r = dl[1 + i]
        if r.startswith('exc') or r == 'notype': return False, 'validate(%r) on %s: %s' % (proc, tdesc, r)
        d_ok = r == 'ok'
        h = xv.sha(['derived', case['types'], case['target'], raw])
        lab2 = list(lab) + ['lane:derived', 'variety:' + D.variety(target), 'model:' + {True: 'valid', False: 'invalid', None: 'unsure'}[ok]] + ['facet:' + f for t in types if isinstance(t, D.Restr) for f in list(t.facets) + (['enumeration'] if t.enums else [])]
        if pv is not None and pv[i] != d_ok:
            return False, 'entry points disagree on literal %r (processed %r) of %s: in-parse(%s, %s)=%s DatatypeValidator::validate=%s [model %s]' % (raw, proc, tdesc, 'element' if i % 2 == 0 else 'attribute', case.get('scanner'), pv[i], d_ok, ok)
        if ok is None:
            note.unsure[info] = note.unsure.get(info, 0) + 1; note.note(h, False, lab2); continue
        note.note(h, nontrivial(lab), lab2)
        if d_ok != ok and ok and not case.get('noexclude') and binary_enum_value_only(types, target, proc):
            note.excluded['C09-binary-compare-lexical'] = note.excluded.get('C09-binary-compare-lexical', 0) + 1; continue
        if d_ok != ok:
            return False, 'DatatypeValidator::validate(%r) (raw %r) = %s on %s but the model says %s (%s)' % (proc, raw, d_ok, tdesc, ok, info if ok is False else 'valid')
    return True, 'ok'

def check_case(case, ex, note):
    D.KNOWN_OFF = bool(case.get('noexclude'))
    try:
        if case['lane'] == 'builtin': return check_builtin(case, ex, note)
        if case['lane'] == 'order': return check_order(case, ex, note)
        return check_derived(case, ex, note)
    except xv.ExecutorDied as e:
        return False, 'executor died rc=%s\n%s' % (e.rc, e.stderr[-3000:])

# ------------------------------------------------------------------------------------------------
# strategies
# ------------------------------------------------------------------------------------------------
def type_pool(tier):
    return ALL_TYPES

@st.composite
def builtin_case(draw, nlits):
    tn = draw(st.sampled_from(ALL_TYPES))
    pairs = draw(st.lists(D.gen_literal(tn).flatmap(lambda ll: D.decorate_ws(ll, tn)), min_size=1, max_size=nlits))
    return {'lane': 'builtin', 'type': tn, 'lits': [p[0] for p in pairs], 'labels': [p[1] for p in pairs],
            'parse': draw(st.integers(0, 2)) == 0, 'scanner': draw(st.sampled_from(['IG', 'SG']))}

ORDER_TYPES = ['decimal', 'integer', 'long', 'int', 'unsignedByte', 'nonNegativeInteger', 'float', 'double', 'dateTime', 'date', 'time', 'boolean', 'hexBinary',
               'base64Binary', 'gYearMonth', 'gYear', 'gMonthDay', 'gDay', 'gMonth', 'duration', 'string', 'token']

def valid_literal(tn, tries=6):
    base = D.gen_literal(tn).map(lambda ll: ll[0]).filter(lambda l: D.verdict(tn, l)[0] is True and D.ws_process(l, D.ws_of(tn)) == l and not known_class(tn, l, 'order'))
    return base

@st.composite
def order_case(draw, ntriples):
    tn = draw(st.sampled_from(ORDER_TYPES))
    triples = []
    for _ in range(draw(st.integers(1, ntriples))):
        if tn in D.RE_DT and draw(st.booleans()):
            # three values around one day/month/year boundary, zones of both signs and none: normalisation carries, +-14 h window edges
            g = draw(D.carry_group(tn, 3).filter(lambda g: all(D.verdict(tn, l)[0] is True for l in g)))
            if draw(st.booleans()): g[1] = draw(D.variant(tn, g[0]))
            triples.append(g); continue
        a = draw(valid_literal(tn))
        b = draw(D.variant(tn, a)) if draw(st.booleans()) else draw(valid_literal(tn))
        k = draw(st.integers(0, 3))
        c = draw(valid_literal(tn)) if k < 2 else draw(D.variant(tn, b)) if k == 2 else a
        triples.append([a, b, c])
    return {'lane': 'order', 'type': tn, 'triples': triples}

FACET_BASES = ['decimal', 'integer', 'int', 'short', 'unsignedByte', 'positiveInteger', 'long', 'float', 'double', 'dateTime', 'dateTime', 'date', 'time', 'hexBinary', 'base64Binary',
               'string', 'normalizedString', 'token', 'boolean', 'gYear', 'gYearMonth', 'gMonthDay', 'gDay', 'gMonth', 'duration', 'NCName', 'language']
# patterns avoid '.', whose treatment of U+2028/U+0085 belongs to the regular-expression property (C11)
PATTERNS = {'decimal': ['[0-9]+', '-?[0-9]+\\.[0-9][0-9]', '\\d{1,3}', '[+-]?[0-9.]*'], 'string': ['[a-c]*', '[a-zA-Z0-9 ]*', '[^#]{0,3}', '[^ ]*'],
            'hexBinary': ['[0-9A-F]*', '([0-9a-f][0-9a-f]){2}'], 'boolean': ['true|false', '[01]'], 'dateTime': ['[^#]*Z', '[^Z]*', '2[^#]*'], 'float': ['[0-9]+', '[^eE]*', '[^#]*E[^#]*']}

def _nudge_decimal(lit, delta_units):
    try: v = D.parse_decimal(lit)
    except D.Invalid: return lit
    fd = D.dec_digits(v)[1]
    return format(v + Decimal(delta_units) * (Decimal(10) ** -fd), 'f')

@st.composite
def derived_case(draw, nlits):
    bt = draw(st.sampled_from(FACET_BASES)); kind = D.PRIM[bt]
    p = draw(valid_literal(bt)); q = draw(valid_literal(bt))
    if bt in D.RE_DT and draw(st.booleans()):
        p, q = draw(D.carry_group(bt, 2).filter(lambda g: all(D.verdict(bt, l)[0] is True for l in g)))      # facet bound and instance around one boundary
    pv = draw(D.variant(bt, p))
    pool = [(p, ['bd:facet-pivot']), (pv, ['bd:facet-pivot-variant']), (q, ['plain'])]
    val = D.verdict(bt, p)[1]
    facets = {}; enums = []
    fam_choices = ['enum', 'pattern'] if bt != 'boolean' else ['pattern']     # enumeration is not a facet of boolean
    if bt in ORDERED: fam_choices += ['bounds', 'bounds', 'bounds']
    if kind == 'decimal': fam_choices += ['digits', 'digits']
    if kind in ('string', 'hexBinary', 'base64Binary'): fam_choices += ['length', 'length']
    if bt in ('string', 'normalizedString'): fam_choices += ['ws']
    fam = draw(st.sampled_from(fam_choices))
    flabel = []
    if fam == 'bounds':
        cands = [p, pv, q]
        if kind == 'decimal':
            for d in (-1, 1):
                n = _nudge_decimal(p, d)
                if bt == 'decimal' or (D.verdict(bt, n)[0] is True): cands.append(n); pool.append((n, ['bd:facet-bound+-1unit']))
        b1 = draw(st.sampled_from(cands)); f1 = draw(st.sampled_from(['minInclusive', 'minExclusive', 'maxInclusive', 'maxExclusive']))
        facets[f1] = b1
        if draw(st.booleans()):
            b2 = draw(st.sampled_from(cands)); f2 = draw(st.sampled_from(['maxInclusive', 'maxExclusive'] if f1.startswith('min') else ['minInclusive', 'minExclusive']))
            try:
                lo, hi = (b1, b2) if f1.startswith('min') else (b2, b1)
                c = D.compare_values(kind, D.verdict(bt, lo)[1].v, D.verdict(bt, hi)[1].v)
                if c == D.LT: facets[f2] = b2
            except (D.Unsure, AttributeError): pass
        if kind in ('float', 'double') and any(D.verdict(bt, b)[1].v.kind == 'nan' for b in facets.values()): facets = {f1: q if D.verdict(bt, q)[1].v.kind != 'nan' else '1'}
    elif fam == 'digits':
        td, fd, _ = D.dec_digits(val.v)
        if bt == 'decimal' and draw(st.booleans()):
            facets['fractionDigits'] = str(max(0, fd + draw(st.sampled_from([-1, 0, 0, 1]))))
            if draw(st.booleans()): facets['totalDigits'] = str(max(1, int(facets['fractionDigits']), td + draw(st.sampled_from([-1, 0, 1]))))
        else:
            facets['totalDigits'] = str(max(1, td + draw(st.sampled_from([-1, 0, 0, 1]))))
        flabel = ['bd:facet-digit-count+-1']
    elif fam == 'length':
        ln = D.value_length(kind, val.v)
        f = draw(st.sampled_from(['length', 'minLength', 'maxLength']))
        facets[f] = str(max(0, ln + draw(st.sampled_from([-1, 0, 0, 1]))))
        if f == 'minLength' and draw(st.booleans()): facets['maxLength'] = str(int(facets[f]) + draw(st.integers(0, 2)))
        flabel = ['bd:facet-length+-1']
    elif fam == 'enum':
        enums = [pv] + ([q] if draw(st.booleans()) else [])
        if kind in ('float', 'double') and any(D.verdict(bt, e)[1].v.kind == 'nan' for e in enums): enums = ['1.0', '2']
        flabel = ['bd:facet-enum-variant']
    elif fam == 'pattern':
        pk = kind if kind in PATTERNS else ('decimal' if kind == 'decimal' else 'string' if kind == 'string' else None)
        if bt in D.RE_DT: pk = 'dateTime'
        if kind == 'double': pk = 'float'
        facets['pattern'] = draw(st.sampled_from(PATTERNS.get(pk, ['[^#]*', '[^#]{0,4}', '[^ ]*'])))
    else:
        facets['whiteSpace'] = draw(st.sampled_from(['replace', 'collapse'] if bt == 'string' else ['collapse']))
    defs = [{'k': 'R', 'name': 'T1', 'base': bt, 'facets': facets, 'enums': enums}]
    target = 'T1'
    # optional second restriction step with another facet family (chain) -- enumeration of literals valid for T1
    T1 = types_from_json(defs)[1]['T1']
    shape = draw(st.sampled_from(['atomic', 'atomic', 'chain', 'list', 'listR', 'union', 'listOfUnion', 'unionOfList']))
    other = draw(st.sampled_from(['boolean', 'int', 'date', 'NCName', 'decimal', 'hexBinary']))
    item_ok = kind != 'string' or bt in ('NCName', 'language')          # list items must not contain spaces
    if shape in ('list', 'listR', 'listOfUnion', 'unionOfList') and not item_ok: shape = 'union'
    extra = [draw(D.gen_literal(bt)) for _ in range(draw(st.integers(0, nlits)))]
    lits = pool + [(l, lab + flabel) for l, lab in extra]
    if shape == 'chain':
        cand = [l for l, _ in lits if D.verdict(T1, l, safe_pattern_match)[0] is True]
        if cand and bt != 'boolean':
            defs.append({'k': 'R', 'name': 'T2', 'base': 'T1', 'facets': {}, 'enums': [draw(st.sampled_from(cand))]}); target = 'T2'
    elif shape in ('list', 'listR'):
        defs.append({'k': 'L', 'name': 'L1', 'item': 'T1'}); target = 'L1'
        groups = draw(st.lists(st.lists(st.sampled_from([l for l, _ in lits]), min_size=0, max_size=4), min_size=1, max_size=max(1, nlits // 2)))
        sep = lambda: draw(st.sampled_from([' ', ' ', '  ', '\n', '\t ', ' \r\n']))
        if shape == 'listR':
            n = draw(st.integers(0, 4)); f = draw(st.sampled_from(['length', 'minLength', 'maxLength']))
            defs.append({'k': 'R', 'name': 'L2', 'base': 'L1', 'facets': {f: str(n)}, 'enums': []}); target = 'L2'
        lits = []
        for g in groups:
            s = ''
            for x in g: s += (sep() if s else draw(st.sampled_from(['', '', ' ']))) + x
            lits.append((s + draw(st.sampled_from(['', '', ' ', '\n'])), ['bd:list-items-%d' % len(g)] + (['bd:facet-length+-1'] if shape == 'listR' else [])))
    elif shape == 'union':
        order = draw(st.booleans())
        defs.append({'k': 'U', 'name': 'U1', 'members': ['T1', other] if order else [other, 'T1']}); target = 'U1'
        lits = lits + [(l, lab + ['bd:union-second-member']) for l, lab in [draw(D.gen_literal(other)) for _ in range(3)]]
    elif shape == 'listOfUnion':
        defs.append({'k': 'U', 'name': 'U1', 'members': ['T1', other]}); defs.append({'k': 'L', 'name': 'L1', 'item': 'U1'}); target = 'L1'
        toks = [l for l, _ in lits] + [draw(D.gen_literal(other))[0] for _ in range(3)]
        toks = [t for t in toks if t and not re.search(r'[ \t\n\r]', t)]
        groups = draw(st.lists(st.lists(st.sampled_from(toks or ['x']), max_size=4), min_size=1, max_size=max(1, nlits // 2)))
        lits = [(' '.join(g), ['bd:list-of-union']) for g in groups]
    elif shape == 'unionOfList':
        defs.append({'k': 'L', 'name': 'L1', 'item': 'T1'}); defs.append({'k': 'U', 'name': 'U1', 'members': [other, 'L1']}); target = 'U1'
        toks = [l for l, _ in lits if l and not re.search(r'[ \t\n\r]', l)]
        groups = draw(st.lists(st.lists(st.sampled_from(toks or ['x']), max_size=3), min_size=1, max_size=max(1, nlits // 2)))
        lits = [(' '.join(g), ['bd:union-of-list']) for g in groups] + [(draw(D.gen_literal(other))[0], ['bd:union-first-member'])]
    if shape in ('atomic', 'chain', 'union'):
        lits = [draw(D.decorate_ws((l, lab), bt)) if draw(st.booleans()) else (l, lab) for l, lab in lits]
    return {'lane': 'derived', 'types': defs, 'target': target, 'builtins': [bt, other], 'lits': [l for l, _ in lits], 'labels': [lab + flabel if not lab[-1:] == flabel[-1:] else lab for l, lab in lits],
            'parse': draw(st.integers(0, 1)) == 0, 'scanner': draw(st.sampled_from(['IG', 'SG']))}

def case_strategy(tier):
    n = 24 if tier == 'quick' else 32
    return st.one_of(builtin_case(n), builtin_case(n), order_case(8), derived_case(10), derived_case(10))

# ------------------------------------------------------------------------------------------------
# worker / replay
# ------------------------------------------------------------------------------------------------
def flush(note, stats):
    for h, nt, labels in note.rows: stats.note(h, nt, labels)
    d = stats.extra.setdefault('unsure_classes', {})
    for k, v in note.unsure.items():
        if k.startswith('known:'): stats.excluded_known[k[6:]] += v
        else: d[k] = d.get(k, 0) + v
    for k, v in note.excluded.items(): stats.excluded_known[k] += v
    for s in note.samples:
        lst = stats.extra.setdefault('refused_definitions', [])
        if len(lst) < 5: lst.append(s)

def enum_batches():
    """small exhaustive sub-spaces (run once per run by worker 0): every base64 final quantum character, leap-day x century years,
    every integer type's range ends +-1"""
    out = []
    out.append({'lane': 'builtin', 'type': 'base64Binary', 'lits': ['A' + c + '==' for c in D.B64], 'parse': True, 'scanner': 'IG'})
    out.append({'lane': 'builtin', 'type': 'base64Binary', 'lits': ['AA' + c + '=' for c in D.B64], 'parse': True, 'scanner': 'SG'})
    years = ['0004', '0100', '0400', '1600', '1700', '1800', '1900', '2000', '2023', '2024', '2100', '2200', '2300', '2400', '3000', '10000', '12300', '12400']
    for t, suf in (('date', ''), ('dateTime', 'T12:00:00'), ('date', 'Z'), ('dateTime', 'T00:00:00-05:00')):
        out.append({'lane': 'builtin', 'type': t, 'lits': ['%s-02-%s%s' % (y, d, suf) for y in years for d in ('28', '29', '30')], 'parse': True, 'scanner': 'IG'})
    out.append({'lane': 'builtin', 'type': 'gYearMonth', 'lits': ['%s-%s' % (y, m) for y in years[:6] for m in ('00', '01', '12', '13')], 'parse': True, 'scanner': 'SG'})
    out.append({'lane': 'builtin', 'type': 'gMonthDay', 'lits': ['--%02d-%02d' % (m, d) for m in range(1, 13) for d in (28, 29, 30, 31, 32)], 'parse': True, 'scanner': 'IG'})
    for tn, (lo, hi) in D.INT_RANGES.items():
        lits = []
        for b in (lo, hi):
            if b is not None: lits += [str(b - 1), str(b), str(b + 1), ' %d ' % b, ('-0' if b < 0 else '0') + str(abs(b))]
        out.append({'lane': 'builtin', 'type': tn, 'lits': lits + ['0', '1', '-1'], 'parse': True, 'scanner': 'IG'})
    for c in out: c['labels'] = [['bd:enumerated-boundary'] for _ in c['lits']]
    out += carry_batches()
    return out

def carry_batches():
    """time-zone normalisation carries/borrows across day, month (incl. leap February) and year boundaries, both zone signs up to 14:00:
    canonical form + XSValue actual value (builtin), order against the UTC form and the unzoned local form (order), enumeration /
    minInclusive / maxInclusive written in UTC against the zoned instance in a parse (derived)"""
    out = []
    bounds = [(2002, 1, 1), (2000, 1, 1), (10000, 1, 1), (2000, 3, 1), (2001, 3, 1), (2001, 7, 1), (2001, 6, 15)]
    deltas = [-840, -300, -90, -1, 0, 30, 300, 839]
    zones = [-840, -300, -1, 1, 330, 840]
    for t in ('dateTime', 'date', 'time', 'gYearMonth', 'gYear', 'gMonthDay', 'gDay', 'gMonth'):
        dl = deltas if t in ('dateTime', 'time') else [-1440, 0, 1440]
        lits = sorted(set(D.carry_literal(t, b, d, z) for b in (bounds if t != 'time' else bounds[:1]) for d in dl for z in zones + [None, 0]))
        lits = [l for l in lits if D.verdict(t, l)[0] is True]
        for i in range(0, len(lits), 60):
            out.append({'lane': 'builtin', 'type': t, 'lits': lits[i:i + 60], 'parse': i == 0, 'scanner': 'IG', 'labels': [['bd:zone-carry', 'bd:enumerated-boundary']] * len(lits[i:i + 60])})
    triples = []; dcases = []
    for b in bounds:
        for d in deltas:
            for z in zones:
                lit = D.carry_literal('dateTime', b, d, z)
                v = D.parse_datetime('dateTime', lit)
                utc = D.canon_datetime(v)
                local = lit[:19]
                triples.append([lit, utc, local])
                if len(dcases) < 120 and (d, z) in ((-90, -300), (-1, -1), (0, 1), (30, 330), (-840, -840), (839, 840), (300, 840), (-300, -840)):
                    for facets, enums in (({}, [utc]), ({'minInclusive': utc, 'maxInclusive': utc}, []), ({'minExclusive': utc}, []), ({'maxExclusive': utc}, [])):
                        dcases.append({'lane': 'derived', 'types': [{'k': 'R', 'name': 'T1', 'base': 'dateTime', 'facets': facets, 'enums': enums}], 'target': 'T1', 'builtins': ['dateTime'],
                                       'lits': [lit, utc, local], 'labels': [['bd:zone-carry', 'bd:facet-pivot-variant']] * 3, 'parse': True, 'scanner': 'IG' if len(dcases) % 2 else 'SG'})
    for i in range(0, len(triples), 40):
        out.append({'lane': 'order', 'type': 'dateTime', 'triples': triples[i:i + 40], 'labels': ['bd:zone-carry']})
    for t in ('date', 'gYearMonth', 'gYear', 'gMonthDay', 'gDay', 'gMonth', 'time'):
        tr = []
        for b in bounds[:5]:
            for z1, z2 in ((840, -840), (-300, 330), (1, None), (-840, None), (840, None), (0, 300)):
                tr.append([D.carry_literal(t, b, 0, z1), D.carry_literal(t, b, -1440 if t != 'time' else -300, z2), D.carry_literal(t, b, 1440 if t != 'time' else 300, z1)])
        tr = [x for x in tr if all(D.verdict(t, l)[0] is True for l in x)]
        out.append({'lane': 'order', 'type': t, 'triples': tr, 'labels': ['bd:zone-carry']})
    return out + dcases

def worker(ctx):
    ex = ctx.executor('xv_dtype')
    if ctx.worker == 0:
        for case in enum_batches():
            note = Note()
            ok, detail = check_case(case, ex, note)
            flush(note, ctx.stats)
            ctx.stats.extra['exhaustive'] = ctx.stats.extra.get('exhaustive', 0) + len(case.get('lits') or case.get('triples'))
            if not ok: ctx.stats.failures.append({'case': case, 'detail': detail})
    def prop(case):
        note = Note()
        ok, detail = check_case(case, ex, note)
        flush(note, ctx.stats)
        if case['lane'] == 'builtin': ctx.stats.sample({'lane': 'builtin', 'type': case['type'], 'lits': case['lits'][:4]}, limit=2)
        elif case['lane'] == 'derived': ctx.stats.sample({'lane': 'derived', 'types': case['types'], 'lits': case['lits'][:3]}, limit=4)
        if not ok: raise PropertyFailure(case, detail)
    hyp_run(ctx, case_strategy(ctx.tier), prop, ctx.budget)

def replay(case, ctx):
    return check_case(case, ctx.executor('xv_dtype'), Note())

def classify(case, detail):
    return case.get('known')

def known_witnesses():
    out = []
    for path in sorted(glob.glob(os.path.join(VERIF, 'regress-known', 'C09', '*.json'))):
        obj = json.load(open(path)); out.append((obj['finding'], obj['case']))
    return out
