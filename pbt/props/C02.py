"""C02 -- fatal error iff the document is not well-formed (M1 positives + single-constraint mutants, pyexpat witness)."""
import base64
from hypothesis import strategies as st
import xv, xmlmodel as xm, wfmut
from driver import hyp_run, PropertyFailure

ID = 'C02'
HARNESS = {'asan': ['xvexec']}
RULE = ('positive: M1 documents (well-formed by construction, random lexical forms, XML 1.0 and 1.1, UTF-8/UTF-16) must give zero fatal errors and no '
        'exception under a drawn (API, scanner, namespaces) cell; negative: the same rendering with ONE well-formedness / namespace / encoding '
        'constraint broken by a mutation operator at a drawn site must give >=1 fatal error or documented exception. pyexpat must accept the positive '
        'and reject the mutant (XML 1.0) or the case is dropped. non-trivial: positive = document has a DOCTYPE, entity reference, CDATA, non-ASCII or '
        'namespace declaration; negative = every mutant that both witnesses call not well-formed; distinct by sha1(bytes, api, scanner, ns).  In 3 of 5 cases the '
        'parser object has first parsed a warm-up document (an XML 1.1 document with NEL and a C0 reference, a DTD document with entities and defaulted namespace '
        'attributes, or a malformed XML 1.1 document): the verdict on the document under test must be that of a fresh parser.')
ASSUMPTIONS = ['pyexpat 2.5 (namespace mode when namespaces are on) is a correct XML 1.0 well-formedness witness; cases where it disagrees with the '
               'generator are dropped and counted',
               'XML 1.1 lane: no second witness; restricted to operators that are violations under every reading (wfmut.OPS_V11)',
               'WF and SG scanners are only used on DOCTYPE-free documents (documented to skip/forbid the DOCTYPE)',
               'continue-after-fatal-error stays at its default (off)']
BUDGET = {'quick': 450, 'thorough': 6000}
WALLCAP = {'quick': 500, 'thorough': 3600}

APIS = ['sax1', 'sax2', 'dom', 'domls', 'psax2', 'pdom', 'psax1']
KNOWN_EXCLUDED = set()        # finding ids whose class is removed from generation (see known_findings.json)

def verdict(resp):
    events, extra = xv.parse_ced(resp)
    fatal = [e for e in events if e[0] == 'ERR' and e[3] == 'F']
    exc = [e for e in events if e[0] == 'EXC']
    return fatal, exc, events

@st.composite
def case_strategy(draw):
    d = draw(xm.gen_doc())
    api = draw(st.sampled_from(APIS))
    ns = draw(st.booleans())
    opset = wfmut.OPS_ANY + wfmut.OPS_BYTES + (wfmut.OPS_NS if ns else [])
    op = draw(st.sampled_from(opset))
    k = draw(st.integers(0, 10000))
    scanner_any = draw(st.sampled_from(['IG', 'WF', 'DG', 'SG']))
    scanner_dtd = draw(st.sampled_from(['IG', 'DG']))
    enc = draw(st.sampled_from(['utf-8', 'utf-8', 'utf-8-bom', 'utf-16le-bom', 'utf-16be-bom']))
    chunks = draw(st.sampled_from(['', '', '', '1', '3,1', '4096']))
    return d, api, ns, op, k, scanner_any, scanner_dtd, enc, chunks

# warm-up documents: in 3 of 5 cases the parser object has parsed one of these before it sees the document under test (a parser is a re-usable
# object; the verdict on a document must not depend on the previous one: XML version, DTD, entity and namespace state left behind)
PRES = [None, None,
        b'<?xml version="1.1"?><p:a xmlns:p="urn:p" xmlns="urn:d">\xc2\x85<b>&#1;</b></p:a>',
        b'<!DOCTYPE a [<!ENTITY e "x"><!ENTITY lt2 "&#38;#60;"><!ATTLIST a k CDATA "d" xmlns:q CDATA "urn:q"><!ELEMENT a ANY>]><a>&e;<q:b xmlns:r="urn:r"/></a>',
        b'<?xml version="1.1"?><a xmlns:p="urn:p"><p:b></a>']
def mk_case(kind, api, scanner, ns, data, fbytes, chunks, op=None, preview=''):
    if scanner == 'SG': ns = True
    pre = PRES[int(xv.sha([base64.b64encode(data).decode(), api, scanner])[:6], 16) % len(PRES)]
    feat = 'ns=%d;nsp=0;scanner=%s;val=0;loaddtd=1' % (ns, scanner)
    return {'kind': kind, 'api': api, 'feat': feat, 'chunks': chunks, 'chunk1': xm.safe_first_read(data), 'op': op,
            'doc_b64': base64.b64encode(data).decode(), 'files_b64': {k: base64.b64encode(v).decode() for k, v in fbytes.items()},
            'doc_preview': preview[:300], 'pre_b64': base64.b64encode(pre).decode() if pre else None}

def run_case(case, ex):
    req = {'kind': 'parse', 'api': case['api'], 'feat': case['feat'], 'doc': base64.b64decode(case['doc_b64'])}
    if case.get('pre_b64'): req['pre'] = base64.b64decode(case['pre_b64'])
    if case.get('chunks'): req['chunks'] = case['chunks']; req['chunk1'] = str(case.get('chunk1', 0))
    for k, v in case['files_b64'].items(): req['ent:' + k] = base64.b64decode(v)
    try:
        resp = ex.request(req)
    except xv.ExecutorDied as e:
        return False, 'executor died rc=%s\n%s' % (e.rc, e.stderr[-3000:])
    fatal, exc, events = verdict(resp)
    foreign = [e for e in exc if e[1] in ('FOREIGN', 'BADAPI')]
    if foreign: return False, 'foreign exception escaped parse(): %r' % (foreign,)
    if case['kind'] == 'pos':
        if fatal or exc:
            return False, 'well-formed document rejected: %r %r' % (fatal[:3], exc[:3])
        errs = [e for e in events if e[0] == 'ERR' and e[3] == 'E']
        if errs: return False, 'well-formed document, validation off, yet errors reported: %r' % (errs[:3],)
        return True, 'ok'
    else:
        if not fatal and not exc:
            return False, 'not-well-formed document (operator %s) accepted silently; events: %r' % (case.get('op'), events[:12])
        return True, 'ok'

def worker(ctx):
    ex = ctx.executor('xvexec')
    S = ctx.stats
    def prop(c):
        d, api, ns, op, k, scanner_any, scanner_dtd, enc, chunks = c
        text, files = xm.render(d)
        scanner = scanner_dtd if d.doctype else scanner_any
        eff_ns = ns or scanner == 'SG'
        fbytes = {kk: v.replace('@ENC@', 'UTF-8').encode('utf-8') for kk, v in files.items()}
        # ---------- positive ----------
        data = xm.encode_doc(text, enc)
        ok_witness = True
        if d.version == '1.0':
            kind, ev = xm.expat_events(data, fbytes, eff_ns and d.use_ns)
            if kind != 'ok':
                S.oracle_disagreements += 1; ok_witness = False
                S.extra.setdefault('disagreement_samples', [])
                if len(S.extra['disagreement_samples']) < 3: S.extra['disagreement_samples'].append({'doc': text[:300], 'expat': str(ev)[:200]})
        if ok_witness and (eff_ns <= d.use_ns or not d.use_ns):
            # with namespaces on, a document generated without namespace discipline never contains colons, so it is namespace-well-formed too
            case = mk_case('pos', api, scanner, eff_ns, data, fbytes, chunks, preview=text)
            nt = bool(d.doctype or '&' in text or '<![CDATA[' in text or any(ord(ch) > 127 for ch in text) or 'xmlns' in text)
            S.note(xv.sha([case['doc_b64'], api, case['feat']]), nt, ['pos', 'api:' + api, 'scanner:' + scanner, 'ns:%d' % eff_ns, 'v' + d.version] + (['reused-parser'] if case.get('pre_b64') else []))
            S.sample({'kind': 'pos', 'api': api, 'feat': case['feat'], 'doc': text[:200]}, limit=2)
            ok, detail = run_case(case, ex)
            if not ok: raise PropertyFailure(case, detail)
        # ---------- negative ----------
        if d.version == '1.1' and op not in wfmut.OPS_V11: return
        if op in wfmut.OPS_NS and not eff_ns: return
        if op in wfmut.OPS_BYTES:
            base = text.replace('@ENC@', 'UTF-8').encode('utf-8', 'surrogatepass')
            if op == 'utf8-trunc-eof' and 'C02-truncated-utf8-at-eof' in KNOWN_EXCLUDED:
                S.excluded_known['C02-truncated-utf8-at-eof'] += 1; return
            mdata = wfmut.mutate_bytes(base, text.replace('@ENC@', 'UTF-8'), op, k)
            mtext = None
        else:
            mtext = wfmut.mutate(text, d, op, k)
            if mtext is None: S.labels['nosite:' + op] += 1; return
            menc = enc
            mdata = xm.encode_doc(mtext, menc)
        if mdata is None: S.labels['nosite:' + op] += 1; return
        mscanner = scanner
        if mscanner in ('WF', 'SG') and (mtext is not None and '<!DOCTYPE' in mtext): mscanner = scanner_dtd
        if d.version == '1.0':
            kind, ev = xm.expat_events(mdata, fbytes, eff_ns)
            if kind == 'ok':
                S.oracle_disagreements += 1; S.labels['expat-accepts:' + op] += 1
                return
        mf = dict(fbytes)
        if op == 'ext-entity-in-attr': mf['xatt.ent'] = b'xx'
        case = mk_case('neg', api, mscanner, eff_ns, mdata, mf, chunks, op=op, preview=(mtext or repr(mdata[-200:])))
        S.note(xv.sha([case['doc_b64'], api, case['feat']]), True, ['neg', 'op:' + op, 'opXscanner:%s:%s' % (op, mscanner), 'api:' + api] + (['reused-parser'] if case.get('pre_b64') else []))
        S.sample({'kind': 'neg', 'op': op, 'api': api, 'feat': case['feat'], 'doc': (mtext or '')[:200]}, limit=4)
        ok, detail = run_case(case, ex)
        if not ok: raise PropertyFailure(case, detail)
    hyp_run(ctx, case_strategy(), prop, ctx.budget)

def replay(case, ctx):
    return run_case(case, ctx.executor('xvexec'))

def classify(case, detail):
    if case.get('op') == 'utf8-trunc-eof': return 'C02-truncated-utf8-at-eof'
    if case.get('finding') == 'C02-extsubset-ends-with-peref' and "'194'" in detail: return 'C02-extsubset-ends-with-peref'
    return None

def known_witnesses():
    import json, os
    p = os.path.join(xv.VERIF, 'regress-known', 'C02', 'extsubset_ends_with_peref.json')
    return [('C02-extsubset-ends-with-peref', json.load(open(p))['case'])] if os.path.exists(p) else []
