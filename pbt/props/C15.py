"""C15 -- a parser's result is independent of its history; preloaded grammars are transparent (pure differential inside the executor)."""
import base64, glob, os
from hypothesis import strategies as st
import xv, fuzzlane
from driver import hyp_run, PropertyFailure

ID = 'C15'
HARNESS = {'asan': ['xvexec', 'fz_reuse']}
RULE = ('histories of 4-16 operations on ONE parser object (SAXParser, SAX2XMLReader, XercesDOMParser or DOMLSParser): parse of a document from a pool built to '
        'collide (same element / ID / entity / namespace names with different DTDs and schemas; valid, invalid, malformed at different depths, XML 1.1, UTF-16, '
        'standalone), progressive parse abandoned after k steps + parseReset, handler exception at the k-th callback, feature changes (scanner, namespaces, '
        'validation scheme, schema, full checking, use-cached-grammar, ...), loadGrammar(DTD|XSD, cache on/off), resetDocumentPool, resetCachedGrammarPool, '
        'adoptDocument.  Oracle (computed in the executor, no XML model): the canonical event dump incl. errors and positions of EVERY parse / loadGrammar in the '
        'history equals that of the same call on a freshly constructed parser with the same feature string and the same grammars preloaded; adopted documents '
        'dumped at the end equal their dump at adoption.  non-trivial = history contains a compared parse that follows a failed, abandoned or aborted parse on '
        'the same object; distinct by sha1(history).  lane T (transparency): histories over ONE grammar (a DTD referenced by system id, with and without an internal '
        'subset + ignoreCachedDTD, or a schema referenced by (noNamespace)schemaLocation) mixing loadGrammar(toCache), cacheGrammarFromParse, useCachedGrammarInParse, '
        'pool resets and failed parses; every `tparse` compares the parse on the history parser (cache in use) with a fresh parser that has nothing cached and reads '
        'the grammar inline: identical verdicts, positions, content, defaulted attributes and ignorable-whitespace classification (declaration events excluded); '
        'non-trivial = a grammar was in the cache at the compared parse.  lane F (coverage-guided, harness/fz_reuse): libFuzzer mutates two byte strings A and B, API, scanner '
        'and feature bits; the in-target oracle compares parse(B) on the parser that has just parsed A with parse(B) on a fresh parser (no caching features, PSVI off); counts executions.')
# known finding C15-psvi-null-xsmodel (see known_findings.json): with PSVI on, a re-used parser reports other type information than a fresh one (and parsing
# against a pool whose XSModel already exists calls getXSObject through a stale XSModel); psvi=1 is therefore not generated here (class excluded in FEATS below)
ASSUMPTIONS = ['persistent state is what the API documents: the feature/property map and the grammars cached through loadGrammar(toCache=true) since the last pool reset',
               'cacheGrammarFromParse is generated in lane T only, under its documented restrictions (no internal subset, no loadGrammar of an already cached grammar); a cached grammar the document does not reference is documented to be used for its namespace and is not generated; locked shared pools are covered by C17',
               'continue-after-fatal-error stays off']
BUDGET = {'quick': 260, 'thorough': 4000}
WALLCAP = {'quick': 500, 'thorough': 3600}

XSI = 'xmlns:xsi="http://www.w3.org/2001/XMLSchema-instance"'
DTDS = [
    '<!ELEMENT r (a*)><!ELEMENT a (#PCDATA)><!ATTLIST a id ID #IMPLIED k CDATA "d1"><!ENTITY e "one">',
    '<!ELEMENT r (a,b?)><!ELEMENT a (#PCDATA|i)*><!ELEMENT b EMPTY><!ELEMENT i EMPTY><!ATTLIST a id ID #REQUIRED k (u|v) "v" ref IDREF #IMPLIED><!ENTITY e "two<i/>">',
    '<!ELEMENT r ANY><!ELEMENT a ANY><!ATTLIST r xmlns CDATA #FIXED "urn:d"><!ATTLIST a k NMTOKENS " x  y " id CDATA #IMPLIED><!ENTITY e "&#60;a/>"><!NOTATION n SYSTEM "n"><!ENTITY u SYSTEM "u.bin" NDATA n>',
]
BODIES = [
    '<r><a id="x1">t&e;</a><a id="x2"/></r>', '<r><a id="x1">t</a></r>', '<r><a id="x1"/><a id="x1"/></r>', '<r><a id="x1" ref="nope">&e;</a><b/></r>',
    '<r><a>text<i/></a><b/></r>', '<r><a id="x1"><a id="x2">', '<r><a id="x1">&nosuch;</a></r>', '<r><b/><a/></r>', '<r>\n <a k="u"> m </a>\n</r>',
]
XSDS = [
    '<xs:schema xmlns:xs="http://www.w3.org/2001/XMLSchema"><xs:element name="r"><xs:complexType><xs:sequence><xs:element name="a" type="xs:int" maxOccurs="3"/></xs:sequence>'
    '<xs:attribute name="k" type="xs:string" default="s1"/></xs:complexType><xs:unique name="u"><xs:selector xpath="a"/><xs:field xpath="."/></xs:unique></xs:element></xs:schema>',
    '<xs:schema xmlns:xs="http://www.w3.org/2001/XMLSchema"><xs:element name="r"><xs:complexType><xs:sequence><xs:element name="a" type="xs:date" minOccurs="0"/><xs:element name="b" type="xs:ID" minOccurs="0" maxOccurs="2"/></xs:sequence>'
    '<xs:attribute name="k" type="xs:token" fixed="s2"/></xs:complexType></xs:element></xs:schema>',
    '<xs:schema xmlns:xs="http://www.w3.org/2001/XMLSchema" targetNamespace="urn:t" xmlns="urn:t" elementFormDefault="qualified"><xs:element name="r"><xs:complexType><xs:sequence><xs:element name="a" type="T" maxOccurs="unbounded"/></xs:sequence></xs:complexType></xs:element>'
    '<xs:simpleType name="T"><xs:restriction base="xs:string"><xs:pattern value="[a-c]{1,2}\\p{Nd}"/></xs:restriction></xs:simpleType></xs:schema>',
    '<xs:schema xmlns:xs="http://www.w3.org/2001/XMLSchema" targetNamespace="urn:t" xmlns="urn:t" elementFormDefault="qualified"><xs:element name="r"><xs:complexType><xs:all><xs:element name="a" type="xs:decimal"/><xs:element name="b" type="xs:boolean" minOccurs="0"/></xs:all></xs:complexType></xs:element></xs:schema>',
]
SBODIES = ['<r %s><a>1</a><a>2</a></r>', '<r %s><a>1</a><a>1</a></r>', '<r %s><a>2000-02-29</a><b>i1</b><b>i1</b></r>', '<r %s k="zz"><a>x</a></r>', '<r %s><a>ab1</a><a>c٣</a></r>',
           '<r %s><b>true</b><a>1.50</a></r>', '<r %s><a>1</a><a>2</a><a>3</a><a>4</a></r>', '<r %s><a>1</a', '<r %s/>']

@st.composite
def gen_doc(draw):
    kind = draw(st.sampled_from(['dtd', 'dtd', 'dtd-ext', 'xsd-nons', 'xsd-ns', 'plain']))
    head = draw(st.sampled_from(['', '', '<?xml version="1.0"?>', '<?xml version="1.1"?>', '<?xml version="1.0" standalone="yes"?>', '<?xml version="1.0" encoding="UTF-16"?>']))
    enc = 'utf-16' if 'UTF-16' in head else 'utf-8'
    if kind == 'dtd':
        text = head + '<!DOCTYPE r [' + draw(st.sampled_from(DTDS)) + ']>' + draw(st.sampled_from(BODIES))
    elif kind == 'dtd-ext':
        i = draw(st.integers(0, len(DTDS) - 1))
        if 'standalone' in head: head = ''
        text = head + '<!DOCTYPE r SYSTEM "dtd%d.dtd">' % i + draw(st.sampled_from(BODIES))
    elif kind == 'xsd-nons':
        i = draw(st.integers(0, 1)); text = head + draw(st.sampled_from(SBODIES)) % (XSI + ' xsi:noNamespaceSchemaLocation="xsd%d.xsd"' % i)
    elif kind == 'xsd-ns':
        i = draw(st.integers(2, 3)); text = head + draw(st.sampled_from(SBODIES)) % ('xmlns="urn:t" ' + XSI + ' xsi:schemaLocation="urn:t xsd%d.xsd"' % i)
    else:
        # NEL and C0 character references behave differently in XML 1.0 and 1.1: a version left over from the previous document would show
        text = head + draw(st.sampled_from(BODIES + ['<p:r xmlns:p="urn:p"><p:a p:k="1"/><a xmlns="urn:q"/></p:r>', '<r><![CDATA[x]]><!--c--><?pi d?></r>', '<r>&#0;</r>', '',
                                                   '<r><a>x\u0085y\u2028z</a>\u0085<a k="p\u0085q"/></r>', '<r>&#1;<a>&#x7F;&#x85;</a></r>']))
    # prolog / epilog white space, comments and PIs: what a DOM parser keeps under the Document node depends on parser-level (not scanner-level) state
    if text and draw(st.integers(0, 2)) == 0:
        misc = draw(st.sampled_from(['\n', ' \n<!--pc-->\n', '\n<?pp d?>\n ', '<!--pc-->']))
        i = text.find('<!DOCTYPE') if '<!DOCTYPE' in text else (text.find('?>') + 2 if text.startswith('<?xml') else 0)
        if text.startswith('<?xml') and i < text.find('?>') + 2: i = text.find('?>') + 2
        text = text[:i] + misc + text[i:] + draw(st.sampled_from(['', '\n', '\n<!--ec-->\n']))
    return text.encode(enc)

FEATS = ['ns=1;val=0;scanner=IG', 'ns=1;val=1;scanner=IG', 'ns=1;val=2;schema=1;scanner=IG', 'ns=1;val=1;schema=1;fullcheck=1;scanner=IG', 'ns=0;val=1;scanner=DG', 'ns=1;val=0;scanner=DG',
         'ns=1;val=1;schema=1;scanner=SG', 'ns=1;val=0;scanner=WF', 'ns=0;val=0;scanner=WF', 'ns=1;val=1;schema=1;usecached=1;scanner=IG', 'ns=1;val=1;usecached=1;scanner=DG',
         'ns=1;val=2;schema=1;scanner=SG', 'ns=1;val=1;schema=1;ere=0;iw=0;scanner=IG', 'ns=1;val=1;loaddtd=0;scanner=IG', 'ns=1;val=0;nodoctype=1;scanner=IG',
         'ns=1;val=1;schema=1;ic=0;valfatal=1;scanner=IG']

@st.composite
def gen_case(draw):
    api = draw(st.sampled_from(['sax1', 'sax2', 'dom', 'domls']))
    ndocs = draw(st.integers(3, 7))
    docs = [draw(gen_doc()) for _ in range(ndocs)]
    ops = []
    for i in range(draw(st.integers(4, 16))):
        k = draw(st.sampled_from(['parse'] * 6 + ['pparse', 'pparse', 'throw', 'throw', 'feat', 'feat', 'loadgrammar', 'loadgrammar', 'resetdocpool', 'resetgrammarpool', 'adopt']))
        d = draw(st.integers(0, ndocs - 1))
        if k == 'parse': ops.append('parse %d' % d)
        elif k == 'pparse': ops.append(('pparse %d %d' % (d, draw(st.integers(0, 7)))) if api != 'domls' else 'parse %d' % d)
        elif k == 'throw': ops.append(('throw %d %d' % (d, draw(st.integers(1, 9)))) if api in ('sax1', 'sax2') else 'parse %d' % d)
        elif k == 'feat': ops.append('feat ' + draw(st.sampled_from(FEATS)))
        elif k == 'loadgrammar':
            g = draw(st.integers(0, len(DTDS) + len(XSDS) - 1))
            ops.append('loadgrammar %d %s %d' % (g, 'dtd' if g < len(DTDS) else 'xsd', draw(st.integers(0, 1))))
        else: ops.append(k)
    feat0 = draw(st.sampled_from(FEATS))
    return {'api': api, 'feat': feat0, 'docs': [base64.b64encode(d).decode() for d in docs], 'ops': ops}

# ---- lane T: cached / preloaded grammars are transparent (tparse: history parser with its cache vs fresh parser reading the grammar inline) ----
INTSUBS = ['', '', '<!ENTITY e2 "int">', '<!ATTLIST a extra CDATA "dflt">', '<!ATTLIST r code CDATA #REQUIRED>', '<!ENTITY e "internal-wins">', '<!ATTLIST a k CDATA "from-internal">']
TBODIES = BODIES + ['<r><a id="x1">&e2;</a></r>', '<r code="c"><a id="x1" extra="given">t</a></r>', '<r><a id="x9"/></r>']
FEATS_T = ['ns=1;val=1;usecached=1;ignorecacheddtd=1;scanner=IG', 'ns=1;val=1;usecached=1;ignorecacheddtd=1;scanner=DG', 'ns=0;val=1;usecached=1;ignorecacheddtd=1;scanner=DG',
           'ns=1;val=1;schema=1;usecached=1;ignorecacheddtd=1;scanner=IG', 'ns=1;val=1;schema=1;usecached=1;scanner=SG', 'ns=1;val=2;schema=1;usecached=1;ignorecacheddtd=1;scanner=IG',
           'ns=1;val=0;usecached=1;ignorecacheddtd=1;scanner=IG', 'ns=1;val=1;schema=1;fullcheck=1;usecached=1;ignorecacheddtd=1;scanner=IG', 'ns=1;val=1;ignorecacheddtd=1;scanner=IG']
FEATS_T_CACHE = ['ns=1;val=1;cachegrammar=1;usecached=1;ignorecacheddtd=1;scanner=IG', 'ns=1;val=1;cachegrammar=1;usecached=1;ignorecacheddtd=1;scanner=DG',
                 'ns=1;val=1;schema=1;cachegrammar=1;usecached=1;ignorecacheddtd=1;scanner=IG', 'ns=1;val=1;schema=1;cachegrammar=1;usecached=1;scanner=SG']

@st.composite
def gen_tcase(draw):
    """ONE grammar in the whole case, and every document references it: the cache can never legitimately disagree with the inline grammar, and a cached
    grammar the document does not mention (documented: it is then used for that namespace) does not occur.  With cacheGrammarFromParse the documented
    restrictions apply: no internal subset (Val_CantHaveIntSS) and no loadGrammar of a grammar that is already cached."""
    api = draw(st.sampled_from(['sax1', 'sax2', 'dom', 'domls']))
    fam = draw(st.sampled_from(['dtd', 'dtd', 'nons', 'ns']))
    di = draw(st.integers(0, len(DTDS) - 1)); xn = draw(st.integers(0, 1)); xt = draw(st.integers(2, 3))
    fromparse = draw(st.integers(0, 2)) == 0
    docs = []
    for _ in range(draw(st.integers(3, 6))):
        head = draw(st.sampled_from(['', '', '<?xml version="1.0"?>', '<?xml version="1.1"?>']))
        if fam == 'dtd':
            if fromparse or draw(st.booleans()): text = head + '<!DOCTYPE r SYSTEM "dtd%d.dtd">' % di + draw(st.sampled_from(TBODIES))
            else: text = head + '<!DOCTYPE r SYSTEM "dtd%d.dtd" [%s]>' % (di, draw(st.sampled_from(INTSUBS[2:]))) + draw(st.sampled_from(TBODIES))
        elif fam == 'nons': text = head + draw(st.sampled_from(SBODIES)) % (XSI + ' xsi:noNamespaceSchemaLocation="xsd%d.xsd"' % xn)
        else: text = head + draw(st.sampled_from(SBODIES)) % ('xmlns="urn:t" ' + XSI + ' xsi:schemaLocation="urn:t xsd%d.xsd"' % xt)
        docs.append(text.encode('utf-8'))
    want_schema = fam != 'dtd'
    feats = [f for f in (FEATS_T_CACHE if fromparse else FEATS_T) if ('schema=1' in f) == want_schema or (fam == 'dtd' and 'scanner=SG' not in f)]
    g = di if fam == 'dtd' else len(DTDS) + (xn if fam == 'nons' else xt)
    ops = []
    for i in range(draw(st.integers(4, 14))):
        k = draw(st.sampled_from(['tparse'] * 6 + ['feat', 'feat', 'resetgrammarpool', 'resetdocpool'] + ([] if fromparse else ['loadgrammar'] * 3 + ['pparse', 'throw'])))
        d = draw(st.integers(0, len(docs) - 1))
        if k == 'tparse': ops.append('tparse %d' % d)
        elif k == 'pparse': ops.append(('pparse %d %d' % (d, draw(st.integers(0, 7)))) if api != 'domls' else 'tparse %d' % d)
        elif k == 'throw': ops.append(('throw %d %d' % (d, draw(st.integers(1, 9)))) if api in ('sax1', 'sax2') else 'tparse %d' % d)
        elif k == 'feat': ops.append('feat ' + draw(st.sampled_from(feats)))
        elif k == 'loadgrammar': ops.append('loadgrammar %d %s 1' % (g, 'dtd' if g < len(DTDS) else 'xsd'))
        else: ops.append(k)
    return {'lane': 'T', 'api': api, 'feat': draw(st.sampled_from(feats)), 'docs': [base64.b64encode(d).decode() for d in docs], 'ops': ops}

def run_case(case, ex):
    req = {'kind': 'session', 'api': case['api'], 'feat': case['feat'], 'n': str(len(case['ops']))}
    for i, d in enumerate(case['docs']): req['doc%d' % i] = base64.b64decode(d)
    for i, o in enumerate(case['ops']): req['op%d' % i] = o
    for i, g in enumerate(DTDS): req['g%d' % i] = g.encode(); req['gsys%d' % i] = 'dtd%d.dtd' % i; req['ent:dtd%d.dtd' % i] = g.encode()
    for i, g in enumerate(XSDS): req['g%d' % (len(DTDS) + i)] = g.encode(); req['gsys%d' % (len(DTDS) + i)] = 'xsd%d.xsd' % i; req['ent:xsd%d.xsd' % i] = g.encode()
    req['ent:u.bin'] = b''
    try: resp = ex.request(req, timeout=180)
    except xv.ExecutorDied as e: return False, 'executor died rc=%s\n%s' % (e.rc, e.stderr[-3000:]), []
    lines = resp.split('\n')
    ops = [l.split('\t') for l in lines if l.startswith(('OP\t', 'ADOPTED\t'))]
    bad = [o for o in ops if 'DIFF' in o[2:4] or 'BADOP' in o]
    if bad and bad[0][2] == 'tparse':
        i = resp.find('<<<'); return False, 'a cached / preloaded grammar is not transparent: %r\n%s' % (bad[:3], resp[i:i + 3000]), ops
    if bad:
        i = resp.find('<<<'); return False, 'result depends on the history: %r\n%s' % (bad[:3], resp[i:i + 3000]), ops
    return True, 'ok', ops

def worker(ctx):
    ex = ctx.executor('xvexec'); S = ctx.stats
    def prop(case):
        ok, detail, ops = run_case(case, ex)
        compared = [o for o in ops if o[0] == 'OP' and o[2] in ('parse', 'pparse', 'throw')]
        nt = any(len(o) > 4 and o[4] == 'after-dirty' for o in compared)
        labels = ['api:' + case['api']] + ['op:' + o.split(' ')[0] for o in case['ops']]
        if nt: labels.append('compared-after-dirty')
        if any(o[0] == 'ADOPTED' for o in ops): labels.append('adopted-doc-checked')
        S.note(xv.sha(case), nt, labels)
        S.labels['compared_parses'] += len(compared)
        S.sample({'api': case['api'], 'feat': case['feat'], 'ops': case['ops'][:8]})
        if not ok: raise PropertyFailure(case, detail)
    hyp_run(ctx, gen_case(), prop, ctx.budget)
    def propT(case):
        ok, detail, ops = run_case(case, ex)
        tp = [o for o in ops if o[0] == 'OP' and o[2] == 'tparse']
        cached = [o for o in tp if 'cached' in o]
        nt = bool(cached)
        labels = ['laneT', 'api:' + case['api']] + ['op:' + o.split(' ')[0] for o in case['ops']]
        if any('cachegrammar=1' in o for o in case['ops'] + [case['feat']]): labels.append('T:cache-from-parse')
        if any(b'[<!' in base64.b64decode(d) for d in case['docs']): labels.append('T:internal-subset-doc')
        S.note(xv.sha(case), nt, labels)
        S.labels['transparency_compared_parses'] += len(tp); S.labels['transparency_compared_with_cache'] += len(cached)
        S.sample({'lane': 'T', 'api': case['api'], 'feat': case['feat'], 'ops': case['ops'][:8]}, limit=3)
        if not ok: raise PropertyFailure(case, detail)
    hyp_run(ctx, gen_tcase(), propT, max(20, ctx.budget // 3), batches=2, seed_salt=11)
    if os.environ.get('VERIF_C15_NOFUZZ') != '1':
        fuzzlane.run_lane(ctx, 'fz_reuse', lambda dest: write_reuse_seeds(dest, ctx.worker), FUZZ_RUNS[ctx.tier], FUZZ_SAFETY_S[ctx.tier], 'laneF', 'F')

FUZZ_RUNS = {'quick': 1500, 'thorough': 80000}
FUZZ_SAFETY_S = {'quick': 200, 'thorough': 2400}
FSEP = b'\n%%%%\n'
def write_reuse_seeds(dest, worker):
    """pairs (A, B) from the committed parse corpus plus hand-written state carriers (XML 1.1, DTD with entities/IDs/defaults, malformed, namespaces)"""
    src = sorted(glob.glob(os.path.join(xv.VERIF, 'corpus', 'fz_parse', '*')))
    docs = [open(f, 'rb').read().split(FSEP)[0] for f in src][:60]
    docs += [b'<?xml version="1.1"?><a>\xc2\x85&#1;</a>', b'<!DOCTYPE a [<!ENTITY e "x"><!ATTLIST a k CDATA "d" id ID #IMPLIED>]><a id="i1">&e;</a>', b'<a><b></a>',
             b'<a id="i1" xmlns:p="urn:p"><p:b/></a>', b'<r>&e;</r>', b'<!DOCTYPE r SYSTEM "x.dtd"><r/>', b'<?xml version="1.0" standalone="yes"?><!DOCTYPE r SYSTEM "x.dtd"><r/>']
    n = 0
    for i in range(len(docs)):
        for j in (i + 1, i + 7 + worker):
            a = docs[i]; b = docs[j % len(docs)]
            if len(a) + len(b) > 3800: continue
            open(os.path.join(dest, 's%03d' % n), 'wb').write(a + FSEP + b + bytes([(n + worker) % 64, n % 4, n % 6])); n += 1

def replay(case, ctx):
    if case.get('lane') == 'F':
        ok, detail = fuzzlane.replay('fz_reuse', base64.b64decode(case['input_b64']))
        return (True if ok is None else ok), detail
    ok, detail, ops = run_case(case, ctx.executor('xvexec'))
    return ok, detail

import json, os
def classify(case, detail):
    import re
    psvi = 'psvi=1' in case.get('feat', '') or any('psvi=1' in o for o in case.get('ops', []))
    if psvi and re.search(r'getXSObject|IGXMLScanner2\.cpp:6[0-9][0-9]|result depends on the history', detail) and 'use-after-free' not in detail:
        return 'C15-psvi-null-xsmodel'
    return None

def known_witnesses():
    p = os.path.join(xv.VERIF, 'regress-known', 'C15', 'psvi_sg_repeated_parse.json')
    return [('C15-psvi-null-xsmodel', json.load(open(p))['case'])] if os.path.exists(p) else []
