"""C20 -- XInclude processing yields the specified merged tree and detects inclusion loops (model M8 = xincmodel.py)."""
import base64, json, os, shutil, tempfile, atexit, posixpath, copy
from hypothesis import strategies as st
import xv, xincmodel as xm
from driver import hyp_run, PropertyFailure

ID = 'C20'
HARNESS = {'asan': ['xv_xinc']}
RULE = ('file trees of 2-7 generated files in nested directories forming inclusion graphs (forward edges = DAG, optional forced back edge = cycle of '
        'length 1-4, optionally reached only through a used fallback), one invalid-usage mutation in some cases; files are materialised under a '
        'per-worker temp directory and the top document is parsed with XInclude on by XercesDOMParser or DOMLSParser (native path or file: URL, '
        'with or without a pass-through counting entity resolver).  Expected result = M8 expansion.  classes: valid => DOM equals the expansion '
        'modulo namespace declarations and xml:base attributes AND every element\'s base URI (getBaseURI() and, independently, the dumped '
        'xml:base chain resolved per RFC 3986) equals the model\'s; error (loop / invalid usage / missing resource without fallback) => an error '
        'of severity >= error is reported (the specific XInclude* code when the model sees exactly one cause), the parse returns, the number '
        'of fetches stays below the bound; unspecified constructs => only termination and memory safety.  non-trivial = >=2 levels of inclusion '
        'or a diamond or a used fallback or a text include or a cycle or an invalid usage; distinct by sha1(file tree, top, api, mode).')
ASSUMPTIONS = ['href/xml:base references are plain relative references without excess "..", so RFC 2396 and RFC 3986 resolution coincide; own resolver and urllib.parse.urljoin must agree or the case is dropped',
               'namespace declaration attributes are not compared (normalizeDocument() adds some; only expanded names are asserted); xml:lang fix-up (2nd edition only) is not generated',
               'includes inside an unused xi:fallback whose processing would fail, parse=xml targets that are not well-formed together with a fallback, BOMs in text resources: tagged unspecified, only termination asserted',
               'xpointer is unsupported by design: only "an error is reported" is asserted',
               'watchdog timeouts are inconclusive; non-termination is asserted only through the deterministic fetch bound of the counting resolver or a sanitizer-detected stack overflow']
BUDGET = {'quick': 400, 'thorough': 6000}
WALLCAP = {'quick': 400, 'thorough': 2400}

XINC_FATAL = set(range(276, 287))
CODES_FOR = {'loop': XINC_FATAL, 'bad-parse': {279}, 'xpointer-text': {278}, 'xpointer-unsupported': {278}, 'no-href': {277}, 'multi-fb': {280},
             'bad-child-xi': {284}, 'bad-child-include': {284}, 'orphan-fb': {276}, 'resource-nofb': {281}, 'nonwf-target': {281},
             'href-fragment': XINC_FATAL, 'empty-href': None}      # href="": only 'an error >= E' is certain

# ------------------------------------------------------------------------------------------------
# genuine defects found on the unchanged tree: excluded by construction, counted, witnesses kept below
# ------------------------------------------------------------------------------------------------
DEFECTS = {
    # C20-D1 (null fCurrentNode after an include that expands to nothing) fixed by 0a1424e, C20-D2 (href="" heap overflow) by 7ce94ad:
    # exclusions removed, witnesses are regress/C20/*.json
    'C20-D3': 'xi:include as a child of xi:include is not reported (processed eagerly at its own end tag)',
    'C20-D4': 'href with a fragment identifier is not reported as a fatal error; the fragment ends up in xml:base',
    'C20-D5': 'absolute URI in href is appended to the base directory (XIncludeLocation::prependPath ignores absoluteness)',
    'C20-D6': 'xml:base already present on the document element of an included document is re-interpreted relative to the including element (wrong base URI when directories differ)',
    'C20-D7': 'xml:base on xi:fallback is ignored / replaced by xml:base="" on the fallback children',
    'C20-D9': 'href "./../x": XIncludeLocation applies removeDotDotSlash without removeDotSlash, "." is removed as if it were a directory name ("d/./../x" becomes "d/x")',
    'C20-D8': 'base + href are concatenated without removing dot segments: "../x" against a base directory that does not exist on disk (virtual xml:base) cannot be opened',
}

# ------------------------------------------------------------------------------------------------
# generators
# ------------------------------------------------------------------------------------------------
DIRS = ['', '', 'd1/', 'd2/', 'd1/s/']
NAMES = ['a', 'b', 'c', 'item', 'x-y', 'n_1']
TEXT_ALPHA = 'abcXYZ 019 \n<&>"\'é€中\U0001D11E;-_'
XMLTEXT = st.text(alphabet='abcdeXYZ 019\n.,;:é€\U0001D11E<&>"\'', min_size=1, max_size=12)
COMMENT = st.text(alphabet='abc xyz-é', min_size=0, max_size=8).map(lambda s: s.replace('--', '-x').rstrip('-'))
PITARGET = st.sampled_from(['pi', 'proc', 'x-y'])
PIDATA = st.text(alphabet='abc =?>"', min_size=0, max_size=8).map(lambda s: s.replace('?>', '? ').strip())
BASEVALS = ['d1/', 'd2/', 'sub/', 'd1/s/', 'k.xml', 'd1/k.xml', './']

def dir_of(uri):
    return uri[:uri.rfind('/') + 1]

def rel_href(target_path, base_uri, style):
    """a relative reference that resolves from base_uri to VROOT/target_path"""
    bdir = xm.path_of(dir_of(base_uri))
    if bdir is None: bdir = ''
    rel = posixpath.relpath('/' + target_path, '/' + bdir.rstrip('/')) if bdir else target_path
    if style == 1: rel = './' + rel
    elif style == 2 and not rel.startswith('../'): rel = 'zz/../' + rel
    elif style == 3 and bdir:                      # up to the root and down again
        rel = '../' * bdir.count('/') + target_path
    return rel

class Gen:
    """state while one document is generated"""
    def __init__(self, draw, files, idx, targets, allow_invalid=True):
        self.draw = draw; self.files = files; self.idx = idx; self.targets = targets; self.ninc = 0

def gen_misc(draw):
    k = draw(st.integers(0, 2))
    if k == 0: return ['c', draw(COMMENT)]
    if k == 1: return ['p', draw(PITARGET), draw(PIDATA)]
    return ['c', draw(COMMENT)]

def gen_include(g, base, depth, forced=None, need_fallback_inc=None):
    draw = g.draw
    attrs = []
    ibase = base
    if forced is None and draw(st.integers(0, 9)) == 0:
        v = draw(st.sampled_from(BASEVALS[:4]))
        nb = xm.resolve(v, base)
        if xm.path_of(nb) is not None:
            attrs.append(['xml:base', v]); ibase = nb
    if forced is not None:
        tgt = forced
    else:
        opts = list(g.targets) + ['?missing'] * (1 + len(g.targets) // 3)
        tgt = draw(st.sampled_from(opts))
    children = []
    if tgt == '?missing':
        path = draw(st.sampled_from(DIRS)) + 'zz%d.%s' % (draw(st.integers(0, 2)), draw(st.sampled_from(['xml', 'txt'])))
        parse = 'text' if path.endswith('.txt') else 'xml'
        f = None
    else:
        path = tgt; f = g.files.get(tgt) or {'kind': 'xml'}      # back edges point at documents generated later: always xml
        if f['kind'] == 'text': parse = 'text' if draw(st.integers(0, 11)) else 'xml'
        else: parse = 'xml' if (forced is not None or draw(st.integers(0, 7))) else 'text'
    href = rel_href(path, ibase, draw(st.sampled_from([0, 0, 0, 1, 2, 3])))
    attrs.append(['href', href])
    if parse == 'text' or draw(st.integers(0, 4)) == 0: attrs.append(['parse', parse])
    if parse == 'text' and f is not None and f['kind'] == 'text':
        enc = f['enc']
        if enc != 'utf-8' or draw(st.booleans()): attrs.append(['encoding', draw(st.sampled_from([enc, enc.upper()]))])
    if draw(st.integers(0, 9)) == 0: attrs.append(['accept', 'text/xml'])          # other attributes are ignored
    want_fb = (draw(st.integers(0, 3)) != 0) if f is None else (draw(st.integers(0, 5)) == 0)
    if parse == 'xml' and f is not None and f['kind'] == 'text': want_fb = False          # not-well-formed target + fallback: unspecified, keep rare class simple
    if need_fallback_inc is not None: want_fb = True
    if draw(st.integers(0, 7)) == 0:
        children.append(draw(st.sampled_from([['t', ' ignored '], ['c', 'ign'], ['e', '', 'ignored', [], [['t', 'z']]]])))
    if want_fb:
        fattrs = []
        if draw(st.integers(0, 14)) == 0: fattrs.append(['xml:base', draw(st.sampled_from(BASEVALS[:4]))])     # C20-D7 class (stripped + counted later)
        if need_fallback_inc is not None:
            fch = gen_children(g, ibase, depth + 1, maxn=2)
            fch.insert(draw(st.integers(0, len(fch))), gen_include(g, ibase, depth + 1, forced=need_fallback_inc))
        elif draw(st.integers(0, 4)) == 0: fch = []
        else: fch = gen_children(g, ibase, depth + 1, maxn=3)
        children.append(['fb', fattrs, fch])
    g.ninc += 1
    return ['inc', attrs, children]

def gen_element(g, base, depth):
    draw = g.draw
    ns = draw(st.sampled_from(['', '', '', 'urn:d', 'urn:p']))
    attrs = []
    ebase = base
    if draw(st.integers(0, 5)) == 0:
        v = draw(st.sampled_from(BASEVALS))
        nb = xm.resolve(v, base)
        if xm.path_of(nb) is not None: attrs.append(['xml:base', v]); ebase = nb
    for an in draw(st.lists(st.sampled_from(['id', 'k', 'href']), max_size=2, unique=True)):
        attrs.append([an, draw(st.text(alphabet='ab/.# <&"é', max_size=6))])
    ch = gen_children(g, ebase, depth + 1) if depth < 3 else []
    return ['e', ns, draw(st.sampled_from(NAMES)), attrs, ch]

def gen_children(g, base, depth, maxn=4):
    draw = g.draw
    out = []
    for _ in range(draw(st.integers(0, maxn))):
        k = draw(st.integers(0, 11))
        if k <= 2: out.append(['t', draw(XMLTEXT)])
        elif k == 3: out.append(gen_misc(draw))
        elif k == 4: out.append(['cd', draw(st.text(alphabet='ab<&>]', min_size=1, max_size=6)).replace(']]>', ']] ')])
        elif k <= 7 or depth >= 4 or g.ninc >= 4: out.append(gen_element(g, base, depth))
        else: out.append(gen_include(g, base, depth))
    return out

def gen_doc(g, path, forced, via_fallback):
    draw = g.draw
    base = xm.uri_of(path)
    xml_targets = [t for t in g.targets if g.files[t]['kind'] == 'xml']
    doc = {'pro': [gen_misc(draw) for _ in range(draw(st.sampled_from([0, 0, 1, 1, 2])))],
           'epi': [gen_misc(draw) for _ in range(draw(st.sampled_from([0, 0, 0, 1])))],
           'doctype': g.idx > 0 and draw(st.integers(0, 7)) == 0}
    if not forced and draw(st.integers(0, 9)) < (3 if g.idx == 0 else 1):
        # the xi:include IS the document element (must yield exactly one element): resolved from a parse=xml target, or through
        # a fallback with one element child; comments / PIs around it in prolog and epilog
        doc['pro'] = [gen_misc(draw) for _ in range(draw(st.integers(0, 2)))]
        doc['epi'] = [gen_misc(draw) for _ in range(draw(st.integers(0, 2)))]
        if xml_targets and draw(st.integers(0, 2)):
            t = draw(st.sampled_from(xml_targets))
            root = ['inc', [['href', rel_href(t, base, draw(st.sampled_from([0, 1])))]], []]
            if draw(st.integers(0, 3)) == 0: root[2].append(['fb', [], [['e', '', 'unused', [], []]]])
        else:
            miss = draw(st.sampled_from(DIRS)) + 'zz%d.xml' % draw(st.integers(0, 2))
            fch = [gen_element(g, base, 2)]
            if draw(st.integers(0, 3)) == 0: fch.insert(0, gen_misc(draw))
            if draw(st.integers(0, 3)) == 0: fch.append(gen_misc(draw))
            root = ['inc', [['href', rel_href(miss, base, 0)]], [['fb', [], fch]]]
        doc['root'] = root
        return doc
    root = gen_element(g, base, 0)
    # forced edges (cycle construction / guaranteed reachability) go directly under the root element, whose base may differ from the document's
    rb = xm.battr(root[3]); rbase = xm.resolve(rb, base) if rb is not None else base
    for t in forced:
        if via_fallback and t == forced[-1]:
            node = gen_include(g, rbase, 1, forced='?missing', need_fallback_inc=t)
        else:
            node = gen_include(g, rbase, 1, forced=t)
        root[4].insert(draw(st.integers(0, len(root[4]))), node)
    doc['root'] = root
    return doc

def gen_textfile(draw):
    enc = draw(st.sampled_from(['utf-8', 'utf-8', 'utf-16le', 'utf-16be', 'iso-8859-1', 'utf-16']))
    if enc == 'iso-8859-1': s = draw(st.text(alphabet='abc <&>"\n\r\té\xfc\xa9', max_size=30))
    else: s = draw(st.text(alphabet=TEXT_ALPHA + '\r\t', max_size=30))
    data = s.encode(xm.PY_CODEC[enc])
    return {'kind': 'text', 'enc': enc, 'b64': base64.b64encode(data).decode()}

INVALID_KINDS = ['bad-parse', 'xpointer-text', 'xpointer-xml', 'no-href', 'multi-fb', 'orphan-fb', 'bad-child-xi', 'bad-child-include', 'href-fragment', 'empty-href', 'abs-href']

@st.composite
def case_strategy(draw):
    n = draw(st.integers(2, 7))
    shape = draw(st.sampled_from(['acyclic'] * 6 + ['cycle'] * 2 + ['invalid'] * 2))
    paths = []; kinds = []
    for i in range(n):
        kind = 'xml' if (i == 0 or draw(st.integers(0, 3))) else 'text'
        if shape == 'cycle' and i < 6: kind = 'xml'
        kinds.append(kind)
        paths.append(draw(st.sampled_from(DIRS)) + ('f%d.xml' % i if kind == 'xml' else 't%d.txt' % i))
    files = {}
    forced = {i: [] for i in range(n)}
    via_fb = False; cyc = None
    if shape == 'cycle':
        L = draw(st.integers(1, min(4, n)))
        start = draw(st.integers(0, min(n - L, 2)))
        cyc = list(range(start, start + L))
        if start > 0: forced[0].append(paths[start])
        for a, b in zip(cyc, cyc[1:]): forced[a].append(paths[b])
        forced[cyc[-1]].append(paths[cyc[0]])          # the back edge comes last in the list
        via_fb = draw(st.integers(0, 3)) == 0
    # documents are generated from the last file to the first so that forward targets already exist
    for i in range(n - 1, -1, -1):
        if kinds[i] == 'text':
            files[paths[i]] = gen_textfile(draw); continue
        g = Gen(draw, files, i, [paths[j] for j in range(i + 1, n)])
        files[paths[i]] = {'kind': 'xml', 'doc': gen_doc(g, paths[i], forced[i], via_fb and cyc is not None and i == cyc[-1])}
    inv = None
    if shape == 'invalid':
        inv = (draw(st.sampled_from(INVALID_KINDS)), draw(st.integers(0, 5)), draw(st.integers(0, 7)))
    api = draw(st.sampled_from(['dom', 'domls']))
    res = draw(st.integers(0, 1)); url = draw(st.booleans())
    return files, paths[0], shape, inv, api, res, url

# ------------------------------------------------------------------------------------------------
# post-processing of a generated tree: invalid-usage mutation, exclusion of known-defect classes (counted)
# ------------------------------------------------------------------------------------------------
def all_lists(node, acc):
    """collect (children-list, owner-kind) of every node list below `node` (document order)"""
    k = node[0]
    ch = node[4] if k == 'e' else node[2] if k in ('inc', 'fb', 'x') else None
    if ch is None: return
    acc.append((ch, k, node))
    for c in ch: all_lists(c, acc)

def live_includes(files, order):
    out = []
    for p in order:
        f = files[p]
        if f['kind'] != 'xml': continue
        acc = []; all_lists(f['doc']['root'], acc)
        if f['doc']['root'][0] == 'inc': out.append((p, f['doc']['root'], None))
        for ch, k, owner in acc:
            if k in ('e',):
                for c in ch:
                    if c[0] == 'inc': out.append((p, c, ch))
    return out

def apply_invalid(files, top, inv, excl):
    kind, a, b = inv
    # known-defect classes are replaced by a neighbouring class and counted
    if kind == 'bad-child-include': excl['C20-D3'] = excl.get('C20-D3', 0) + 1; kind = 'bad-child-xi'
    if kind == 'href-fragment': excl['C20-D4'] = excl.get('C20-D4', 0) + 1; kind = 'bad-parse'
    if kind == 'abs-href': excl['C20-D5'] = excl.get('C20-D5', 0) + 1; return None
    order = [top] + sorted(p for p in files if p != top)
    incs = live_includes(files, order)
    if kind == 'orphan-fb':
        f = files[order[a % len(order)]]
        if f['kind'] != 'xml' or f['doc']['root'][0] != 'e': f = files[top]
        if f['doc']['root'][0] != 'e': return None
        acc = []; all_lists(f['doc']['root'], acc)
        lists = [ch for ch, k, o in acc if k == 'e']
        ch = lists[b % len(lists)]
        ch.insert(a % (len(ch) + 1), ['fb', [], [['t', 'orphan']]])
        return kind
    if not incs: return None
    p, node, parent = incs[(a * 8 + b) % len(incs)]
    attrs = node[1]
    def setattr_(k, v):
        for x in attrs:
            if x[0] == k: x[1] = v; return
        attrs.append([k, v])
    if kind == 'bad-parse': setattr_('parse', ['html', 'XML', 'Text', '', 'xml '][b % 5])
    elif kind == 'xpointer-text': setattr_('parse', 'text'); setattr_('xpointer', 'element(/1)')
    elif kind == 'xpointer-xml': setattr_('parse', 'xml'); setattr_('xpointer', 'xpointer(/*)')
    elif kind == 'no-href': node[1] = [x for x in attrs if x[0] != 'href']
    elif kind == 'empty-href': setattr_('href', '')
    elif kind == 'multi-fb':
        node[2] = [c for c in node[2]] + [['fb', [], []]] + ([] if any(c[0] == 'fb' for c in node[2]) else [['fb', [], [['t', 'second']]]])
    elif kind == 'bad-child-xi': node[2].insert(0, ['x', ['foo', 'Include', 'fall-back'][b % 3], []])
    return kind

def strip_known(files, top, excl, shape='acyclic'):
    """remove the constructs that trigger the known defects D1, D6, D7 (counted per construct)"""
    # D9: "./../" in an href
    for p, f in files.items():
        if f['kind'] != 'xml': continue
        acc = []; all_lists(f['doc']['root'], acc)
        for ch, k, owner in acc:
            if k == 'inc':
                for a in owner[1]:
                    if a[0] == 'href' and './../' in a[1] and not a[1].startswith('../'):
                        a[1] = a[1].replace('./../', '../', 1); excl['C20-D9'] = excl.get('C20-D9', 0) + 1
    # D7: xml:base on xi:fallback
    inc_targets_with_rootbase = []
    for p, f in files.items():
        if f['kind'] != 'xml': continue
        acc = []; all_lists(f['doc']['root'], acc)
        for ch, k, owner in acc:
            if k == 'fb' and xm.battr(owner[1]) is not None:
                owner[1] = [x for x in owner[1] if x[0] != 'xml:base']; excl['C20-D7'] = excl.get('C20-D7', 0) + 1
    # D6: xml:base on the document element of a document that is not the top document (it may become an included root)
    for p, f in files.items():
        if f['kind'] != 'xml' or (p == top and shape != 'cycle'): continue      # in a cycle the top document is an include target too
        r = f['doc']['root']
        if r[0] == 'e' and xm.battr(r[3]) is not None:
            fix_root_base(files, p, excl)

def fix_root_base(files, p, excl):
    """D6: move an xml:base from the document element of an includable document one level down (wrapping keeps the class explored)"""
    r = files[p]['doc']['root']
    v = xm.battr(r[3])
    r[3] = [x for x in r[3] if x[0] != 'xml:base']
    excl['C20-D6'] = excl.get('C20-D6', 0) + 1
    # hrefs inside were computed against the old base: wrap the old children in an element that carries the attribute
    r[4] = [['e', '', 'moved-base', [['xml:base', v]], r[4]]]

def build_case(files, top, api, res, url):
    ctx, items = xm.expand(files, top, max_fetch=60)
    ev, bases = xm.events_of(items)
    causes = list(ctx.causes); unspec = sorted(set(ctx.unspec))
    if causes: cls = 'error'
    elif unspec: cls = 'unspec'
    else: cls = 'valid'
    # a document must end up with exactly one element child
    if cls == 'valid' and (sum(1 for it in items if it[0] == 'e') != 1 or any(it[0] in ('t', 'cd') for it in items)): cls = 'unspec'; unspec.append('result-not-a-document')
    codes = None
    if cls == 'error' and len(set(causes)) == 1 and not unspec: codes = sorted(CODES_FOR[causes[0]]) if CODES_FOR[causes[0]] else None
    exp = {'cls': cls, 'causes': causes, 'unspec': unspec, 'codes': codes, 'fetches': ctx.fetches,
           'warn_ok': 'missing-target' in ctx.labels,
           'events': ev if cls == 'valid' else None, 'bases': [b.replace(xm.VROOT, '@', 1) for b in bases] if cls == 'valid' else None}
    realdirs = set()
    for p in files:
        d = posixpath.dirname(p)
        while d: realdirs.add(d + '/'); d = posixpath.dirname(d)
    mkdirs = sorted(d for d in ctx.dotdot_bases if d not in realdirs)
    case = {'mkdirs': mkdirs, 'files': {p: base64.b64encode(ctx.data(p)).decode() for p in sorted(files)}, 'top': top, 'api': api, 'res': res, 'url': url, 'expect': exp,
            'preview': {p: ctx.data(p).decode('utf-8', 'replace')[:600] for p in sorted(files) if files[p]['kind'] == 'xml'}}
    return case, ctx

# ------------------------------------------------------------------------------------------------
# execution + oracle
# ------------------------------------------------------------------------------------------------
_TMP = {}
def workdir():
    pid = os.getpid()
    if pid not in _TMP:
        shm = '/dev/shm'      # tmpfs: a case is 2-8 small files; on the disk-backed /tmp the create/remove cycle dominates the run time
        d = tempfile.mkdtemp(prefix='verif.', dir=shm if os.path.isdir(shm) and os.access(shm, os.W_OK) else None)
        _TMP[pid] = d
        atexit.register(shutil.rmtree, d, True)
    return _TMP[pid]

def cleanup():
    d = _TMP.pop(os.getpid(), None)       # multiprocessing children leave through os._exit: atexit does not run there
    if d: shutil.rmtree(d, True)

def materialise(case):
    root = os.path.join(workdir(), 'c')
    shutil.rmtree(root, True)
    os.makedirs(root)
    for p, b in case['files'].items():
        fp = os.path.join(root, p)
        os.makedirs(os.path.dirname(fp), exist_ok=True)
        with open(fp, 'wb') as f: f.write(base64.b64decode(b).replace(b'@ROOT@', root.encode()))
    for d in case.get('mkdirs', []): os.makedirs(os.path.join(root, d), exist_ok=True)
    return root

ACC = {}      # Document-level accessor lines of the last parsed response (#DOCEL #DOCTYPE #DEPAR #NSLOOK)

def parse_response(resp):
    ev = []; errs = []; excs = []; bases = []; docuri = None; fetch = (0, 0); ACC.clear()
    for line in resp.split('\n'):
        if not line: continue
        p = line.split('\t')
        k = p[0]
        if k == 'ERR': errs.append((p[1], int(p[2]), p[3]))
        elif k == 'EXC': excs.append(p[1:])
        elif k == '#BASE': bases.append(None if p[1] == '\\N' else xv.unesc(p[1]))
        elif k == '#DOCURI': docuri = None if p[1] == '\\N' else xv.unesc(p[1])
        elif k == '#FETCH': fetch = (int(p[1]), int(p[2]))
        elif k == '#DOCEL': ACC['docel'] = (None if p[1] == '\\N' else xv.unesc(p[1]), int(p[2]), int(p[3]))
        elif k == '#DOCTYPE': ACC['doctype'] = (None if p[1] == '\\N' else xv.unesc(p[1]), None if p[2] == '\\N' else xv.unesc(p[2]))
        elif k == '#DEPAR': ACC['depar'] = tuple(p[1:])
        elif k == '#NSLOOK': ACC.setdefault('nslook', []).append([None if x == '\\N' else xv.unesc(x) for x in p[1:]])
        elif k.startswith('#'): continue
        elif k == 'SE': ev.append(['SE', xv.unesc(p[1])])
        elif k == 'EE': ev.append(['EE', xv.unesc(p[1])])
        elif k == 'A':
            name = xv.unesc(p[1]); qn = xv.unesc(p[2]); val = xv.unesc(p[5]) if len(p) > 5 else ''
            if name.startswith('{' + xm.XMLNS_NS + '}') or qn == 'xmlns' or qn.startswith('xmlns:'): continue
            if qn == 'xml:base' or name == '{' + xm.XML_NS + '}base': ev.append(['XB', val]); continue
            if name == '{}': name = '{}' + qn
            ev.append(['A', name, val])
        elif k in ('T', 'IW'):
            s = xv.unesc(p[1]) if len(p) > 1 else ''
            if not s: continue
            if ev and ev[-1][0] == 'T': ev[-1][1] += s
            else: ev.append(['T', s])
        elif k == 'CD[': ev.append(['CD', None])
        elif k == 'CD]':
            # fold "CD[ T CD]" into one event
            if ev and ev[-1][0] == 'T' and len(ev) > 1 and ev[-2] == ['CD', None]: t = ev.pop()[1]; ev[-1] = ['CD', t]
            elif ev and ev[-1] == ['CD', None]: ev[-1] = ['CD', '']
        elif k == 'C': ev.append(['C', xv.unesc(p[1]) if len(p) > 1 else ''])
        elif k == 'PI': ev.append(['PI', xv.unesc(p[1]), xv.unesc(p[2]) if len(p) > 2 else ''])
        elif k in ('SD', 'ED', 'DT', 'DT]', 'ENT', 'NOT'): continue
        else: ev.append(['?', line])
    return ev, errs, excs, bases, docuri, fetch

def sort_attrs(ev):
    """attributes of one element sorted by name (xml:base removed beforehand)"""
    out = []; i = 0
    while i < len(ev):
        if ev[i][0] == 'A':
            j = i
            while j < len(ev) and ev[j][0] == 'A': j += 1
            out.extend(sorted(ev[i:j])); i = j
        else: out.append(ev[i]); i += 1
    return out

def check_response(case, resp, rooturl):
    exp = case['expect']
    ev, errs, excs, gbases, docuri, fetch = parse_response(resp)
    sev = [e for e in errs if e[2] in ('E', 'F')]
    if fetch[1] or ['FETCHBOUND'] in excs:
        return False, 'termination: more than the bound of resource fetches (%d) -- inclusion does not terminate (model expects %d fetches)' % (fetch[0], exp['fetches'])
    if any(x and x[0] == 'FOREIGN' for x in excs): return False, 'foreign exception escaped parse(): %r' % (excs,)
    if exp['cls'] == 'unspec': return True, 'unspecified (%s): terminated' % ','.join(exp['unspec'])
    if exp['cls'] == 'error':
        if not sev and not excs:
            return False, 'expected an error (causes %r) but none of severity >= error was reported; ERR lines: %r' % (exp['causes'], errs)
        if exp['codes'] is not None and not excs:
            if not any(e[1] in exp['codes'] and e[2] == 'F' for e in errs):
                return False, 'single cause %r: expected a fatal XInclude error with code in %r, reported: %r' % (exp['causes'][0], exp['codes'], errs)
        return True, 'error reported'
    # valid
    if excs: return False, 'valid acyclic inclusion: exception escaped parse(): %r' % (excs,)
    if sev: return False, 'valid acyclic inclusion reported errors: %r' % (errs,)
    # tree modulo xml:base
    xbs = []
    act = []
    for e in ev:
        if e[0] == 'XB': xbs.append((len([x for x in act if x[0] == 'SE']) - 1, e[1]))
        else: act.append(e)
    act = sort_attrs(act)
    want = sort_attrs([list(e) for e in exp['events']])
    if act != want:
        for i in range(max(len(act), len(want))):
            x = want[i] if i < len(want) else None; y = act[i] if i < len(act) else None
            if x != y:
                return False, 'merged tree differs at event %d:\n  expected %r\n  actual   %r\n  context expected %r\n  context actual   %r' % (i, x, y, want[max(0, i - 3):i + 3], act[max(0, i - 3):i + 3])
    # base URIs: (1) getBaseURI()  (2) xml:base chain resolved per RFC 3986 from the document URI
    if docuri is None or not docuri.startswith(rooturl):
        return False, 'document URI %r does not start with %r' % (docuri, rooturl)
    xbmap = dict(xbs)
    chain = []; stack = [docuri]; idx = -1
    for e in act:
        if e[0] == 'SE':
            idx += 1
            b = stack[-1]
            if idx in xbmap and xbmap[idx] != '': b = xm.resolve(xbmap[idx], b)
            chain.append(b); stack.append(b)
        elif e[0] == 'EE': stack.pop()
    def norm(u): return None if u is None else xm.normalise_uri(u).replace(rooturl, '@', 1)
    want_b = [xm.normalise_uri(b) for b in exp['bases']]
    got1 = [norm(b) for b in gbases]; got2 = [norm(b) for b in chain]
    if got2 != want_b:
        i = next(i for i in range(max(len(got2), len(want_b))) if i >= len(got2) or i >= len(want_b) or got2[i] != want_b[i])
        return False, 'base URI fix-up: element #%d (document order): the xml:base chain resolves to %r, the model says %r\n  all expected %r\n  all actual   %r' % (
            i, got2[i] if i < len(got2) else None, want_b[i] if i < len(want_b) else None, want_b, got2)
    if got1 != want_b:
        i = next(i for i in range(max(len(got1), len(want_b))) if i >= len(got1) or i >= len(want_b) or got1[i] != want_b[i])
        return False, 'getBaseURI(): element #%d (document order) reports %r, the model (and the xml:base chain) says %r' % (i, got1[i] if i < len(got1) else None, want_b[i] if i < len(want_b) else None)
    bad = check_accessors(exp)
    if bad: return False, bad
    return True, 'ok'

def check_accessors(exp):
    """Document-level accessors of the merged document against the child list and the model (valid class only)"""
    if 'docel' not in ACC: return 'the harness did not report the Document-level accessors'
    want = next(e[1] for e in exp['events'] if e[0] == 'SE')
    name, same, nel = ACC['docel']
    if name is None: return 'Document.getDocumentElement() is NULL although the merged Document has %d element child(ren) (model: document element %s)' % (nel, want)
    if not same or nel != 1: return 'Document.getDocumentElement() (%s) is not the single element child of the Document (same node: %d, element children: %d)' % (name, same, nel)
    if name != want: return 'Document.getDocumentElement() is %s, the model says %s' % (name, want)
    dt_acc, dt_child = ACC.get('doctype', (None, None))
    if dt_acc != dt_child or dt_acc is not None:
        return 'Document.getDoctype() says %r, the child list has %r, the model says None (the top document has no DOCTYPE and included ones are not carried)' % (dt_acc, dt_child)
    if ACC.get('depar') != ('1', '1'): return 'documentElement.getParentNode()/getOwnerDocument() is not the Document: %r' % (ACC.get('depar'),)
    rows = ACC.get('nslook', [])
    for r in rows:
        if len(r) < 8: return 'Document.lookupNamespaceURI: %r' % (r,)
        prefix, uri, dl, el, dp, ep, di, ei = r[:8]
        if dl != el or (uri and dl != uri):
            return 'Document.lookupNamespaceURI(%r) = %r; the document element says %r and declares %r' % (prefix, dl, el, uri)
        if dp != ep: return 'Document.lookupPrefix(%r) = %r, the document element says %r' % (uri, dp, ep)
        if di != ei: return 'Document.isDefaultNamespace(%r) = %r, the document element says %r' % (uri, di, ei)
    rootns = want[1:want.index('}')]
    if rootns == 'urn:p' and not any(r[0] == 'p' and r[1] == 'urn:p' for r in rows): return 'model: the merged root declares xmlns:p="urn:p"; namespace declarations found on it: %r' % ([r[:2] for r in rows],)
    if rootns == 'urn:d' and not any(r[0] == '' and r[1] == 'urn:d' and r[6] == '1' for r in rows): return 'model: the merged root declares xmlns="urn:d" (default namespace); found: %r' % ([r[:2] + r[6:8] for r in rows],)
    return None

def run_case(case, ex):
    """-> (verdict, detail)  verdict: True | False | None (inconclusive: watchdog)"""
    root = materialise(case)
    top = os.path.join(root, case['top'])
    req = {'kind': 'xinc', 'top': ('file://' + top) if case['url'] else top, 'api': case['api'], 'feat': 'ns=1;xinclude=1', 'res': str(case['res']), 'bound': '20000'}
    try:
        resp = ex.request(req, timeout=90)
    except xv.ExecutorDied as e:
        if e.rc in (-9, -15) and 'ERROR: ' not in e.stderr:
            return None, 'watchdog: no answer within 90 s'
        err = e.stderr
        i = err.find('ERROR: '); j = err.find('runtime error')
        k = min(x for x in (i, j, len(err)) if x >= 0)
        if k == len(err): k = max(0, len(err) - 2500)        # report header scrolled out of the kept stderr tail (very deep recursion)
        return False, 'executor died rc=%s (memory-safety / sanitizer failure%s)\n%s' % (
            e.rc, '; deep recursion of doDOMNodeXInclude: unbounded inclusion' if err.count('doDOMNodeXInclude') > 20 else '', err[max(0, k - 200):k + 2500])
    return check_response(case, resp, 'file://' + root)

LABEL_NONTRIV = {'depth>=2', 'diamond', 'fallback-used', 'parse-text', 'cause:loop'}

def worker(ctx):
    ex = ctx.executor('xv_xinc')
    st_ = ctx.stats
    if ctx.worker == 0: witness_status(ctx, ex)
    def prop(c):
        files, top, shape, inv, api, res, url = c
        files = copy.deepcopy(files)
        excl = {}
        applied = apply_invalid(files, top, inv, excl) if inv else None
        strip_known(files, top, excl, shape)
        for k, v in excl.items(): st_.excluded_known[k] += v
        try:
            case, mctx = build_case(files, top, api, res, url)
        except xm.TooBig:
            st_.extra['too_big'] = st_.extra.get('too_big', 0) + 1; return
        if case['mkdirs']: st_.excluded_known['C20-D8'] += 1
        if mctx.witness_disagree:
            st_.oracle_disagreements += 1; return
        exp = case['expect']
        labels = set(mctx.labels) | {'class:' + exp['cls'], 'api:' + api, 'res:%d' % res, 'url:%d' % url, 'shape:' + shape}
        labels |= {'cause:' + c_ for c_ in exp['causes']} | {'unspec:' + u for u in exp['unspec']}
        if applied: labels.add('mut:' + applied)
        nontriv = bool(labels & LABEL_NONTRIV) or (exp['cls'] == 'error' and bool(exp['causes']))
        h = xv.sha([case['files'], top, api, res, url])
        st_.note(h, nontriv, sorted(labels))
        st_.sample({'top': top, 'api': api, 'class': exp['cls'], 'causes': exp['causes'], 'files': case['preview']})
        ok, detail = run_case(case, ex)
        if ok is None:
            st_.inconclusive += 1; return
        if not ok: raise PropertyFailure(case, detail)
    try:
        hyp_run(ctx, case_strategy(), prop, ctx.budget)
    finally:
        cleanup()

def replay(case, ctx):
    try:
        ok, detail = run_case(case, ctx.executor('xv_xinc'))
    finally:
        cleanup()
    if ok is None: return True, 'inconclusive: ' + detail
    return ok, detail

# ------------------------------------------------------------------------------------------------
# witnesses of the known defects (hand-minimised); their status is recorded in the evidence on every run
# ------------------------------------------------------------------------------------------------
XI = 'xmlns:xi="%s"' % xm.XI_NS
def _w(files, exp, top='a.xml'):
    e = {'cls': 'valid', 'causes': [], 'unspec': [], 'codes': None, 'fetches': 1, 'warn_ok': True, 'events': None, 'bases': None}; e.update(exp)
    return {'files': {k: base64.b64encode(v.encode()).decode() for k, v in files.items()}, 'top': top, 'api': 'dom', 'res': 0, 'url': False, 'expect': e}
FIXED_WITNESSES = {      # defects fixed in /repo: stored as regress/C20/<name>.json, must pass
    'd1_empty_expansion_then_text': _w({'a.xml': '<a %s><xi:include href="zz.xml"><xi:fallback/></xi:include>text</a>' % XI},
                 {'events': [['SE', '{}a'], ['T', 'text'], ['EE', '{}a']], 'bases': ['@/a.xml']}),
    'd2_empty_href': _w({'a.xml': '<a %s><xi:include href=""/></a>' % XI}, {'cls': 'error', 'causes': ['empty-href'], 'codes': None}),
}
WITNESSES = {            # open defects: stored as regress-known/C20/<id>.json
    'C20-D3': _w({'a.xml': '<a %s><xi:include href="b.xml"><xi:include href="b.xml"/></xi:include></a>' % XI, 'b.xml': '<b/>'},
                 {'cls': 'error', 'causes': ['bad-child-include'], 'codes': [284]}),
    'C20-D4': _w({'a.xml': '<a %s><xi:include href="b.xml#x"/></a>' % XI, 'b.xml': '<b/>'}, {'cls': 'error', 'causes': ['href-fragment'], 'codes': sorted(XINC_FATAL)}),
    'C20-D5': _w({'a.xml': '<a %s><xi:include href="file://@ROOT@/b.xml"/></a>' % XI, 'b.xml': '<b/>'},
                 {'events': [['SE', '{}a'], ['SE', '{}b'], ['EE', '{}b'], ['EE', '{}a']], 'bases': ['@/a.xml', '@/b.xml']}),
    'C20-D6': _w({'a.xml': '<a %s><xi:include href="d/b.xml"/></a>' % XI, 'd/b.xml': '<b xml:base="sub/"><k/></b>'},
                 {'events': [['SE', '{}a'], ['SE', '{}b'], ['SE', '{}k'], ['EE', '{}k'], ['EE', '{}b'], ['EE', '{}a']], 'bases': ['@/a.xml', '@/d/sub/', '@/d/sub/']}),
    'C20-D7': _w({'a.xml': '<a %s><xi:include href="zz.xml"><xi:fallback xml:base="d/"><f/></xi:fallback></xi:include></a>' % XI},
                 {'events': [['SE', '{}a'], ['SE', '{}f'], ['EE', '{}f'], ['EE', '{}a']], 'bases': ['@/a.xml', '@/d/']}),
    'C20-D9': _w({'a.xml': '<xi:include %s href="d/r.xml"/>' % XI, 'd/r.xml': '<xi:include %s href="./../s.xml"/>' % XI,
                  's.xml': '<xi:include %s href="t.xml"/>' % XI, 't.xml': '<t/>'},
                 {'events': [['SE', '{}t'], ['EE', '{}t']], 'bases': ['@/t.xml']}),
    'C20-D8': _w({'a.xml': '<a %s><m xml:base="virt/"><xi:include href="../b.xml"/></m></a>' % XI, 'b.xml': '<b/>'},
                 {'events': [['SE', '{}a'], ['SE', '{}m'], ['SE', '{}b'], ['EE', '{}b'], ['EE', '{}m'], ['EE', '{}a']], 'bases': ['@/a.xml', '@/virt/', '@/b.xml']}),
}
def classify(case, detail):
    """a confirmed failure belongs to a known finding only if it is that finding's stored witness (the classes are removed
    from the generators by construction, so a generated case failing the same way is a new violation)"""
    return case.get('finding')

def known_witnesses():
    out = []
    for fid in sorted(WITNESSES):
        p = os.path.join(xv.VERIF, 'regress-known', 'C20', fid + '.json')
        if os.path.exists(p): out.append((fid, json.load(open(p))['case']))
    return out

def witness_status(ctx, ex):
    out = {}
    for fid, case in known_witnesses():
        try:
            ok, detail = run_case(case, ex)
        except Exception as e:
            ok, detail = None, repr(e)
        out[fid] = 'defect still present: ' + DEFECTS[fid] if ok is False else ('witness passes now (defect gone?)' if ok else 'inconclusive')
    ctx.stats.extra['known_defect_witnesses'] = out

def write_witness_files():
    """python3-vt -c 'import props.C20 as m; m.write_witness_files()'  (re)creates regress/C20 and regress-known/C20"""
    for sub, ws in (('regress', FIXED_WITNESSES), ('regress-known', WITNESSES)):
        d = os.path.join(xv.VERIF, sub, 'C20'); os.makedirs(d, exist_ok=True)
        for name, case in ws.items():
            c = dict(case)
            if sub == 'regress-known': c['finding'] = name; what = DEFECTS[name]
            else: what = 'fixed defect, must pass'
            with open(os.path.join(d, name + '.json'), 'w') as f: json.dump({'property': 'C20', 'what': what, 'case': c}, f, indent=1)
