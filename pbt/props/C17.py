"""C17 -- distinct parser, document and transcoder objects are safe to use concurrently.

Hypothesis generates N-thread workloads + a schedule seed; every case is ONE fresh process of the thread harness
`xvthr` built with ThreadSanitizer (a share of the cases runs the ASan+UBSan build instead).  Oracle:
 (1) no ThreadSanitizer report whose stacks contain a xercesc_4_0:: frame (reports without one are ignored+counted),
 (2) no crash / sanitizer abort, (3) every thread's per-item results equal the single-threaded re-run of the same
 lists in the same process, (4) a watchdog hit is replayed 3x: hang 3/3 = violation, otherwise inconclusive.
"""
import os, sys, json, re, subprocess, tempfile, atexit, shutil, time
from hypothesis import strategies as st
import xv
from driver import hyp_run, PropertyFailure

ID = 'C17'
HARNESS = {'tsan': ['xvthr'], 'asan': ['xvthr']}
RULE = ('one case = N in {2,3,4,8,16} threads x 1..12 work items (private parse sax1/sax2/dom/domls with no/DTD/schema validation incl. '
        'pattern facets with \\p{..} \\p{Is..} \\w; parse on ONE shared lockPool()ed XMLGrammarPoolImpl with documents introducing new '
        'namespace URIs; private DOM build/mutate/serialise incl. registry lookup and owner-less doctype; RegularExpression compile+match '
        'with category escapes; XMLString::transcode both ways and named transcoders; xcode-storm = thousands of local-code-page transcodes of mostly non-ASCII '
        'strings whose every result is compared in the thread with the value computed before the barrier (locks around uninstrumented ICU state); parser create/destroy; exception/validity message '
        'text) released from a barrier directly after Initialize() in a fresh process, optional seeded yield/sleep perturbation. '
        'non-trivial = the harness measured (per-thread bookkeeping of the facilities each executed item touched) that >=2 threads used '
        'the same lazily initialised facility or shared object (rangetoken:{unicode,block,xml}, kidOK, domimpl-registry, doctype-ownerless, '
        'lcp, lcp-storm, transservice, uripool/shared-pool, scanner-id, msgload) within the case; distinct by sha1(workload, seed, flavour).')
ASSUMPTIONS = ['ThreadSanitizer (happens-before, clang 14) sees only instrumented code: libxerces-c and the harness; ICU/curl/libstdc++ are not instrumented',
               'reports whose stacks contain no xercesc_4_0:: frame are ignored and counted (ignored_reports)',
               'schedules are perturbed (seeded yields/sleeps between items, OS scheduling), not enumerated; no XERCES_VERIF_HOOKS sites exist',
               'a data-race report / digest mismatch / crash observed once is evidence (replay = up to 6 attempts); only hangs need 3/3',
               'known findings are stepped over by a main-thread warm-up of exactly the racy facility (counted in excluded_known)']
BUDGET = {'quick': 16, 'thorough': 400}
WALLCAP = {'quick': 500, 'thorough': 4500}

# ---------------------------------------------------------------------------------------------------------------
# Known findings (genuine races on the unchanged tree).  id -> (signature predicate on a parsed TSan report,
# warm-up action of the harness that steps over it, facilities whose concurrent first use triggers it).
# Deactivate an exclusion after a `fix:` commit by deleting its id from ACTIVE (one line).
# ---------------------------------------------------------------------------------------------------------------
def _sig_kidok(rep):
    return rep['kind'] == 'data race' and bool(rep['tops']) and all('DOMDocumentImpl::isKidOK' in t for t in rep['tops'])

_RT_FUNCS = ('RangeTokenMap::getRange', 'RangeTokenElemMap::getRangeToken', 'RangeTokenElemMap::setRangeToken', 'RangeTokenMap::setRangeToken')
def _sig_rangetoken(rep):
    # double-checked locking: unlocked read in getRange() vs. the locked initialisation (buildRanges -> setRangeToken, token construction)
    # (one side always holds fMutex -- with the lock itself gone the report is NOT this finding)
    if rep['kind'] != 'data race' or not rep['stacks']: return False
    if not any('mutexes: write' in h for h in rep.get('heads', [])): return False
    return any('RangeTokenMap::getRange' in f for s in rep['stacks'][:2] for f in s) and \
           all(any(('RangeTokenMap::getRange' in f) or ('RangeFactory' in f and 'buildRanges' in f) for f in s) for s in rep['stacks'][:2])

def _sig_casei(rep):
    # shared category tokens cache their case-insensitive variant lazily and unsynchronised (and it is owned by whichever regex came first)
    return any('RangeToken::getCaseInsensitiveToken' in f or 'RangeToken::~RangeToken' in f for s in rep['stacks'][:2] for f in s[:3])

_LAZY_GRAMMAR = ('::getContentModel', '::makeContentModel', '::getFormattedContentModel', '::formatContentModel')
def _sig_contentmodel(rep):
    # lazily created members of element declarations / complex types inside a shared (locked) grammar, and reads of what they created
    if rep['kind'] != 'data race' or len(rep['stacks']) < 2: return False
    hit = lambda s: any(any(n in f for n in _LAZY_GRAMMAR) for f in s[:8])
    return all(hit(s) or hit(rep['loc']) for s in rep['stacks'][:2]) and any(hit(s) for s in rep['stacks'][:2])

_LAZY_MAP = ('RangeToken::createMap', 'RangeToken::doCreateMap', 'RangeToken::match')
def _sig_regexmap(rep):
    if rep['kind'] != 'data race' or len(rep['stacks']) < 2: return False
    hit = lambda s, n=3: any(any(x in f for x in _LAZY_MAP) for f in s[:n])
    return all(hit(s) or hit(rep['loc'], 8) for s in rep['stacks'][:2])

def _sig_wsfacets(rep):
    return rep['kind'] == 'data race' and bool(rep['tops']) and all('TraverseSchema::getElementAttValue' in t for t in rep['tops'])

_COMPACT = ('RangeToken::compactRanges', 'RangeToken::sortRanges')
def _sig_lazycompact(rep):
    # a process-wide category token (allocated while Initialize() built the range map) is sorted/compacted in place on first need
    if rep['kind'] != 'data race' or len(rep['stacks']) < 2: return False
    if not any(any(c in f for c in _COMPACT) for s in rep['stacks'][:2] for f in s[:2]): return False
    if not all(any('RangeToken::' in f for f in s[:2]) for s in rep['stacks'][:2]): return False
    return any(('buildRanges' in f or 'initializeRangeTokenMap' in f or 'buildTokenRanges' in f) for f in rep['loc'])

KNOWN = {
    'C17-rangetoken-shared-lazy-compact': dict(sig=_sig_lazycompact, warm='rangetoken',
        facs=('rangetoken:complement', 'rangetoken:unicode', 'rangetoken:block', 'rangetoken:xml'),
        what='process-wide category RangeTokens (e.g. IsAlpha, IsAlnum, ascii:*) are left unsorted/uncompacted by Initialize() and are compacted in place by the first '
             'complementRanges (RangeTokenMap::getRange) / intersectRanges / subtractRanges that takes them as argument, while other threads read them'),
    'C17-traverseschema-wsfacets-lazy': dict(sig=_sig_wsfacets, warm='schemaload', facs=('schema-load',),
        what='TraverseSchema::getElementAttValue fills the function-local static wsFacets[] lazily (flag set before the table is filled) when two threads load their first schema concurrently'),
    'C17-lockedpool-lazy-contentmodel': dict(sig=_sig_contentmodel, warm='pool', facs=('shared-pool',),
        what='grammars of a lockPool()ed XMLGrammarPoolImpl create their content models lazily and unsynchronised (ComplexTypeInfo/DTDElementDecl::getContentModel) when parsers in different threads validate with them'),
    'C17-shared-regex-lazy-map': dict(sig=_sig_regexmap, warm='pool', facs=('shared-pool',),
        what='RangeToken::match builds fMap lazily and unsynchronised: a pattern facet (RegularExpression) inside a shared locked grammar is matched by two threads'),
    'C17-iskidok-lazy-table': dict(sig=_sig_kidok, warm='kidok', facs=('kidOK',),
        what='data race on the lazily filled function-local static int kidOK[14] in DOMDocumentImpl::isKidOK when two threads do their first DOM insert concurrently'),
    'C17-rangetokenmap-dcl': dict(sig=_sig_rangetoken, warm='rangetoken', facs=('rangetoken:complement',),
        what='RangeTokenMap::getRange reads the category token outside fMutex (double-checked locking) while another thread creates a lazily built complement'),
    # no warm-up possible (the cached token dies with the regex that created it): the generator never combines option "i" with
    # category escapes / shorthands while this id is active
    'C17-rangetoken-casei-cache': dict(sig=_sig_casei, warm=None, facs=(),
        what='RangeToken::getCaseInsensitiveToken caches a token owned by the calling regex in the process-wide category token without synchronisation (data race; use-after-free once that regex is destroyed)'),
}
ACTIVE = [
    'C17-rangetoken-shared-lazy-compact',
    'C17-lockedpool-lazy-contentmodel',
    'C17-shared-regex-lazy-map',
    'C17-rangetoken-casei-cache',
]
WARMABLE = [k for k in ACTIVE if KNOWN[k]['warm']]

CATS = ['L', 'Lu', 'Ll', 'Lo', 'M', 'N', 'Nd', 'P', 'Pd', 'S', 'Sm', 'Z', 'Zs', 'C',
        'IsBasicLatin', 'IsLatin-1Supplement', 'IsGreek', 'IsCyrillic', 'IsHebrew', 'IsHiragana', 'IsCJKUnifiedIdeographs', 'IsGeneralPunctuation',
        # categories whose complement no RangeFactory pre-builds (created lazily in RangeTokenMap::getRange)
        'ALL', 'IsAlpha', 'IsAlnum', 'ASSIGNED', 'IsWord', 'IsSpace', 'ascii:isAscii', 'ascii:isDigit', 'ascii:isWord', 'ascii:isSpace', 'ascii:isXDigit']

TSAN_BASE = 'second_deadlock_stack=1 exitcode=66 history_size=3 report_signal_unsafe=0 external_symbolizer_path=/usr/bin/llvm-symbolizer'
WATCHDOG_S = 240

_TMP = None
def _tmpdir():
    global _TMP
    if _TMP is None:
        _TMP = tempfile.mkdtemp(prefix='verif.')
        atexit.register(shutil.rmtree, _TMP, True)
    return _TMP

# ---------------------------------------------------------------------------------------------------------------
# wire format
# ---------------------------------------------------------------------------------------------------------------
def enc_req(fields):
    parts = [b'REQ %d\n' % len(fields)]
    for k, v in fields.items():
        if isinstance(v, str): v = v.encode('utf-8')
        elif isinstance(v, (int, bool)): v = str(int(v)).encode()
        parts.append(k.encode('utf-8') + b' %d\n' % len(v)); parts.append(v); parts.append(b'\n')
    return b''.join(parts)

def item_fields(it):
    k = it['k']
    if k in ('parse', 'pparse'):
        f = {'k': k, 'api': it['api'], 'feat': it['feat'], 'doc': it['doc'].encode('utf-8')}
        for name, text in sorted(it.get('ents', {}).items()): f['ent:' + name] = text.encode('utf-8')
        return f
    if k == 'dom':
        return {'k': k, 'core': it.get('core', 0), 'prog': '\n'.join('\t'.join(xv.esc(str(x)) for x in op) for op in it['prog'])}
    if k == 'regex':
        f = {'k': k, 'pat': xv.esc(it['pat']), 'opt': it['opt']}
        for i, s in enumerate(it['inputs']): f['in.%d' % i] = xv.esc(s)
        return f
    if k == 'xcode':
        return {'k': k, 'enc': it['enc'], 'text': xv.esc(it['text']), 'reps': it.get('reps', 1)}
    if k == 'storm':
        f = {'k': k, 'reps': it['reps']}
        for i, t in enumerate(it['strs']): f['s.%d' % i] = xv.esc(t)
        return f
    if k == 'life':
        return {'k': k, 'seq': ','.join(it['seq']), 'lifo': it['lifo']}
    if k == 'msg':
        return {'k': k, 'which': ','.join(str(x) for x in it['which'])}
    raise ValueError(k)

POOL_XSD = '''<xs:schema xmlns:xs="http://www.w3.org/2001/XMLSchema" targetNamespace="urn:pool" xmlns:p="urn:pool" elementFormDefault="qualified">
 <xs:element name="root"><xs:complexType><xs:sequence>
   <xs:element name="item" minOccurs="0" maxOccurs="unbounded" type="p:T"/>
   <xs:any namespace="##other" processContents="lax" minOccurs="0" maxOccurs="unbounded"/>
 </xs:sequence><xs:anyAttribute namespace="##other" processContents="lax"/></xs:complexType></xs:element>
 <xs:complexType name="T"><xs:simpleContent><xs:extension base="p:code"><xs:attribute name="n" type="xs:int"/><xs:anyAttribute namespace="##other" processContents="lax"/></xs:extension></xs:simpleContent></xs:complexType>
 <xs:simpleType name="code"><xs:restriction base="xs:string"><xs:pattern value="@PAT@"/></xs:restriction></xs:simpleType>
</xs:schema>'''
POOL_DTD = '''<!ELEMENT droot (ditem*, (dx | dy)?)>
<!ELEMENT ditem (#PCDATA)>
<!ATTLIST ditem k (a|b|c) "a" id ID #IMPLIED>
<!ELEMENT dx EMPTY>
<!ELEMENT dy (#PCDATA | ditem)*>
<!ENTITY pe "pooled entity text">'''
POOLS = {'xsd': {'pool.xsd': POOL_XSD.replace('@PAT@', '[A-Z]{2}[0-9]+')},
         'xsdcat': {'pool.xsd': POOL_XSD.replace('@PAT@', '\\p{Lu}{2}\\d+')},
         'dtd': {'pool.dtd': POOL_DTD},
         'both': {'pool.dtd': POOL_DTD, 'pool.xsd': POOL_XSD.replace('@PAT@', '[A-Z]{2}[0-9]+')}}

_PX = {'k': 'pparse', 'api': 'sax2', 'feat': 'ns=1;val=1;schema=1;usecached=1;scanner=IG'}
_PD = {'k': 'pparse', 'api': 'sax2', 'feat': 'ns=1;val=1;usecached=1;scanner=IG', 'ents': {'pool.dtd': POOL_DTD}}
_WX = [dict(_PX, doc='<p:root xmlns:p="urn:pool" xmlns:o="urn:warm" o:a="1"><p:item n="1" o:b="2">AB12</p:item><p:item>ab</p:item><o:x/></p:root>'),
       dict(_PX, doc='<p:root xmlns:p="urn:pool" xmlns:o="urn:warm"><o:x/><p:item>AB1</p:item><p:zz/></p:root>'),
       dict(_PX, doc='<p:root xmlns:p="urn:pool"><p:item>AB1<p:item/></p:item>text</p:root>')]
_WD = [dict(_PD, doc='<!DOCTYPE droot SYSTEM "pool.dtd"><droot><ditem k="b" id="w1">&pe;</ditem><dy>t<ditem/></dy></droot>'),
       dict(_PD, doc='<!DOCTYPE droot SYSTEM "pool.dtd"><droot><dx/><ditem/></droot>'),
       dict(_PD, doc='<!DOCTYPE droot SYSTEM "pool.dtd"><droot><ditem><dx/></ditem><dx>t</dx></droot>'),
       dict(_PD, doc='<!DOCTYPE droot SYSTEM "pool.dtd"><droot><dy><dx/></dy></droot>')]
POOL_WARM = {'xsd': _WX, 'xsdcat': _WX, 'dtd': _WD, 'both': _WX + _WD, 'deser': []}

# 'deser': the shared pool is serialised and deserialised before it is locked (pool.ser=1).  A restored pool is meant to have every
# content model built eagerly (ComplexTypeInfo::serialize), so NO pool warm-up is done and the lazy-content-model / lazy-map findings of
# loadGrammar()ed pools do not apply to it: a race on fContentModel there is a violation.  No pattern facets (their match maps are
# lazy in any pool), mixed="true" types with sizeable element content next to simple-content / empty / element-only types.
DESER_N = 120
POOL_DESER_XSD = ('<xs:schema xmlns:xs="http://www.w3.org/2001/XMLSchema" targetNamespace="urn:pool" xmlns:p="urn:pool" elementFormDefault="qualified">'
    '<xs:element name="root" type="p:Mixed"/><xs:element name="eroot" type="p:EO"/>'
    '<xs:complexType name="Mixed" mixed="true"><xs:choice minOccurs="0" maxOccurs="unbounded">'
    + ''.join('<xs:element name="e%d" type="xs:%s"/>' % (i, ('string', 'int', 'date', 'boolean')[i % 4]) for i in range(DESER_N)) +
    '<xs:element name="sc" type="p:SC"/><xs:element name="em" type="p:Empty"/><xs:element name="eo" type="p:EO"/><xs:element name="mx" type="p:Mixed2"/>'
    '<xs:any namespace="##other" processContents="lax"/></xs:choice><xs:anyAttribute namespace="##other" processContents="lax"/></xs:complexType>'
    '<xs:complexType name="Mixed2" mixed="true"><xs:sequence>'
    + ''.join('<xs:element name="m%d" type="xs:string" minOccurs="0" maxOccurs="3"/>' % i for i in range(40)) +
    '</xs:sequence><xs:attribute name="k" type="xs:int"/></xs:complexType>'
    '<xs:complexType name="SC"><xs:simpleContent><xs:extension base="xs:int"><xs:attribute name="k" type="xs:NMTOKEN"/></xs:extension></xs:simpleContent></xs:complexType>'
    '<xs:complexType name="Empty"><xs:attribute name="k" type="xs:int"/></xs:complexType>'
    '<xs:complexType name="EO"><xs:sequence><xs:element name="x" type="xs:string" maxOccurs="unbounded"/><xs:element name="y" type="p:SC" minOccurs="0"/>'
    '<xs:element name="z" type="p:Mixed2" minOccurs="0"/></xs:sequence></xs:complexType></xs:schema>')
POOLS['deser'] = {'pool.xsd': POOL_DESER_XSD, 'pool.ser': '1'}
POOL_IDS = [k for k in KNOWN if KNOWN[k]['warm'] == 'pool']      # findings of loadGrammar()ed pools only

def case_bytes(case):
    top = {'n': len(case['threads']), 'seed': str(case['seed']), 'perturb': case['perturb'],
           'prewarm': ','.join(sorted(set(KNOWN[k]['warm'] for k in case.get('prewarm', []) if k in KNOWN and KNOWN[k]['warm']))), 'warmcats': ','.join(CATS)}
    if case.get('pool'):
        for i, it in enumerate(POOL_WARM[case['pool']]): top['poolwarm.%d' % i] = enc_req(item_fields(it))
    if case.get('dump'): top['dump'] = 1
    if case.get('st'): top['st'] = 1
    if case.get('pool'):
        for name, text in POOLS[case['pool']].items(): top[name] = text
    for t, items in enumerate(case['threads']):
        for j, it in enumerate(items):
            top['i.%d.%d' % (t, j)] = enc_req(item_fields(it))
    return enc_req(top)

# ---------------------------------------------------------------------------------------------------------------
# ThreadSanitizer report parsing
# ---------------------------------------------------------------------------------------------------------------
_FRAME = re.compile(r'^\s+#(\d+) (.*)$')
def is_xerces_frame(f):
    # a frame of library code: symbol in namespace xercesc_4_0 AND source file below src/xercesc (the harness' own frames mention
    # xercesc_4_0:: only in their argument lists and live in /verif/harness)
    return '/src/xercesc/' in f and 'xercesc_4_0::' in f

def parse_tsan(stderr):
    """-> list of reports {kind, text, stacks: the two access stacks, loc: allocation stack of the racing location, tops, xerces}"""
    reps = []
    for ch in stderr.split('=================='):
        m = re.search(r'WARNING: ThreadSanitizer: ([^(\n]+?)\s*\(pid=', ch)
        if not m: continue
        kind = m.group(1).strip()
        sections = []; cur = None
        for line in ch.split('\n'):
            fm = _FRAME.match(line)
            if fm:
                if cur is not None: cur[1].append(fm.group(2))
            elif line.startswith('  ') and line.strip():
                cur = (line.strip(), []); sections.append(cur)
            elif not line.strip():
                cur = None
        accs = [(h, fr) for h, fr in sections if re.match(r'(Previous )?(atomic )?(read|write) of size', h, re.I)] or sections[:2]
        acc = [fr for h, fr in accs]; heads = [h for h, fr in accs]
        loc = [fr for h, fr in sections if h.startswith('Location is heap block')]
        allst = [fr for h, fr in sections if not h.startswith('Thread T') and not h.startswith('Mutex M')]
        xer = any(is_xerces_frame(f) for s in allst for f in s)
        tops = []
        for s in acc[:2]:
            xs = [f for f in s if is_xerces_frame(f)]
            if xs: tops.append(xs[0])
        unsym = bool(acc) and not any('/' in f for st_ in acc[:2] for f in st_)      # symbolizer failed (overloaded machine): stacks unusable
        reps.append({'kind': kind, 'text': ch.strip()[:6000], 'stacks': acc[:2], 'heads': heads[:2], 'unsym': unsym, 'loc': loc[0] if loc else [], 'tops': tops, 'xerces': xer})
    return reps

def classify_report(rep, case=None):
    restored = bool(case) and case.get('pool') == 'deser'
    for kid in ACTIVE:
        if restored and kid in POOL_IDS: continue          # a restored pool has its content models built eagerly: not this finding
        if KNOWN[kid]['sig'](rep): return kid
    return None

# ---------------------------------------------------------------------------------------------------------------
# running one case
# ---------------------------------------------------------------------------------------------------------------
def _cpu_ticks(pid):
    try:
        f = open('/proc/%d/stat' % pid).read().rsplit(')', 1)[1].split()
        return int(f[11]) + int(f[12])       # utime + stime of the whole process (all threads), clock ticks
    except Exception:
        return None

def run_once(case, halt=True):
    """-> dict(status='ok'|'fail'|'hang', detail, summary, known=[ids], ignored=int)"""
    flavour = case.get('flavour', 'tsan')
    path = xv.harness_path('xvthr', flavour)
    env = dict(os.environ)
    for k in ('TSAN_OPTIONS', 'ASAN_OPTIONS', 'UBSAN_OPTIONS', 'LSAN_OPTIONS'): env.pop(k, None)
    if flavour == 'tsan':
        env['TSAN_OPTIONS'] = TSAN_BASE + (' halt_on_error=1' if halt else ' halt_on_error=0')
    else:
        env.update(xv.ASAN_ENV)      # (the common-flag parser of a TSan binary would also read UBSAN_OPTIONS' exitcode)
        env['ASAN_OPTIONS'] = env['ASAN_OPTIONS'].replace('detect_leaks=1', 'detect_leaks=0')
    env['LC_ALL'] = 'C.UTF-8'
    data = case_bytes(case)
    with tempfile.TemporaryFile(dir=_tmpdir()) as ef:
        p = subprocess.Popen([path], stdin=subprocess.PIPE, stdout=subprocess.PIPE, stderr=ef, env=env)
        try:
            so, _ = p.communicate(data, timeout=WATCHDOG_S)
        except subprocess.TimeoutExpired:
            # deterministic progress counter: a deadlocked process burns no CPU; a merely slow one (loaded machine) does
            c1 = _cpu_ticks(p.pid); time.sleep(3); c2 = _cpu_ticks(p.pid)
            p.kill(); p.communicate()
            busy = c1 is not None and c2 is not None and c2 - c1 >= 5
            return dict(status='slow' if busy else 'hang', detail='watchdog: no result within %d s (%s)' % (WATCHDOG_S, 'still consuming CPU' if busy else 'idle'),
                        summary=None, known=[], ignored=0)
        ef.seek(0); err = ef.read().decode('utf-8', 'replace')
    class _P: pass
    out = so.decode('utf-8', 'replace'); rcode = p.returncode; p = _P(); p.returncode = rcode
    summary = None
    for line in out.split('\n'):
        if line.startswith('XVTHR '):
            try: summary = json.loads(line[6:])
            except Exception: summary = None
    res = dict(status='ok', detail='ok', summary=summary, known=[], ignored=0)
    problems = []
    if flavour == 'tsan':
        for rep in parse_tsan(err):
            if rep['unsym']:
                res['unsym'] = res.get('unsym', 0) + 1; continue
            if not rep['xerces']:
                res['ignored'] += 1; continue
            kid = classify_report(rep, case)
            if kid: res['known'].append(kid); continue
            problems.append('ThreadSanitizer: %s\n%s' % (rep['kind'], rep['text']))
    rc = p.returncode
    if summary is not None and not summary['digests_equal']:
        problems.append('per-thread results differ from the single-threaded re-run: ' + summary.get('mismatch', ''))
    if summary is None:
        # no summary: the process died before finishing.  A halt on a known / ignored report is not a problem of its own.
        if not (flavour == 'tsan' and rc == 66 and (res['known'] or res['ignored'] or res.get('unsym')) and not problems):
            if not problems or rc != 66:
                problems.append('harness ended without a summary rc=%s\n%s' % (rc, err[-4000:]))
    elif rc not in (0, 3, 66):
        problems.append('abnormal exit rc=%s\n%s' % (rc, err[-4000:]))
    elif rc == 66 and flavour == 'tsan' and not (res['known'] or res['ignored'] or res.get('unsym') or problems):
        problems.append('ThreadSanitizer exit code without a parsable report\n' + err[-4000:])
    if res['known'] and problems:
        # a known race fired in this (not warmed-up) run: further reports / effects in the same run may be consequences of it
        # (e.g. reads of the token published through the racy pointer); the warmed-up cases search behind the finding
        res['shadowed'] = len(problems); res['shadowed_text'] = [re.sub(r'\s+', ' ', x)[:300] for x in problems[:3]]; problems = []
    if problems:
        res['status'] = 'fail'; res['detail'] = '\n\n'.join(problems)[:12000]
        res['crash'] = summary is None or rc not in (0, 3, 66)
    elif res.get('unsym'):
        res['status'] = 'unsym'; res['detail'] = 'ThreadSanitizer report(s) without symbolized stacks'
    return res

def run_case(case, attempts=1):
    """Run up to `attempts` times; the first failing run decides.  Hangs: replay 3x, violation only if 3/3 hang."""
    halt = not [k for k in WARMABLE if k not in case.get('prewarm', []) and not (case.get('pool') == 'deser' and k in POOL_IDS)]     # known reports expected -> do not stop at the first one
    last = None
    for a in range(attempts):
        r = run_once(case, halt)
        for _ in range(2):
            if r['status'] != 'unsym': break
            r = run_once(case, halt)          # the report could not be classified: run again
        if r['status'] == 'unsym':
            r['status'] = 'inconclusive'; return r
        if r['status'] == 'slow':
            r['status'] = 'inconclusive'; return r
        if r['status'] == 'hang':
            hangs = 1
            for _ in range(2):
                if run_once(case, halt)['status'] == 'hang': hangs += 1
                else: break
            if hangs == 3:
                r['status'] = 'fail'; r['detail'] = 'case hangs 3/3 (watchdog %d s each): deadlock or livelock' % WATCHDOG_S
            else:
                r['status'] = 'inconclusive'
            return r
        last = r
        if r['status'] == 'fail' and r.get('crash') and not case.get('st'):
            # control: the same lists executed sequentially on one thread.  A crash that also happens there is a plain defect of a
            # work item (another property's business), not a concurrency failure: dropped and counted.
            c = run_once(dict(case, st=1), halt)
            if c['status'] == 'fail' and c.get('crash'):
                r['status'] = 'st-defect'; return r
        if r['status'] == 'fail': return r
        live = (r['summary'] or {}).get('pool_live', -1)
        if r['status'] == 'ok' and live > 0 and not r['known'] and not case.get('st'):
            # memory ledger of the restored pool's own memory manager after teardown: compared with the single-threaded control run
            c = run_once(dict(case, st=1), halt)
            clive = (c['summary'] or {}).get('pool_live', -1)
            if c['status'] == 'ok' and clive >= 0 and clive != live:
                r['status'] = 'fail'
                r['detail'] = ('blocks of the shared (restored, locked) pool\'s memory manager still live after the pool was deleted: %d after the '
                               'concurrent run, %d after the same lists run on one thread (objects created lazily inside the shared grammar by racing parsers are lost)' % (live, clive))
                return r
    return last

# ---------------------------------------------------------------------------------------------------------------
# generators
# ---------------------------------------------------------------------------------------------------------------
NAMES = ['a', 'b', 'c', 'item', 'x1', 'data', 'n-m', '_u', 'él', 'αβ']
TEXTS = ['', 'x', 'hello world', 'AB12', 'ab', 'été', 'Ωμέγα', 'Жук', '中文', 'あい', '12 345', 'a&b<c', ' lead', '€9', 'Zz-9_.', '\U0001d400x']
APIS = ['sax2', 'dom', 'sax1', 'domls']
xml_esc = lambda s: s.replace('&', '&amp;').replace('<', '&lt;').replace('"', '&quot;')

@st.composite
def tree(draw, depth=0, nsmap=None):
    name = draw(st.sampled_from(NAMES))
    attrs = draw(st.lists(st.tuples(st.sampled_from(NAMES), st.sampled_from(TEXTS)), max_size=2, unique_by=lambda t: t[0]))
    s = '<' + name + ''.join(' %s="%s"' % (a, xml_esc(v)) for a, v in attrs)
    kids = []
    if depth < 2:
        for _ in range(draw(st.integers(0, 3))):
            if draw(st.booleans()): kids.append(xml_esc(draw(st.sampled_from(TEXTS))))
            else: kids.append(draw(tree(depth + 1)))
    if not kids and draw(st.booleans()): return s + '/>'
    return s + '>' + ''.join(kids) + '</' + name + '>'

@st.composite
def pattern(draw):
    atoms = []
    for _ in range(draw(st.integers(1, 4))):
        k = draw(st.integers(0, 9))
        if k <= 3: a = '\\%s{%s}' % (draw(st.sampled_from('pP')), draw(st.sampled_from(CATS)))
        elif k == 4: a = draw(st.sampled_from(['\\w', '\\W', '\\d', '\\D', '\\s', '\\S', '\\i', '\\c']))
        elif k == 5: a = '[\\p{%s}-[\\p{%s}]]' % (draw(st.sampled_from(CATS)), draw(st.sampled_from(CATS)))
        elif k == 6: a = '[\\p{%s}\\p{%s}a-f]' % (draw(st.sampled_from(CATS)), draw(st.sampled_from(CATS)))
        elif k == 7: a = draw(st.sampled_from(['[a-z]', '[^0-9]', '.', 'x', 'AB', '(a|é)']))
        elif k == 8: a = '[^\\p{%s}]' % draw(st.sampled_from(CATS))
        else: a = '(\\p{%s}|\\d)' % draw(st.sampled_from(CATS))
        a += draw(st.sampled_from(['', '', '*', '+', '?', '{1,3}']))
        atoms.append(a)
    return ''.join(atoms)

@st.composite
def parse_item(draw):
    api = draw(st.sampled_from(APIS))
    mode = draw(st.sampled_from(['wf', 'wf', 'bad', 'dtd', 'dtd', 'xsd', 'xsd', 'xsd']))
    ns = draw(st.booleans())
    scanner = draw(st.sampled_from(['IG', 'IG', 'WF', 'DG', 'SG']))
    if mode in ('wf', 'bad'):
        body = draw(tree())
        if mode == 'bad':
            body = draw(st.sampled_from([body + '<', body[:-1], '<r>&undefined;</r>', '<r a="1" a="2"/>', body + body, '<r>\x01</r>', '<?xml version="9.9"?><r/>']))
        doc = draw(st.sampled_from(['', '<?xml version="1.0" encoding="UTF-8"?>\n', '<?xml version="1.1"?>'])) + body
        if mode == 'bad' and body.startswith('<?xml'): doc = body
        feat = 'ns=%d;val=0;scanner=%s' % (ns, scanner)
        return {'k': 'parse', 'api': api, 'feat': feat, 'doc': doc}
    if mode == 'dtd':
        kids = draw(st.lists(st.sampled_from(['<i k="a">t</i>', '<i>é</i>', '<i k="zz"/>', '<j/>', '<u/>', 'text', '<i id="x1"/>', '<i id="x1" k="b">&e;</i>']), max_size=4))
        dtd = '<!DOCTYPE r [<!ELEMENT r (i*, j?)><!ELEMENT i (#PCDATA)><!ATTLIST i k (a|b) "a" id ID #IMPLIED><!ELEMENT j EMPTY><!ENTITY e "enté">]>'
        doc = dtd + '<r>' + ''.join(kids) + '</r>'
        feat = 'ns=%d;val=1;scanner=%s' % (ns, draw(st.sampled_from(['IG', 'DG'])))
        return {'k': 'parse', 'api': api, 'feat': feat, 'doc': doc}
    pats = draw(st.lists(pattern(), min_size=1, max_size=2))
    types = ''.join('<xs:simpleType name="t%d"><xs:restriction base="xs:string"><xs:pattern value="%s"/></xs:restriction></xs:simpleType>' % (i, xml_esc(p)) for i, p in enumerate(pats))
    els = ''.join('<xs:element name="v%d" type="t%d" minOccurs="0" maxOccurs="unbounded"/>' % (i, i) for i in range(len(pats)))
    xsd = ('<xs:schema xmlns:xs="http://www.w3.org/2001/XMLSchema">' + types +
           '<xs:element name="r"><xs:complexType><xs:sequence>' + els + '</xs:sequence><xs:attribute name="d" type="xs:date"/></xs:complexType></xs:element></xs:schema>')
    vals = ''.join('<v%d>%s</v%d>' % (i, xml_esc(draw(st.sampled_from(TEXTS))), i) for i in range(len(pats)) for _ in range(draw(st.integers(0, 2))))
    dattr = draw(st.sampled_from(['', ' d="2001-02-03"', ' d="2001-02-30"']))
    doc = '<r xmlns:xsi="http://www.w3.org/2001/XMLSchema-instance" xsi:noNamespaceSchemaLocation="s.xsd"%s>%s</r>' % (dattr, vals)
    feat = 'ns=1;val=1;schema=1;scanner=%s' % draw(st.sampled_from(['IG', 'SG']))
    return {'k': 'parse', 'api': api, 'feat': feat, 'doc': doc, 'ents': {'s.xsd': xsd}}

@st.composite
def dparse_item(draw):
    """instance of the big mixed="true" type of the restored pool: structure always valid (values may be wrong), new namespace URIs"""
    uri = 'urn:c17:%d:d' % draw(st.integers(0, 10 ** 6))
    kids = []
    for _ in range(draw(st.integers(1, 8))):
        k = draw(st.integers(0, 9))
        if k <= 4:
            i = draw(st.integers(0, DESER_N - 1)); v = draw(st.sampled_from(['x', '12', '2001-02-03', 'true', 'été', '']))
            kids.append('<p:e%d>%s</p:e%d>' % (i, v, i))
        elif k == 5: kids.append('<p:sc k="%s">%s</p:sc>' % (draw(st.sampled_from(['a', 'b c'])), draw(st.sampled_from(['1', 'x']))))
        elif k == 6: kids.append('<p:em k="1"/>')
        elif k == 7: kids.append('<p:eo><p:x>t</p:x><p:y>7</p:y><p:z k="2">m<p:m3>a</p:m3>n<p:m9>b</p:m9></p:z></p:eo>')
        elif k == 8: kids.append('<p:mx>t<p:m0>a</p:m0>u<p:m1>b</p:m1><p:m39>c</p:m39></p:mx>')
        else: kids.append('<n:any xmlns:n="%s" n:a="1"><n:b/></n:any>' % uri)
        if draw(st.booleans()): kids.append(draw(st.sampled_from(['text', ' Ωμέγα ', '&amp;'])))
    if draw(st.integers(0, 5)) == 0:
        doc = '<p:eroot xmlns:p="urn:pool"><p:x>a</p:x><p:z>m<p:m1>q</p:m1></p:z></p:eroot>'
    else:
        doc = '<p:root xmlns:p="urn:pool" xmlns:o="%s" o:attr="1">lead%s</p:root>' % (uri, ''.join(kids))
    return {'k': 'pparse', 'api': draw(st.sampled_from(APIS)), 'feat': 'ns=1;val=1;schema=1;usecached=1;scanner=%s' % draw(st.sampled_from(['IG', 'SG'])), 'doc': doc}

@st.composite
def pparse_item(draw, pool):
    if pool == 'deser': return draw(dparse_item())
    api = draw(st.sampled_from(APIS))
    uris = ['urn:c17:%d:%s' % (draw(st.integers(0, 10 ** 6)), c) for c in 'abc']
    use_dtd = pool == 'dtd' or (pool == 'both' and draw(st.booleans()))
    if use_dtd:
        kids = draw(st.lists(st.sampled_from(['<ditem>t</ditem>', '<ditem k="b" id="i1">&pe;</ditem>', '<ditem k="q"/>', '<dx/>', '<dy>z<ditem/></dy>', '<zz/>']), max_size=4))
        doc = '<!DOCTYPE droot SYSTEM "pool.dtd"><droot xmlns:n0="%s">%s<n1:e xmlns:n1="%s" n1:a="1"/></droot>' % (uris[0], ''.join(kids), uris[1]) if draw(st.booleans()) else \
              '<!DOCTYPE droot SYSTEM "pool.dtd"><droot>%s</droot>' % ''.join(kids)
        feat = 'ns=1;val=1;usecached=1;scanner=%s' % draw(st.sampled_from(['IG', 'DG']))
        return {'k': 'pparse', 'api': api, 'feat': feat, 'doc': doc, 'ents': {'pool.dtd': POOL_DTD}}
    items = ''.join('<p:item n="%s" q:z="1" xmlns:q="%s">%s</p:item>' % (draw(st.sampled_from(['1', '22', 'x'])), uris[2], draw(st.sampled_from(['AB12', 'ZZ9', 'ab1', 'ÉÉ12', 'A1'])))
                    for _ in range(draw(st.integers(0, 3))))
    extra = ''.join('<n%d:e xmlns:n%d="%s" n%d:a="v"><n%d:f/></n%d:e>' % (i, i, uris[i], i, i, i) for i in range(draw(st.integers(0, 2))))
    doc = '<p:root xmlns:p="urn:pool" xmlns:o="%s" o:attr="1">%s%s</p:root>' % (uris[0], items, extra)
    feat = 'ns=1;val=1;schema=1;usecached=1;scanner=%s' % draw(st.sampled_from(['IG', 'SG']))
    return {'k': 'pparse', 'api': api, 'feat': feat, 'doc': doc}

@st.composite
def dom_item(draw):
    prog = []
    if draw(st.booleans()):
        prog.append(['doctype', draw(st.sampled_from(['r', 'p:r', 'html'])), draw(st.sampled_from(['', '-//C17//EN'])), draw(st.sampled_from(['', 'r.dtd', 'http://x/é.dtd']))])
    ns = draw(st.sampled_from(['', '', 'urn:r']))
    prog.append(['doc', ns, 'p:r' if ns and draw(st.booleans()) else 'r', int(draw(st.booleans()))])
    for _ in range(draw(st.integers(1, 10))):
        k = draw(st.sampled_from(['el', 'el', 'el', 'elns', 'txt', 'txt', 'com', 'cd', 'pi', 'attr', 'attr', 'attrns', 'rm', 'mv', 'mv', 'clone', 'norm', 'doctype']))
        i = draw(st.integers(0, 40))
        if k == 'el': prog.append(['el', i, draw(st.sampled_from(NAMES + ['1bad']))])
        elif k == 'elns': prog.append(['elns', i, draw(st.sampled_from(['urn:a', 'urn:b', ''])), draw(st.sampled_from(['q:e', 'e', 'xmlns:bad']))])
        elif k in ('txt', 'com', 'cd'): prog.append([k, i, draw(st.sampled_from(TEXTS + ['--', ']]>']))])
        elif k == 'pi': prog.append(['pi', i, draw(st.sampled_from(['t', 'xml', 'p-i'])), draw(st.sampled_from(TEXTS))])
        elif k == 'attr': prog.append(['attr', i, draw(st.sampled_from(NAMES)), draw(st.sampled_from(TEXTS))])
        elif k == 'attrns': prog.append(['attrns', i, draw(st.sampled_from(['urn:a', ''])), draw(st.sampled_from(['q:at', 'at'])), draw(st.sampled_from(TEXTS))])
        elif k == 'rm': prog.append(['rm', i])
        elif k == 'mv': prog.append(['mv', i, draw(st.integers(0, 40))])
        elif k == 'clone': prog.append(['clone', i, int(draw(st.booleans()))])
        elif k == 'norm': prog.append(['norm', i])
        else: prog.append(['doctype', 'late', '', 's.dtd'])
    prog.append(['ser', draw(st.integers(0, 2))])
    return {'k': 'dom', 'core': int(draw(st.booleans())), 'prog': prog}

_SHARED_TOKEN = re.compile(r'\\[pPwWdDsSiIcC]')
@st.composite
def regex_item(draw):
    pat = draw(pattern()); opt = draw(st.sampled_from(['', '', 'X', 'i', 'iX']))
    it = {'k': 'regex', 'pat': pat, 'opt': opt, 'inputs': draw(st.lists(st.sampled_from(TEXTS), min_size=1, max_size=5))}
    if '-[' in pat and 'X' not in opt:
        opt = opt + 'X'; it['opt'] = opt      # class subtraction is schema-mode syntax (outside it: single-threaded crash, see report)
    if 'i' in opt and 'C17-rangetoken-casei-cache' in ACTIVE and _SHARED_TOKEN.search(pat):
        # excluded by construction (known finding): case-insensitive matching on process-wide category tokens
        it['opt'] = opt.replace('i', ''); it['excluded'] = 'C17-rangetoken-casei-cache'
    return it

ENCS = ['', '', '', 'UTF-8', 'UTF-16LE', 'ISO-8859-1', 'windows-1252', 'US-ASCII', 'Shift_JIS', 'koi8-r', 'ibm037', 'GB2312', 'UTF-32BE', 'ibm1140']
@st.composite
def xcode_item(draw):
    text = ''.join(draw(st.lists(st.sampled_from([t for t in TEXTS if t]), min_size=1, max_size=6)))
    big = draw(st.integers(0, 5)) == 0
    return {'k': 'xcode', 'enc': draw(st.sampled_from(ENCS)), 'text': text * (40 if big else 1), 'reps': draw(st.sampled_from([1, 1, 3, 20]))}

STORM_CHUNKS = ['Жук', 'Привет мир ', '中文', '漢字かな', 'Ωμέγα', 'été€', 'Ж', '中', 'Жx', 'ab中', 'abc']      # mostly non-ASCII: UTF-8 form > 1.25 x length
@st.composite
def storm_item(draw):
    """xcode-storm: many rounds on the ONE process-wide local-code-page converter; lengths 1..200 so that both the first-try
    path (ASCII-dominant / very short) and the retry path (UTF-8 longer than len*1.25+1) of ICULCPTranscoder::transcode occur"""
    strs = []
    for _ in range(draw(st.integers(1, 6))):
        chunk = draw(st.sampled_from(STORM_CHUNKS)); L = draw(st.integers(1, 200))
        strs.append((chunk * (L // len(chunk) + 1))[:L])
    return {'k': 'storm', 'strs': strs, 'reps': draw(st.sampled_from([2000, 5000, 10000, 20000]))}

STORM_TOTAL = 120000      # bound on (threads running a storm) x rounds per case: keeps a TSan case at ~2 s CPU
def cap_storms(threads):
    items = [it for t in threads for it in t if it['k'] == 'storm']
    if items:
        cap = max(500, STORM_TOTAL // len(items))
        for it in items: it['reps'] = min(it['reps'], cap)
    return threads

life_item = st.builds(lambda seq, lifo: {'k': 'life', 'seq': seq, 'lifo': int(lifo)},
                      st.lists(st.sampled_from(['s1', 's2', 'd', 'dw', 'ds', 'l', 'w', 'src']), min_size=1, max_size=6), st.booleans())
msg_item = st.builds(lambda w: {'k': 'msg', 'which': w}, st.lists(st.integers(0, 7), min_size=1, max_size=4))

def item_strategy(pool):
    alts = [parse_item(), parse_item(), dom_item(), dom_item(), regex_item(), regex_item(), xcode_item(), life_item, msg_item, storm_item()]
    if pool: alts += [pparse_item(pool)] * 4
    return st.one_of(*alts)

@st.composite
def case_strategy(draw, tier='quick'):
    ns = [2, 2, 2, 3, 3, 3, 4, 4, 4, 4, 8, 8, 16] if tier == 'quick' else [2, 3, 3, 4, 4, 8, 8, 16]
    n = draw(st.sampled_from(ns))
    pool = draw(st.sampled_from([None, None, None, 'xsd', 'xsdcat', 'dtd', 'both', 'deser', 'deser']))
    maxlen = 12 if n <= 4 else 6
    # homogeneous first items make concurrent first use of one facility likely: optionally give every thread the same kind of first item
    threads = draw(st.lists(st.lists(item_strategy(pool), min_size=1, max_size=maxlen), min_size=n, max_size=n))
    lead = draw(st.sampled_from([None, None, 'dom', 'regex', 'xcode', 'pparse' if pool else 'parse', 'parse', 'storm', 'storm', 'storm']))
    if pool == 'deser': lead = 'pparse'        # every thread's FIRST item validates the big mixed type of the restored pool right after the barrier
    if lead:
        gen = {'storm': storm_item(), 'dom': dom_item(), 'regex': regex_item(), 'xcode': xcode_item(), 'parse': parse_item(), 'pparse': pparse_item(pool) if pool else parse_item()}[lead]
        threads = [[draw(gen)] + t for t in threads]
    threads = cap_storms(threads)
    case = {'threads': threads, 'seed': draw(st.integers(0, 2 ** 32 - 1)), 'perturb': int(draw(st.booleans())), 'pool': pool,
            'flavour': draw(st.sampled_from(['tsan'] * 5 + ['asan']))}
    # step over active known findings in 7 of 8 cases; the remaining ones keep measuring that the finding is still there
    cold = draw(st.sampled_from([False] * 7 + [True]))
    case['prewarm'] = [] if cold else [k for k in WARMABLE if not (pool == 'deser' and k in POOL_IDS)]
    return case

# ---------------------------------------------------------------------------------------------------------------
LAZY = ('rangetoken:complement', 'kidOK', 'schema-load', 'lcp-storm', 'domimpl-registry', 'doctype-ownerless', 'lcp', 'transservice',
        'uripool', 'shared-pool', 'scanner-id', 'msgload')

def labels_of(case, summary):
    L = ['n:%d' % len(case['threads']), 'flavour:' + case.get('flavour', 'tsan'), 'pool:%s' % case.get('pool'), 'perturb:%d' % case['perturb'],
         'prewarm:' + ('+'.join(sorted(k.split('-')[1] for k in case.get('prewarm', []))) or 'none')]
    kinds = set(it['k'] for t in case['threads'] for it in t)
    L += ['kind:' + k for k in sorted(kinds)]
    shared = []
    if summary:
        for f, cnt in summary['facilities'].items():
            if cnt >= 2 and f in LAZY:
                shared.append(f); L.append('shared:' + f)
                if summary['first_item'].get(f, 0) >= 2: L.append('cold2:' + f)
    return L, shared

_failed_cache = {}

def worker(ctx):
    st_ = ctx.stats
    st_.extra['ignored_reports'] = 0; st_.extra['known_reports'] = {}; st_.extra['asan_cases'] = 0
    def fail(case, detail):          # single raise site (Hypothesis keys failures by origin)
        raise PropertyFailure(case, detail)
    def prop(case):
        h = xv.sha(case)
        if h in _failed_cache:
            return fail(case, _failed_cache[h])
        r = run_case(case)
        L, shared = labels_of(case, r['summary'])
        st_.note(h, bool(shared), L)
        st_.sample({'n': len(case['threads']), 'pool': case['pool'], 'seed': case['seed'], 'first_items': [t[0]['k'] for t in case['threads']],
                    'facilities': r['summary'] and r['summary']['facilities']})
        st_.extra['ignored_reports'] += r['ignored']
        if case.get('flavour') == 'asan': st_.extra['asan_cases'] += 1
        for kid in set(r['known']):
            st_.extra['known_reports'][kid] = st_.extra['known_reports'].get(kid, 0) + 1
        nx = sum(1 for t in case['threads'] for it in t if it.get('excluded') == 'C17-rangetoken-casei-cache')
        if nx: st_.excluded_known['C17-rangetoken-casei-cache'] += nx
        if r.get('shadowed'):
            st_.extra['shadowed_by_known'] = st_.extra.get('shadowed_by_known', 0) + r['shadowed']
            st_.extra.setdefault('shadowed_samples', []); st_.extra['shadowed_samples'] = (st_.extra['shadowed_samples'] + r['shadowed_text'])[:6]
        for kid in case.get('prewarm', []):
            # the input class of the finding (>=2 threads first-using the racy facility) was present and stepped over by the warm-up
            if r['summary'] and any(r['summary']['facilities'].get(f, 0) >= 2 for f in KNOWN[kid]['facs']):
                st_.excluded_known[kid] += 1
        if r['status'] == 'st-defect':
            st_.extra['single_threaded_defects'] = st_.extra.get('single_threaded_defects', 0) + 1
            st_.extra.setdefault('single_threaded_defect_samples', [])
            if len(st_.extra['single_threaded_defect_samples']) < 3:
                st_.extra['single_threaded_defect_samples'].append(re.sub(r'\s+', ' ', r['detail'])[:600])
            return
        if r['status'] == 'inconclusive':
            st_.inconclusive += 1; return
        if r['status'] == 'fail' and r['detail'].startswith('case hangs 3/3'):
            st_.failures.append({'case': case, 'detail': r['detail']}); return
        if r['status'] == 'fail':
            _failed_cache[h] = r['detail']
            return fail(case, r['detail'])
    hyp_run(ctx, case_strategy(ctx.tier), prop, ctx.budget)

def replay(case, ctx):
    if case.get('witness_of'):
        # witness of a known finding: "fails" while the finding's report still appears (no warm-up, up to 6 attempts)
        kid = case['witness_of']
        if kid not in KNOWN: return True, 'unknown finding id'
        for _ in range(6 if kid in ACTIVE else 2):      # fixed findings (regress/): 3 attempts keep the regression replay cheap
            r = run_once(case, halt=False)
            if kid in r['known'] or (kid not in ACTIVE and r['status'] == 'fail'):
                return False, 'KNOWN %s still present: %s' % (kid, KNOWN[kid]['what'])
        return True, 'finding %s no longer reproduces' % kid
    # xcode-storm failures are probabilistic per run (a lock around uninstrumented state was lost): more attempts
    r = run_case(case, attempts=20 if any(it['k'] == 'storm' for t in case['threads'] for it in t) else 6)
    if r['status'] == 'fail': return False, r['detail']
    return True, 'ok (%s)' % r['status']

def classify(case, detail):
    if case.get('witness_of') and detail.startswith('KNOWN '): return case['witness_of']
    return None

def known_witnesses():
    out = []
    d = os.path.join(xv.VERIF, 'regress-known', ID)
    for kid in ACTIVE:
        p = os.path.join(d, kid + '.json')
        if os.path.exists(p):
            obj = json.load(open(p)); out.append((kid, obj.get('case', obj)))
    return out
