"""C11 -- regular expressions match exactly the language their syntax defines (M6 model + Python `re` witness)."""
import os, re
from hypothesis import strategies as st
import xv, regexmodel as rm
from driver import hyp_run, PropertyFailure

ID = 'C11'
HARNESS = {'asan': ['xv_regex']}
RULE = ('one case = one generated M6 pattern (XML Schema dialect, option X) with its subject set: every string over the pattern\'s own '
        'alphabet (<=4 symbols, incl. a sentinel tail symbol for half of the patterns) up to length 5 (4 on the quick tier when the alphabet has '
        '4 symbols) + sampled members, one-edit neighbours of members and random strings up to length 40 (less when the estimated backtracking cost C(n+v,v), v = variable-quantifier instances, exceeds 2e6; 12 when a variable quantifier spans more than one atom, 7 when quantifiers nest 3 deep) '
        'over the curated alphabet incl. supplementary characters; per case also: well-formed => constructor does not throw, 2 '
        'malformed mutations => ParseException, option/Match/fresh-object/reuse-order variants and the window form on a subject subset '
        '(metamorphic against the primary verdict), and for every 3rd case the same pattern in the non-schema dialect (search verdict, match '
        'positions, F/H independence, tokenize/replace/allMatches consistency). non-trivial = pattern has >=1 quantifier or class operation '
        '(negation, range, escape, subtraction) AND the asserted subject set contains both a member and a non-member; distinct by '
        'sha1(pattern text, subject set).')
ASSUMPTIONS = ['membership of a character in \\p{..}, \\d, \\w, \\i, \\c is asserted only on the curated alphabet (hand-written table = unicodedata 14.0 on it); '
               'supplementary characters and characters on which XML 1.0 2e / XML 1.1 name classes disagree are kept out of such patterns\' subjects',
               'a subject on which the NFA model and Python re disagree is dropped (oracle_disagreements)',
               'known finding C11-schema-first-success: members that have a proper prefix which is also a member, for patterns with a * + {n,} {n,m} '
               'quantifier and no sentinel tail, are not asserted (counted in excluded_known); they still take part in all metamorphic comparisons',
               'known finding C11-backref-escape: \\<digit> in the schema dialect is not generated as a malformed pattern',
               'search dialect: asserted are the boolean verdict (some substring is a member), the match start (leftmost) and that the reported '
               'match is a member; WHICH of several possible ends is reported is implementation-defined and only used for consistency checks']
BUDGET = {"quick": 320, "thorough": 3200}
WALLCAP = {'quick': 500, 'thorough': 2700}
if os.environ.get('C11_BUDGET'): BUDGET = {'quick': int(os.environ['C11_BUDGET']), 'thorough': int(os.environ['C11_BUDGET'])}     # development knob (sensitivity runs)

EXCLUDE_FIRST_SUCCESS = os.environ.get('C11_NO_EXCLUDE', '') == ''      # set C11_NO_EXCLUDE=1 once the finding is fixed in the tree
F_FIRST = 'C11-schema-first-success'
F_BACKREF = 'C11-backref-escape'
F_FIXEDEND = 'C11-fixedstring-endpos'
F_RECURSION = 'C11-nested-nullable-closure-recursion'
F_HEAD_ANY = 'C11-headchar-dot-swallowed'
F_HEAD_EMPTY = 'C11-headchar-empty-class-oob'
F_ADDRANGE = 'C11-addrange-tail-overlap'
F_SURR_OVERLAP = 'C11-overlap-surrogate'
F_DOTSTAR = 'C11-dotstar-prefix-start'
EXCLUDE_SURR_OVERLAP = os.environ.get('C11_NO_EXCLUDE_SURR', '') == ''
EXCLUDE_HEAD_EMPTY = False      # fixed in /repo (fix: commit landed); class is generated and asserted again
EXCLUDE_HEAD_SURR = False      # fixed in /repo (fix: commit landed); class is generated and asserted again
EXCLUDE_FIXEDEND = False      # fixed in /repo (fix: commit landed); class is generated and asserted again
EXCLUDE_ADDRANGE = False      # fixed in /repo (fix: commit landed); class is generated and asserted again
F_HEAD_SURR = 'C11-headchar-surrogate'
EXCLUDE_RECURSION = os.environ.get('C11_NO_EXCLUDE_RECURSION', '') == ''

def literal_only(n):
    """the non-schema compiler turns such a pattern into ONE string/char operation ("fixed string only" Boyer-Moore path)"""
    k = n[0]
    if k in ('lit', 'empty'): return True
    if k == 'seq': return all(literal_only(c) for c in n[1])
    if k == 'rep': return n[2] == n[3] and literal_only(n[1])
    return False
SENTINELS = [';', '#', ',', '€', 'Z']

def u16len(s): return len(s.encode('utf-16-le')) // 2

# ------------------------------------------------------------------------------------------------------------------
# executor access
# ------------------------------------------------------------------------------------------------------------------
class Watchdog(Exception): pass

# Hard bound on the Python `re` witness (a backtracking engine without a step limit, whose single-character repeat loops do not
# even poll for signals):
#  (a) structural: long subjects are generated only up to rm.backtrack_len_bound(ast) characters, and the witness is not asked about a
#      subject longer than that (counted re_skipped);
#  (b) hard: for every pattern that is not trivially cheap the witness runs in a forked child that streams its answers through a pipe;
#      after RE_SECONDS without the complete answer the child is killed and the unanswered subjects are dropped (counted re_timeout).
# A subject without a witness answer is never asserted.
import select, signal, struct, time as _time
RE_SECONDS = 20

def witness_answers(fn, subjects, fork):
    """-> list of ints (fn(s) for s in subjects; None where the witness gave no answer).  fn returns an int in [-2, 32000]."""
    if not fork:
        out = []
        for s in subjects:
            try: out.append(fn(s))
            except RecursionError: out.append(None)
        return out
    r, w = os.pipe()
    pid = os.fork()
    if pid == 0:
        try:
            os.close(r)
            for s in subjects:
                try: v = fn(s)
                except RecursionError: v = -3
                os.write(w, struct.pack('<h', v))
        finally:
            os._exit(0)
    os.close(w)
    buf = b''; deadline = _time.monotonic() + RE_SECONDS; need = 2 * len(subjects)
    while len(buf) < need:
        left = deadline - _time.monotonic()
        if left <= 0: break
        rr, _, _ = select.select([r], [], [], left)
        if not rr: break
        chunk = os.read(r, 65536)
        if not chunk: break
        buf += chunk
    os.close(r)
    if len(buf) < need:
        try: os.kill(pid, signal.SIGKILL)
        except OSError: pass
    os.waitpid(pid, 0)
    vals = [struct.unpack_from('<h', buf, 2 * i)[0] for i in range(len(buf) // 2)]
    vals = [None if v == -3 else v for v in vals]
    return vals + [None] * (len(subjects) - len(vals))

def call(ex, kind, pattern, opts, subjects, mode='', wins=None, rep=None):
    req = {'kind': kind, 'pat': xv.esc(pattern), 'opts': opts, 'n': len(subjects), 'subj': '\n'.join(xv.esc(s) for s in subjects), 'mode': mode}
    if wins is not None: req['win'] = '\n'.join('-' if w is None else '%d,%d' % tuple(w) for w in wins)
    if rep is not None: req['rep'] = xv.esc(rep)
    try:
        resp = ex.request(req, timeout=int(os.environ.get('C11_TIMEOUT', '40')))
    except xv.ExecutorDied as e:
        if e.rc == -9 and 'ERROR: ' not in e.stderr:
            if os.environ.get('C11_DEBUG'): print('WATCHDOG', kind, repr(pattern), opts, mode, len(subjects), flush=True)
            raise Watchdog()
        raise
    lines = resp.split('\n')
    if lines and lines[-1] == '': lines.pop()
    return lines[0], lines[1:]

def crash_case(pattern, opts, subjects, mode, wins, kind='regex', rep=None):
    return {'kind': 'crash', 'req': kind, 'pattern': pattern, 'opts': opts, 'subjects': subjects, 'mode': mode, 'wins': wins, 'rep': rep}

# ------------------------------------------------------------------------------------------------------------------
# case strategy
# ------------------------------------------------------------------------------------------------------------------
@st.composite
def case_strategy(draw, maxdepth):
    ast, base = draw(rm.gen_pattern(maxdepth))
    c = {'ast': ast, 'base': base}
    c['sentinel'] = draw(st.booleans())
    c['extra'] = [draw(st.sampled_from(rm.BASE_POOL)) for _ in range(2)]
    c['tapes'] = draw(st.lists(st.lists(st.integers(0, 1 << 16), min_size=1, max_size=24), min_size=3, max_size=8))
    c['rand'] = draw(st.lists(st.lists(st.integers(0, 63), min_size=6, max_size=40), min_size=2, max_size=5))
    c['edits'] = draw(st.lists(st.tuples(st.integers(0, 2), st.integers(0, 63), st.integers(0, 63)), min_size=4, max_size=8))
    c['variant'] = draw(st.tuples(st.sampled_from(['XF', 'XH', 'XFH', 'FXH', 'HX', 'X']), st.sampled_from(['', 'm', 'p', 'r', 'rm'])))
    c['pads'] = draw(st.lists(st.tuples(st.lists(st.integers(0, 63), max_size=4), st.lists(st.integers(0, 63), max_size=4)), min_size=3, max_size=6))
    c['mal'] = draw(st.lists(st.integers(0, len(rm.MALFORMED_RULES) + len(rm.BACKREF_RULES) - 1), min_size=2, max_size=2))
    c['order'] = draw(st.lists(st.integers(0, 7), min_size=12, max_size=24))
    c['search'] = draw(st.integers(0, 2)) == 0
    c['sopts'] = draw(st.sampled_from(['', '', 's', 'm', 'sm']))
    c['repl'] = draw(st.sampled_from(['', 'X', '<$0>', '[$1]', '\\$', '$0$0', 'é']))
    c['seqlane'] = draw(st.booleans())
    c['seq'] = draw(st.lists(st.tuples(st.integers(0, 3), st.integers(0, 63)), min_size=8, max_size=20))
    c['bref'] = draw(st.integers(0, 8))
    c['hand'] = draw(st.integers(0, len(rm.CAPTURE_HAND) - 1))
    return c

def add_sentinel(ast, lang0):
    """append a literal that no atom of the pattern can match: then no proper prefix of a member is a member"""
    for ch in SENTINELS:
        if ch in lang0.unsafe: continue
        if any(ch in s for s in lang0.sets): continue
        body = ast if ast[0] not in ('alt',) else ('grp', ast)
        if body[0] == 'seq': return ('seq', list(body[1]) + [('lit', ch, False)]), ch
        return ('seq', [body, ('lit', ch, False)]), ch
    return ast, None

def build_subjects(c, lang, syms, tier):
    """-> list of subjects (exhaustive part first, then the long ones), deduplicated, in a deterministic order"""
    k = len(syms)
    L = 5 if (k <= 3 or tier == 'thorough') else 4
    out = ['']; frontier = ['']
    for _ in range(L):
        frontier = [p + ch for p in frontier for ch in syms]
        out.extend(frontier)
    nshort = len(out)
    # bound the backtracking cost of BOTH backtracking engines involved (Xerces and the Python `re` witness)
    maxlen = rm.backtrack_len_bound(lang.ast)
    safe = [ch for ch in rm.UNIVERSE if ch not in lang.unsafe]
    longs = []
    members = []
    for i, tape in enumerate(c['tapes']):
        m = rm.sample_member(lang, tape, maxlen, syms if i % 2 else None)
        if m is not None and len(m) <= maxlen: members.append(m); longs.append(m)
    for (op, a, b), m in zip(c['edits'], members + members):
        if not m and op != 1: continue
        pos = a % (len(m) + 1); ch = safe[b % len(safe)]
        if op == 0 and m: pos = a % len(m); longs.append(m[:pos] + m[pos + 1:])          # delete
        elif op == 1: longs.append(m[:pos] + ch + m[pos:])                                # insert
        elif m: pos = a % len(m); longs.append(m[:pos] + ch + m[pos + 1:])                # substitute
    for idxs in c['rand']:
        pool = syms if idxs[0] % 2 else safe
        longs.append(''.join(pool[i % len(pool)] for i in idxs[:maxlen]))
    seen = set(out)
    for s in longs:
        if s not in seen and len(s) <= maxlen + 1: seen.add(s); out.append(s)
    return out, nshort

# ------------------------------------------------------------------------------------------------------------------
# the property
# ------------------------------------------------------------------------------------------------------------------
def check_pattern(c, ex, st_, tier):
    ast = c['ast']
    if EXCLUDE_RECURSION and rm.nested_nullable_closure(ast):
        st_.excluded_known[F_RECURSION] += 1; return        # known finding: unbounded recursion (stack overflow) in RegularExpression::match
    if EXCLUDE_SURR_OVERLAP and rm.surrogate_overlap_risk(ast):
        st_.excluded_known[F_SURR_OVERLAP] += 1; return     # known finding: possessive closure chosen by comparing a UTF-16 unit with a code point
    if EXCLUDE_ADDRANGE and rm.addrange_drop_risk(ast):
        st_.excluded_known[F_ADDRANGE] += 1; return         # known finding: RangeToken::addRange drops a range that overlaps the tail of the last range
    try:
        lang0 = rm.Lang(ast)
    except rm.TooBig:
        st_.extra['too_big'] = st_.extra.get('too_big', 0) + 1; return
    sentinel = None
    if c['sentinel']:
        ast, sentinel = add_sentinel(ast, lang0)
    try:
        lang = rm.Lang(ast) if sentinel else lang0
    except rm.TooBig:
        st_.extra['too_big'] = st_.extra.get('too_big', 0) + 1; return
    text = rm.render(ast, True)
    # the pattern's alphabet: base literals, then characters taken from the atoms' own sets (lowest / highest / middle member, so
    # that range and subtraction boundaries are hit), then extras -- all with definite membership for this pattern
    cand = []
    for aset in lang.sets:
        ms = sorted(ch for ch in aset if ch not in lang.unsafe and ch != sentinel)
        if ms: cand += [ms[0], ms[-1], ms[len(ms) // 2]]
    picks = c['tapes'][0]
    chosen = [cand[x % len(cand)] for x in picks[:3]] if cand else []
    syms = []
    for ch in list(c['base'][:2]) + chosen + c['extra'] + list(c['base'][2:]):
        if ch not in lang.unsafe and ch not in syms and ch != sentinel: syms.append(ch)
    syms = syms[:3 if sentinel else 4]
    if sentinel: syms.append(sentinel)
    if not syms: syms = ['a']
    subjects, nshort = build_subjects(c, lang, syms, tier)
    # model + witness
    try:
        wit = re.compile(rm.to_python_re(ast, lang))
    except (re.error, RecursionError, OverflowError):
        st_.extra['witness_unavailable'] = st_.extra.get('witness_unavailable', 0) + 1; return
    exp = []; asserted = []
    lenbound = rm.backtrack_len_bound(ast)
    cheap = (not rm.is_risky(ast)) and rm.nvar(ast) <= 3
    asked = [s for s in subjects if len(s) <= lenbound]
    answers = dict(zip(asked, witness_answers(lambda t: 1 if wit.fullmatch(t) is not None else 0, asked, not cheap)))
    for s in subjects:
        acc = lang.prefix_accepts(s)
        e = acc[-1]
        if s not in answers:
            st_.extra['re_skipped'] = st_.extra.get('re_skipped', 0) + 1
            exp.append(None); asserted.append(False); continue
        if answers[s] is None:
            st_.extra['re_timeout'] = st_.extra.get('re_timeout', 0) + 1
            exp.append(None); asserted.append(False); continue
        w = bool(answers[s])
        if w is None or w != e:
            st_.oracle_disagreements += 1
            if len(st_.extra.setdefault('disagreement_samples', [])) < 3: st_.extra['disagreement_samples'].append({'pattern': text, 'subject': s, 'model': e, 're': w})
            exp.append(None); asserted.append(False); continue
        exp.append(e)
        if EXCLUDE_FIRST_SUCCESS and e and sentinel is None and any(acc[:-1]) and rm.first_success_quantifier(ast):
            st_.excluded_known[F_FIRST] += 1; asserted.append(False)
        else: asserted.append(True)
    feats = rm.features(ast)
    labels = set(feats)
    if sentinel: labels.add('sentinel-tail')
    if any(ord(ch) > 0xFFFF for s in subjects[nshort:] for ch in s) or any(ord(ch) > 0xFFFF for ch in syms): labels.add('subjects-supplementary')
    am = [e for e, a in zip(exp, asserted) if a]
    nontriv = rm.has_quant_or_classop(ast) and (True in am) and (False in am)
    st_.note(xv.sha([text, subjects]), nontriv, labels)
    if st_.evaluations % 41 == 7: st_.sample({'pattern': text, 'alphabet': syms, 'subjects': len(subjects), 'members': sum(1 for e in exp if e)})
    st_.extra['verdicts'] = st_.extra.get('verdicts', 0) + len(subjects)
    st_.extra['asserted_members'] = st_.extra.get('asserted_members', 0) + sum(1 for e in am if e)
    st_.extra['asserted_nonmembers'] = st_.extra.get('asserted_nonmembers', 0) + sum(1 for e in am if e is False)

    # 1. primary run: one compiled object, all subjects, option X
    try:
        head, v = call(ex, 'regex', text, 'X', subjects, 'r')
    except Watchdog:
        st_.inconclusive += 1; return
    except xv.ExecutorDied as e:
        raise PropertyFailure(crash_case(text, 'X', subjects, 'r', None), 'executor died rc=%s\n%s' % (e.rc, e.stderr[-3000:]))
    if head != 'C\tOK':
        raise PropertyFailure({'kind': 'wellformed', 'pattern': text, 'opts': 'X'}, 'well-formed pattern %r rejected: %s' % (text, head))
    for s, e, a, got in zip(subjects, exp, asserted, v):
        if e is None: continue
        if got not in ('0', '1'):
            raise PropertyFailure({'kind': 'member', 'pattern': text, 'opts': 'X', 'mode': 'r', 'subject': s, 'win': None, 'expected': e},
                                  'matches(%r) on pattern %r answered %r' % (s, text, got))
        if a and (got == '1') != e:
            raise PropertyFailure({'kind': 'member', 'pattern': text, 'opts': 'X', 'mode': 'r', 'subject': s, 'win': None, 'expected': e},
                                  'pattern %r subject %r: Xerces %s, model and re say %s' % (text, s, got, e))
        if not a:
            key = 'excluded_xerces_wrong' if (got == '1') != e else 'excluded_xerces_right'
            st_.extra[key] = st_.extra.get(key, 0) + 1
    prim = dict(zip(subjects, v))

    # 2. malformed mutations of this pattern
    for ri in c['mal']:
        if ri >= len(rm.MALFORMED_RULES):
            st_.excluded_known[F_BACKREF] += 1; continue      # known finding: RuntimeException instead of ParseException
        rule, fn = rm.MALFORMED_RULES[ri]
        bad = fn(text)
        st_.labels['malformed:' + rule] += 1
        try:
            head, _ = call(ex, 'regex', bad, 'X', [], '')
        except Watchdog:
            st_.inconclusive += 1; continue
        except xv.ExecutorDied as e:
            raise PropertyFailure(crash_case(bad, 'X', [], '', None), 'executor died rc=%s\n%s' % (e.rc, e.stderr[-3000:]))
        if not head.startswith('C\tParseException'):
            raise PropertyFailure({'kind': 'malformed', 'pattern': bad, 'opts': 'X', 'rule': rule}, 'malformed pattern %r (%s): constructor answered %r' % (bad, rule, head))

    # 3. metamorphic variants on a subset: option letters, Match object, fresh object per subject
    longs = subjects[nshort:]
    step = max(1, nshort // 24)
    subset = subjects[0:nshort:step][:28] + longs[:16]
    vopts, vmode = c['variant']
    for (o, m) in ((vopts, vmode), ('X', 'm')):
        try:
            head, v2 = call(ex, 'regex', text, o, subset, m)
        except Watchdog:
            st_.inconclusive += 1; continue
        except xv.ExecutorDied as e:
            raise PropertyFailure(crash_case(text, o, subset, m, None), 'executor died rc=%s\n%s' % (e.rc, e.stderr[-3000:]))
        st_.labels['variant:%s/%s' % (o, m or '-')] += 1
        for s, got in zip(subset, v2):
            if got.split('\t')[0] != prim[s]:
                raise PropertyFailure({'kind': 'equal', 'pattern': text, 'a': {'opts': 'X', 'mode': 'r', 'subjects': [s], 'wins': None, 'pick': 0},
                                       'b': {'opts': o, 'mode': m, 'subjects': [s], 'wins': None, 'pick': 0}},
                                      'pattern %r subject %r: verdict %s with opts=X/one object, %s with opts=%s mode=%s' % (text, s, prim[s], got, o, m))
            if 'p' in m and got[0] == '1':
                want = '0,%d' % u16len(s)
                if got.split('\t')[1].split(';')[0] != want:
                    raise PropertyFailure({'kind': 'pos', 'pattern': text, 'opts': o, 'subject': s, 'win': None, 'expected': want},
                                          'pattern %r subject %r: Match group 0 = %s, expected %s' % (text, s, got, want))

    # 4. reuse of one compiled object across interleaved subjects (1st, 2nd, 3rd ... use)
    pick = (longs[:4] + subjects[1:nshort:max(1, nshort // 5)])[:8]
    if pick:
        order = [pick[i % len(pick)] for i in c['order']]
        try:
            head, v3 = call(ex, 'regex', text, 'X', order, 'rm' if c['order'][0] % 2 else 'r')
        except Watchdog:
            st_.inconclusive += 1; v3 = []
        except xv.ExecutorDied as e:
            raise PropertyFailure(crash_case(text, 'X', order, 'r', None), 'executor died rc=%s\n%s' % (e.rc, e.stderr[-3000:]))
        for i, (s, got) in enumerate(zip(order, v3)):
            if got != prim[s]:
                raise PropertyFailure({'kind': 'equal', 'pattern': text, 'a': {'opts': 'X', 'mode': 'r', 'subjects': [s], 'wins': None, 'pick': 0},
                                       'b': {'opts': 'X', 'mode': 'r', 'subjects': order[:i + 1], 'wins': None, 'pick': i}},
                                      'pattern %r: subject %r answered %s alone but %s as use #%d of one compiled object (order %r)' % (text, s, prim[s], got, i, order[:i + 1]))

    # 5. window form: matches(pre+s+post, |pre|, |pre|+|s|) == matches(s)
    safe = [ch for ch in rm.UNIVERSE if ch not in lang.unsafe]
    wsub = []; wins = []; orig = []
    cand = longs[:3] + subjects[0:nshort:max(1, nshort // 6)]
    for (pre, post), s in zip(c['pads'], cand):
        p = ''.join(safe[i % len(safe)] for i in pre); q = ''.join(safe[i % len(safe)] for i in post)
        wsub.append(p + s + q); wins.append((u16len(p), u16len(p) + u16len(s))); orig.append(s)
    if wsub:
        wm = 'r' + ('m' if c['order'][1] % 2 else '')
        try:
            head, v4 = call(ex, 'regex', text, 'X', wsub, wm, wins)
        except Watchdog:
            st_.inconclusive += 1; v4 = []
        except xv.ExecutorDied as e:
            raise PropertyFailure(crash_case(text, 'X', wsub, wm, wins), 'executor died rc=%s\n%s' % (e.rc, e.stderr[-3000:]))
        st_.labels['window'] += len(v4)
        for t, w, s, got in zip(wsub, wins, orig, v4):
            if got != prim[s]:
                raise PropertyFailure({'kind': 'equal', 'pattern': text, 'a': {'opts': 'X', 'mode': 'r', 'subjects': [s], 'wins': None, 'pick': 0},
                                       'b': {'opts': 'X', 'mode': wm, 'subjects': [t], 'wins': [list(w)], 'pick': 0}},
                                      'pattern %r: matches(%r)=%s but matches(%r,%d,%d)=%s' % (text, s, prim[s], t, w[0], w[1], got))

    # 6. extension: the same AST in the non-schema dialect
    if c['search'] and sentinel is None:
        check_search(c, c['ast'], lang0, ex, st_, subjects, nshort)

    # 7. extension: one caller-owned Match object / one compiled object across a sequence of calls (non-schema dialect, groups capture)
    if c.get('seqlane'):
        check_matchseq(c, c['ast'], lang0, ex, st_, subjects, nshort, syms)

# ------------------------------------------------------------------------------------------------------------------
# extension: non-schema dialect -- search semantics, positions, F/H independence, tokenize / replace / allMatches
# ------------------------------------------------------------------------------------------------------------------
def expand_replacement(rep, s, groups):
    out = []; i = 0
    while i < len(rep):
        ch = rep[i]
        if ch == '\\': out.append(rep[i + 1]); i += 2
        elif ch == '$':
            g = int(rep[i + 1]); i += 2
            if g < len(groups) and groups[g][0] >= 0 and groups[g][0] < groups[g][1]: out.append(s[groups[g][0]:groups[g][1]])
        else: out.append(ch); i += 1
    return ''.join(out)

def to_units(s): return s.encode('utf-16-le')
def usub(s, a, b): return to_units(s)[2 * a:2 * b].decode('utf-16-le', 'surrogatepass')

def check_search(c, ast, lang_schema, ex, st_, subjects, nshort):
    sopts = c['sopts']
    dotall = 's' in sopts
    try: lang = rm.Lang(ast, dotall) if dotall else lang_schema
    except rm.TooBig: return
    text = rm.render(ast, False)
    longs = subjects[nshort:]
    subset = [s for s in (subjects[0:nshort:max(1, nshort // 20)][:24] + longs[:12]) if not any(ch in lang.unsafe for ch in s)]
    if not subset: return
    try: wit = re.compile(rm.to_python_re(ast, lang))
    except (re.error, RecursionError, OverflowError): return
    exp = []
    lenbound = rm.backtrack_len_bound(ast)
    cheap = (not rm.is_risky(ast)) and rm.nvar(ast) <= 3
    asked = [s for s in subset if len(s) <= lenbound]
    def _start(t):
        m = wit.search(t)
        return -1 if m is None else m.start()
    answers = dict(zip(asked, witness_answers(_start, asked, not cheap)))
    for s in subset:
        f = lang.find_leftmost(s)
        if s not in answers:
            st_.extra['re_skipped'] = st_.extra.get('re_skipped', 0) + 1; exp.append('drop'); continue
        if answers[s] is None:
            st_.extra['re_timeout'] = st_.extra.get('re_timeout', 0) + 1; exp.append('drop'); continue
        w = answers[s]
        if (w < 0) != (f is None) or (f is not None and w != f[0]):
            st_.oracle_disagreements += 1; exp.append('drop'); continue
        exp.append(f)
    st_.labels['search-case'] += 1
    st_.labels['search-opts:' + (sopts or '-')] += 1
    res = {}
    baseo = sopts + 'H'
    variants = (baseo, sopts, sopts + 'F', 'H' + sopts + 'F')
    if EXCLUDE_HEAD_EMPTY and rm.has_class_subtraction(ast):
        # known finding: the head-character analysis reads out of bounds when an alternative starts with an EMPTY class (only
        # class subtraction can produce one): such patterns are compiled with option H only
        st_.excluded_known[F_HEAD_EMPTY] += 1
        variants = (baseo, 'H' + sopts + 'F')
    for o in variants:
        try:
            head, v = call(ex, 'regex', text, o, subset, 'rp')
        except Watchdog:
            st_.inconclusive += 1; return
        except xv.ExecutorDied as e:
            raise PropertyFailure(crash_case(text, o, subset, 'rp', None), 'executor died rc=%s\n%s' % (e.rc, e.stderr[-3000:]))
        if head != 'C\tOK':
            raise PropertyFailure({'kind': 'wellformed', 'pattern': text, 'opts': o}, 'well-formed pattern %r (non-schema dialect, opts %r) rejected: %s' % (text, o, head))
        res[o] = v
    st_.extra['search_verdicts'] = st_.extra.get('search_verdicts', 0) + len(subset)
    base = res[baseo]
    litonly = EXCLUDE_FIXEDEND and literal_only(ast)
    hasdot = any(n[0] == 'dot' for n in rm.walk(ast))
    dotstar = (not dotall) and rm.starts_with_dot_closure(ast)
    for s, f, got in zip(subset, exp, base):
        if f == 'drop': continue
        if dotstar and any(ch in s for ch in '\n\r'):
            st_.excluded_known[F_DOTSTAR] += 1; continue      # known finding: the '.*' prefix shortcut never tries a start offset that holds a line end
        mk = lambda detail, expected: PropertyFailure({'kind': 'search', 'pattern': text, 'opts': baseo, 'subject': s, 'expected': expected}, detail)
        if (got[0] == '1') != (f is not None):
            raise mk('non-schema pattern %r opts %r subject %r: matches=%s, model/re say a matching substring %s' % (text, baseo, s, got, 'exists' if f else 'does not exist'), None if f is None else [f[0], sorted(f[1])])
        if f is not None:
            g0 = got.split('\t')[1].split(';')[0]; a, b = [int(x) for x in g0.split(',')]
            us = u16len(s[:f[0]]); ends = sorted(u16len(s[:e]) for e in f[1])
            if litonly and [us + u16len(text)] != ends:
                st_.excluded_known[F_FIXEDEND] += 1      # known finding: end = start + length of the pattern SOURCE
                if a != us: raise mk('non-schema pattern %r opts %r subject %r: match reported at %d..%d; leftmost start is %d' % (text, baseo, s, a, b, us), [f[0], sorted(f[1])])
            elif a != us or b not in ends:
                raise mk('non-schema pattern %r opts %r subject %r: match reported at %d..%d; leftmost start is %d and the possible ends are %r' % (text, baseo, s, a, b, us, ends), [f[0], sorted(f[1])])
    for o, v in res.items():
        if o == baseo: continue
        for s, x, y in zip(subset, base, v):
            if 'H' not in o:
                # known findings in the head-character optimisation (option H switches it off)
                if hasdot: st_.excluded_known[F_HEAD_ANY] += 1; continue
                if EXCLUDE_HEAD_SURR and any(ord(ch) > 0xFFFF for ch in s): st_.excluded_known[F_HEAD_SURR] += 1; continue
            if x.split('\t')[0] != y.split('\t')[0] or (x[0] == '1' and x.split('\t')[1].split(';')[0] != y.split('\t')[1].split(';')[0]):
                raise PropertyFailure({'kind': 'equal', 'pattern': text, 'pos': True, 'a': {'opts': baseo, 'mode': 'rp', 'subjects': [s], 'wins': None, 'pick': 0},
                                       'b': {'opts': o, 'mode': 'rp', 'subjects': [s], 'wins': None, 'pick': 0}},
                                      'non-schema pattern %r subject %r: %r with opts %r but %r with opts %r' % (text, s, x, baseo, y, o))
    # tokenize / replace / allMatches consistency (pattern must not match the empty string: documented RuntimeException otherwise)
    nullable = lang.accepting(lang.start)
    topts = sopts + 'H' if (EXCLUDE_HEAD_EMPTY and rm.has_class_subtraction(ast)) else sopts       # finding C11-headchar-empty-class-oob: see above
    try:
        # allMatches() itself never terminates on a pattern that matches the empty string (tokenize/replace guard against it)
        hA, am = call(ex, 'allmatches', text, topts, subset) if not nullable else ('C\tOK', [''] * len(subset))
        hT, tk = call(ex, 'tokenize', text, topts, subset)
        hR, rp = call(ex, 'replace', text, topts, subset, rep=c['repl'])
        hP, pm = call(ex, 'regex', text, sopts + 'H', subset, 'rp')
    except Watchdog:
        st_.inconclusive += 1; return
    except xv.ExecutorDied as e:
        raise PropertyFailure(crash_case(text, topts, subset, '', None, 'tokenize', c['repl']), 'executor died rc=%s\n%s' % (e.rc, e.stderr[-3000:]))
    st_.labels['tokenize-replace' + ('-nullable' if nullable else '')] += 1
    for s, a, t, r, p in zip(subset, am, tk, rp, pm):
        mk = lambda detail: PropertyFailure({'kind': 'tokrep', 'pattern': text, 'opts': topts, 'subject': s, 'rep': c['repl'], 'nullable': nullable}, detail)
        if dotstar and any(ch in s for ch in '\n\r'): continue
        if nullable:
            if not (t.startswith('E\tXMLException\tRuntimeException') and r.startswith('E\tXMLException\tRuntimeException')):
                raise mk('pattern %r matches the empty string: tokenize/replace must throw RuntimeException, got %r / %r' % (text, t, r))
            continue
        if not a.startswith('A\t') or not t.startswith('T\t') or not r.startswith('R\t'):
            raise mk('pattern %r subject %r: allMatches/tokenize/replace answered %r / %r / %r' % (text, s, a, t, r))
        spans = [tuple(int(x) for x in f.split(',')) for f in a.split('\t')[2:]]
        # successive, non-overlapping, each a member, first one == matches() with a Match object
        prev = 0
        for (x, y) in spans:
            if x < prev or y <= x: raise mk('pattern %r subject %r: allMatches spans %r are not successive non-empty' % (text, s, spans))
            if not any(ch in lang.unsafe for ch in usub(s, x, y)) and not lang.member(usub(s, x, y)):
                raise mk('pattern %r subject %r: allMatches span %d..%d = %r is not a member of the language' % (text, s, x, y, usub(s, x, y)))
            prev = y
        if spans:
            g0 = p.split('\t')[1].split(';')[0] if p[0] == '1' else None
            if litonly and g0 is not None: g0 = '%s,%d' % (g0.split(',')[0], spans[0][1])      # finding C11-fixedstring-endpos: end not compared
            if g0 != '%d,%d' % spans[0]: raise mk('pattern %r subject %r: first allMatches span %r but matches() reports %r' % (text, s, spans[0], p))
        elif p[0] == '1': raise mk('pattern %r subject %r: matches() is true but allMatches found nothing' % (text, s))
        n = u16len(s); cuts = [0] + [v for sp in spans for v in sp] + [n]
        toks = [usub(s, cuts[i], cuts[i + 1]) for i in range(0, len(cuts), 2)]
        gott = [xv.unesc(x) for x in t.split('\t')[2:]]
        if gott != toks: raise mk('pattern %r subject %r: tokenize gave %r, the gaps between the allMatches spans %r are %r' % (text, s, gott, spans, toks))
        if '$1' in c['repl']: continue     # group contents are not modelled
        wantr = ''.join(toks[i] + (expand_replacement(c['repl'], usub(s, *spans[i]), [(0, spans[i][1] - spans[i][0])]) if i < len(spans) else '') for i in range(len(toks)))
        if xv.unesc(r[2:]) != wantr: raise mk('pattern %r subject %r replacement %r: replace gave %r, splice of the allMatches spans gives %r' % (text, s, c['repl'], xv.unesc(r[2:]), wantr))

# ------------------------------------------------------------------------------------------------------------------
# extension: capture-group bookkeeping and history independence.  ONE Match object is handed to a sequence of matches() calls on
# several compiled expressions with different numbers of groups (the generated pattern, the same with a back reference, the same as an
# optional group followed by a literal and a back reference to it, and a hand-written capture shape); every call is repeated with a
# fresh Match on the same compiled object and with a fresh Match on a freshly compiled object: verdict and ALL group positions must
# agree (purely metamorphic -- back references are outside the model).
# ------------------------------------------------------------------------------------------------------------------
def run_matchseq(ex, patterns, opts, steps):
    req = {'kind': 'matchseq', 'np': len(patterns), 'n': len(steps), 'steps': '\n'.join('%d\t%s' % (pi, xv.esc(s)) for pi, s in steps)}
    for i, (p, o) in enumerate(zip(patterns, opts)): req['pat%d' % i] = xv.esc(p); req['opts%d' % i] = o
    try:
        resp = ex.request(req, timeout=int(os.environ.get('C11_TIMEOUT', '40')))
    except xv.ExecutorDied as e:
        if e.rc == -9 and 'ERROR: ' not in e.stderr: raise Watchdog()
        raise
    lines = [l for l in resp.split('\n') if l]
    heads = [l for l in lines if l.startswith('C\t')]; rows = [l.split('\t')[1:] for l in lines if l.startswith('S\t')]
    return heads, rows

def judge_matchseq(patterns, steps, heads, rows):
    """-> None or a description of the first step whose three results differ"""
    if len(rows) != len(steps): return 'executor answered %d of %d steps' % (len(rows), len(steps))
    for i, ((pi, s), (a, b, cc)) in enumerate(zip(steps, rows)):
        if a != b or b != cc:
            return ('step %d: pattern %r subject %r: shared Match + shared object %r, fresh Match + shared object %r, fresh Match + fresh object %r '
                    '(earlier steps: %r)' % (i, patterns[pi], s, a, b, cc, [(patterns[p], t) for p, t in steps[:i]][-3:]))
    return None

def check_matchseq(c, ast, lang, ex, st_, subjects, nshort, syms):
    text = rm.render(ast, False)
    g = rm.count_groups(ast)
    lit = rm._lit_out(syms[0], False, False)
    k = 1 + c['bref'] % min(g, 9) if g else 1
    pats = [text,
            (text + '\\%d' % k) if g else ('(' + text + ')\\1'),
            '(' + text + ')?' + lit + '\\1',
            rm.CAPTURE_HAND[c['hand']][0]]
    opts = [c['sopts'] + 'H'] * 3 + ['' if c['bref'] % 2 else 'H']
    short = [s for s in subjects[0:nshort:max(1, nshort // 12)] + subjects[nshort:nshort + 8] if len(s) <= 10]
    members = [s for s in subjects[nshort:] + subjects[:nshort] if 0 < len(s) <= 6 and not any(ch in lang.unsafe for ch in s) and lang.member(s)][:3]
    targeted = [syms[0]] + [m + syms[0] + m for m in members] + [m + syms[0] for m in members] + [syms[0] + syms[0]]
    pools = [short or [''], (short + [m + m for m in members]) or [''], targeted, rm.CAPTURE_HAND[c['hand']][1]]
    steps = []
    if members: steps += [(2, members[0] + syms[0] + members[0]), (2, syms[0])]          # group takes part, then is skipped
    steps += [(3, pools[3][0]), (3, pools[3][1])]
    steps += [(pi, pools[pi][si % len(pools[pi])]) for pi, si in c['seq']]
    try:
        heads, rows = run_matchseq(ex, pats, opts, steps)
    except Watchdog:
        st_.inconclusive += 1; return
    except xv.ExecutorDied as e:
        raise PropertyFailure({'kind': 'matchseq', 'patterns': pats, 'opts': opts, 'steps': [list(x) for x in steps]}, 'executor died rc=%s\n%s' % (e.rc, e.stderr[-3000:]))
    for p, h in zip(pats, heads):
        if h != 'C\tOK':
            raise PropertyFailure({'kind': 'wellformed', 'pattern': p, 'opts': opts[0]}, 'well-formed pattern %r (non-schema dialect) rejected: %s' % (p, h))
    st_.labels['matchseq-case'] += 1
    st_.extra['matchseq_steps'] = st_.extra.get('matchseq_steps', 0) + len(steps)
    # measured: did the sequence contain a call in which a group index that had been set by an earlier call stays unset?
    everset = set(); opportunity = False; brefstep = False
    for (pi, s), row in zip(steps, rows):
        b = row[1]
        if b.startswith('1:'):
            grp = [x.split(',')[0] != '-1' for x in b[2:].split(';')]
            if any((i in everset) and not on for i, on in enumerate(grp)): opportunity = True
            everset |= {i for i, on in enumerate(grp) if on}
            if '\\' in pats[pi] and pi != 0: brefstep = True
    if opportunity: st_.labels['matchseq:group-unset-after-set'] += 1
    if brefstep: st_.labels['matchseq:backref-match'] += 1
    bad = judge_matchseq(pats, steps, heads, rows)
    if bad:
        raise PropertyFailure({'kind': 'matchseq', 'patterns': pats, 'opts': opts, 'steps': [list(x) for x in steps]}, bad)

# ------------------------------------------------------------------------------------------------------------------
def worker(ctx):
    ex = ctx.executor('xv_regex', restart_every=40000)
    st_ = ctx.stats
    bad = rm.selftest()
    if bad: raise RuntimeError('regexmodel selftest failed: %r' % (bad,))
    maxdepth = 4 if ctx.tier == 'quick' else 5
    def prop(c):
        check_pattern(c, ex, st_, ctx.tier)
    hyp_run(ctx, case_strategy(maxdepth), prop, ctx.budget)

# ------------------------------------------------------------------------------------------------------------------
# replay of a single saved case
# ------------------------------------------------------------------------------------------------------------------
def _run(ex, pattern, r):
    return call(ex, 'regex', pattern, r['opts'], r['subjects'], r['mode'], [None if w is None else tuple(w) for w in r['wins']] if r.get('wins') else None)

def replay(case, ctx):
    ex = ctx.executor('xv_regex')
    k = case['kind']
    try:
        if k == 'member':
            head, v = call(ex, 'regex', case['pattern'], case['opts'], [case['subject']], case['mode'], [tuple(case['win'])] if case.get('win') else None)
            if head != 'C\tOK': return False, 'pattern %r rejected: %s' % (case['pattern'], head)
            if v[0] not in ('0', '1') and not v[0].startswith(('0\t', '1\t')): return False, 'matches answered %r' % v[0]
            if (v[0][0] == '1') != case['expected']: return False, 'pattern %r subject %r: Xerces %s, expected %s' % (case['pattern'], case['subject'], v[0], case['expected'])
            return True, 'ok'
        if k == 'wellformed':
            head, _ = call(ex, 'regex', case['pattern'], case['opts'], [], '')
            return (head == 'C\tOK'), 'constructor: %s' % head
        if k == 'malformed':
            head, _ = call(ex, 'regex', case['pattern'], case['opts'], [], '')
            return head.startswith('C\tParseException'), 'malformed pattern %r: constructor answered %r' % (case['pattern'], head)
        if k == 'equal':
            ha, va = _run(ex, case['pattern'], case['a']); hb, vb = _run(ex, case['pattern'], case['b'])
            if ha != 'C\tOK' or hb != 'C\tOK': return False, 'constructor: %s / %s' % (ha, hb)
            x = va[case['a']['pick']]; y = vb[case['b']['pick']]
            if case.get('pos'):
                same = x.split('\t')[0] == y.split('\t')[0] and (x[0] != '1' or x.split('\t')[1].split(';')[0] == y.split('\t')[1].split(';')[0])
            else: same = x.split('\t')[0] == y.split('\t')[0]
            return same, 'pattern %r: %r (%r) vs %r (%r)' % (case['pattern'], x, case['a'], y, case['b'])
        if k == 'pos':
            head, v = call(ex, 'regex', case['pattern'], case['opts'], [case['subject']], 'p')
            ok = v[0][0] != '1' or v[0].split('\t')[1].split(';')[0] == case['expected']
            return ok, 'pattern %r subject %r: %r, expected group 0 = %s' % (case['pattern'], case['subject'], v[0], case['expected'])
        if k == 'search':
            head, v = call(ex, 'regex', case['pattern'], case['opts'], [case['subject']], 'rp')
            if head != 'C\tOK': return False, head
            e = case['expected']; s = case['subject']
            if (v[0][0] == '1') != (e is not None): return False, 'pattern %r subject %r: %r, expected %r' % (case['pattern'], s, v[0], e)
            if e is not None:
                a, b = [int(x) for x in v[0].split('\t')[1].split(';')[0].split(',')]
                if a != u16len(s[:e[0]]) or b not in [u16len(s[:x]) for x in e[1]]: return False, 'pattern %r subject %r: %r, expected start %d and an end in %r (code points)' % (case['pattern'], s, v[0], e[0], e[1])
            return True, 'ok'
        if k == 'tokrep':
            return _replay_tokrep(case, ex)
        if k == 'matchseq':
            steps = [tuple(x) for x in case['steps']]
            heads, rows = run_matchseq(ex, case['patterns'], case['opts'], steps)
            bad = judge_matchseq(case['patterns'], steps, heads, rows)
            return (bad is None), (bad or 'ok')
        if k == 'crash':
            call(ex, case.get('req', 'regex'), case['pattern'], case['opts'], case['subjects'], case['mode'],
                 [None if w is None else tuple(w) for w in case['wins']] if case.get('wins') else None, case.get('rep'))
            return True, 'no crash'
    except Watchdog:
        return True, 'watchdog (inconclusive)'
    except xv.ExecutorDied as e:
        return False, 'executor died rc=%s\n%s' % (e.rc, e.stderr[-3000:])
    return True, 'unknown case kind %r' % k

def _replay_tokrep(case, ex):
    text, o, s, rep = case['pattern'], case['opts'], case['subject'], case['rep']
    hA, am = call(ex, 'allmatches', text, o, [s]); hT, tk = call(ex, 'tokenize', text, o, [s]); hR, rp = call(ex, 'replace', text, o, [s], rep=rep)
    hP, pm = call(ex, 'regex', text, o + 'H', [s], 'rp')
    a, t, r, p = am[0], tk[0], rp[0], pm[0]
    if case.get('nullable'):
        ok = t.startswith('E\tXMLException\tRuntimeException') and r.startswith('E\tXMLException\tRuntimeException')
        return ok, 'nullable pattern %r: tokenize/replace answered %r / %r' % (text, t, r)
    if not a.startswith('A\t') or not t.startswith('T\t') or not r.startswith('R\t'): return False, '%r / %r / %r' % (a, t, r)
    spans = [tuple(int(x) for x in f.split(',')) for f in a.split('\t')[2:]]
    prev = 0
    for (x, y) in spans:
        if x < prev or y <= x: return False, 'allMatches spans %r not successive' % (spans,)
        prev = y
    if spans and (p[0] != '1' or p.split('\t')[1].split(';')[0] != '%d,%d' % spans[0]): return False, 'first span %r vs matches() %r' % (spans[0], p)
    if not spans and p[0] == '1': return False, 'matches() true, allMatches empty'
    n = u16len(s); cuts = [0] + [v for sp in spans for v in sp] + [n]
    toks = [usub(s, cuts[i], cuts[i + 1]) for i in range(0, len(cuts), 2)]
    gott = [xv.unesc(x) for x in t.split('\t')[2:]]
    if gott != toks: return False, 'tokenize %r vs gaps %r (spans %r)' % (gott, toks, spans)
    if '$1' not in rep:
        wantr = ''.join(toks[i] + (expand_replacement(rep, usub(s, *spans[i]), [(0, spans[i][1] - spans[i][0])]) if i < len(spans) else '') for i in range(len(toks)))
        if xv.unesc(r[2:]) != wantr: return False, 'replace %r vs splice %r' % (xv.unesc(r[2:]), wantr)
    return True, 'ok'

# ------------------------------------------------------------------------------------------------------------------
# known findings on the unchanged tree (ids to be entered in known_findings.json by the integrator): witnesses + classification
# ------------------------------------------------------------------------------------------------------------------
import json
KNOWN_DIR = os.path.join(os.path.dirname(os.path.dirname(os.path.dirname(os.path.abspath(__file__)))), 'regress-known', 'C11')
def _load_known():
    out = []
    try: names = sorted(os.listdir(KNOWN_DIR))
    except OSError: names = []
    for n in names:
        if n.endswith('.json'):
            obj = json.load(open(os.path.join(KNOWN_DIR, n), encoding='utf-8'))
            out.append((n[:-5], obj.get('case', obj)))
    return out
KNOWN = _load_known()
def known_witnesses(): return list(KNOWN)
def classify(case, detail):
    for kid, w in KNOWN:
        if case == w: return kid
    if case.get('kind') == 'crash':
        if 'stack-overflow' in detail and 'RegularExpression::match' in detail: return F_RECURSION
        if 'RangeToken::addRange' in detail and 'SEGV' in detail: return F_HEAD_EMPTY
    return None
