"""C04 -- the parse result is independent of input chunking, buffer alignment and source type (pure differential / metamorphic)."""
import base64, glob, json, os, re, shutil, subprocess, tempfile
from hypothesis import strategies as st
import xv, xmlmodel as xm, wfmut
from driver import hyp_run, PropertyFailure

ID = 'C04'
HARNESS = {'asan': ['xvexec', 'fz_chunk']}
RULE = ('lane A (partitions): M1 documents and their C02 mutants, in UTF-8/UTF-16 with optional padding that pushes them across the 16K-char / 48K-byte '
        'buffers, read through a stream that follows a drawn read plan (1,2,3,4,5,7,4095,4096,16383,16384,49151,49152,... bytes per read): the full '
        'canonical event dump incl. error codes, lines and columns must equal the one-shot MemBufInputSource parse. lane B (alignment sweep): each '
        'construct K (multi-byte chars, surrogate pair, CR LF, names, QName colon, comment/CDATA/PI delimiters, char/entity refs, end tag, attribute '
        'quotes, DTD declarations, PE reference, XML 1.1 NEL/LS) is slid by a filler comment across every offset in [B-|K|-70, B+8] around each '
        'char-buffer (n*16384 chars) and raw-buffer (49152 bytes) boundary B: dump must equal the dump with a 10-char filler (filler line substituted). '
        'lane C (source type): same bytes through custom InputSource / MemBuf / LocalFile / file: URL / stdin. non-trivial: A = plan makes >=2 reads of '
        'which one ends inside a multi-byte character or a markup token; B = K starts within the window of a boundary (every sweep point); C = source '
        'differs from memory. lane D (coverage-guided, harness/fz_chunk): libFuzzer mutates (document bytes, read plan, padding class, API, scanner) from the committed '
        'parse corpus; the in-target oracle compares the dump of the planned stream with the one-shot dump of the same bytes -- this lane reaches documents that are '
        'malformed and mis-encoded at the same time, which the model-driven lanes do not build. distinct by sha1(bytes, plan|offset|source, config); lane D counts executions.')
ASSUMPTIONS = ['the reference for every variant is the one-shot in-memory parse of the same bytes in the same process build',
               'known finding C04-short-first-read is excluded by construction (first read covers the XML declaration)',
               'known finding C04-transcoding-error-position: when the first fatal error is a transcoding exception, only verdict, code and the prefix relation of events are compared',
               'buffer boundaries are those of XMLReader (kCharBufSize 16384 chars, kRawBufSize 49152 bytes); window of 70 absorbs spare-char carry-over drift']
BUDGET = {'quick': 110, 'thorough': 2500}
WALLCAP = {'quick': 500, 'thorough': 3600}

PLAN_SIZES = [1, 2, 3, 4, 5, 7, 4095, 4096, 16383, 16384, 49151, 49152]
APIS = ['sax2', 'sax1', 'dom', 'psax2', 'domls']

def strip(resp, mask_sysid=False):
    out = []
    for l in resp.split('\n'):
        if not l or l[0] == '#': continue
        if mask_sysid and l.startswith('ERR\t'):
            l = '\t'.join(l.split('\t')[:6])
        out.append(l)
    return out

def first_fatal(lines):
    for l in lines:
        if l.startswith('ERR\t'):
            f = l.split('\t')
            if f[3] == 'F': return f
    return None

def is_transcoding_fatal(lines):
    f = first_fatal(lines)
    return bool(f and f[1] == 'E')

def relaxed_equal(a, b):
    """known finding C04-transcoding-error-position: same first fatal code, shorter event list is a prefix of the longer (last text may be cut)"""
    fa, fb = first_fatal(a), first_fatal(b)
    if not fa or not fb or fa[1:4] != fb[1:4]: return False
    ea = a[:[i for i, l in enumerate(a) if l.startswith('ERR\t') and l.split('\t')[3] == 'F'][0]]
    eb = b[:[i for i, l in enumerate(b) if l.startswith('ERR\t') and l.split('\t')[3] == 'F'][0]]
    if len(ea) > len(eb): ea, eb = eb, ea
    for i, l in enumerate(ea):
        if l == eb[i]: continue
        if i == len(ea) - 1 and l.startswith('T\t') and eb[i].startswith(l): continue
        return False
    return True

def diff(a, b):
    for i in range(max(len(a), len(b))):
        x = a[i] if i < len(a) else None; y = b[i] if i < len(b) else None
        if x != y: return 'line %d:\n  reference %r\n  variant   %r' % (i, x, y)
    return None

def req_of(case, variant):
    req = {'kind': 'parse', 'api': case['api'], 'feat': case['feat'], 'doc': base64.b64decode(case['doc_b64']), 'loc': '1'}
    for k, v in case.get('files_b64', {}).items(): req['ent:' + k] = base64.b64decode(v)
    if variant == 'ref': req['src'] = 'mem'
    elif case['lane'] == 'A': req['chunks'] = case['plan']; req['chunk1'] = str(case['chunk1'])
    elif case['lane'] == 'C': req['src'] = case['source']
    return req

def run_case(case, ex):
    try:
        if case['lane'] == 'B':
            return run_sweep_point(case, ex)
        ref = strip(ex.request(req_of(case, 'ref')), mask_sysid=True)
        var = strip(ex.request(req_of(case, 'var')), mask_sysid=True)
    except xv.ExecutorDied as e:
        return False, 'executor died rc=%s\n%s' % (e.rc, e.stderr[-3000:])
    if ref == var: return True, 'ok'
    if is_transcoding_fatal(ref) or is_transcoding_fatal(var):
        if relaxed_equal(ref, var): return True, 'ok (known: transcoding error position)'
        return False, 'KNOWNCLASS-transcoding but not even prefix-consistent: ' + diff(ref, var)
    return False, diff(ref, var)

# ------------------------------------------------------------------------------------------------
# lane B: alignment sweep
# ------------------------------------------------------------------------------------------------
CHARBUF = 16384; RAWBUF = 49152
# (name, version, prolog-extra (DTD), construct text, needs ns)
CONSTRUCTS = [
    ('utf8-2byte', '1.0', '', 'a\u00e9\u00e9b', 0), ('utf8-3byte', '1.0', '', 'a\u4e2d\u4e2db', 0), ('utf8-4byte', '1.0', '', 'a\U0001f600\U00010000b', 0),
    ('crlf', '1.0', '', 'a\r\nb\r\n\r\nc\rd', 0), ('cr-nel-11', '1.1', '', 'a\r\u0085b\u0085c\u2028d\r\n', 0),
    ('name', '1.0', '', '<elem-name.long_enough\u00e9 a="1"/>', 0), ('qname-colon', '1.0', '', '<pfx:local xmlns:pfx="urn:p" pfx:at="v"/>', 1),
    ('comment', '1.0', '', '<!--c1--><!-- c-2 - x -->', 0), ('cdata', '1.0', '', '<![CDATA[x]]y]]]><![CDATA[]]>', 0),
    ('charref', '1.0', '', '&#x4E2D;&#65;&#x10000;&#13;', 0), ('predef-ref', '1.0', '', '&amp;&lt;&gt;&apos;&quot;', 0),
    ('entity-ref', '1.0', '<!DOCTYPE r [<!ENTITY ent "v<i>w</i>"><!ENTITY e2 "&ent;&ent;">]>', 'x&ent;y&e2;z', 0),
    ('end-tag', '1.0', '', '<longname>t</longname   >', 0), ('pi', '1.0', '', '<?target some data ?><?t2?>', 0),
    ('attr-quotes', '1.0', '', '<e a="v1" b=\'v"2\' c = "x&#10;y\tz"/>', 0), ('text-then-tag', '1.0', '', 'text]]&gt;more<e/>', 0),
    ('attr-multibyte', '1.0', '', '<e a="\u00e9\u4e2d\U0001f600"/>', 0), ('empty-tag', '1.0', '', '<e/><e  /><e></e>', 0),
    ('ns-default', '1.0', '', '<e xmlns="urn:d"><f xmlns=""/></e>', 1),
]
# constructs that live inside the internal subset (filler comment goes inside the subset, before the construct)
DTD_CONSTRUCTS = [
    ('dtd-entity-decl', '<!ENTITY ent "value &#38;#38; &#60;i/> more">', '&ent;'), ('dtd-attlist', '<!ATTLIST r da CDATA "dflt" db (u|v) "u">', ''),
    ('dtd-pe-ref', '<!ENTITY % pe "<!ENTITY viape \'pv\'>">%pe;', '&viape;'), ('dtd-element', '<!ELEMENT r (#PCDATA|i)*>', ''),
    ('dtd-notation', '<!NOTATION n SYSTEM "n.exe"><!ENTITY u SYSTEM "u.bin" NDATA n>', ''), ('dtd-comment-pi', '<!--dc--><?dpi x?>', ''),
]
# constructs inside an external entity / external subset: the filler is in that entity
EXT_CONSTRUCTS = [
    ('extent-text', 'a\u00e9\r\nb<i>\u4e2d</i>&amp;&#x10000;<!--c--><![CDATA[d]]>'),
]

def sweep_doc(kind, cname, filler_char, n, enc):
    """build the document for a sweep point: returns (bytes, files, char offset of the construct, filler text)"""
    fill = filler_char * n
    files = {}
    if kind == 'content':
        name, ver, dtd, ktext, ns = [c for c in CONSTRUCTS if c[0] == cname][0]
        head = '<?xml version="%s" encoding="@ENC@"?>%s<r>' % (ver, dtd)
        text = head + '<!--' + fill + '-->' + ktext + '</r>'
        off = len(head) + 7 + n
    elif kind == 'dtd':
        name, decl, use = [c for c in DTD_CONSTRUCTS if c[0] == cname][0]
        head = '<?xml version="1.0" encoding="@ENC@"?><!DOCTYPE r ['
        text = head + '<!--' + fill + '-->' + decl + ']><r>' + use + '</r>'
        off = len(head) + 7 + n
    else:   # ext
        name, ktext = [c for c in EXT_CONSTRUCTS if c[0] == cname][0]
        text = '<?xml version="1.0" encoding="@ENC@"?><!DOCTYPE r [<!ENTITY xe SYSTEM "xe.ent">]><r>&xe;</r>'
        files['xe.ent'] = ('<?xml version="1.0" encoding="UTF-8"?><!--' + fill + '-->' + ktext).encode('utf-8')
        off = 38 + 7 + n
    data = xm.encode_doc(text, enc)
    return data, files, off, fill

def sweep_points(tier):
    """all (kind, construct, filler_char, enc, boundary, offset-in-window) tuples"""
    pts = []
    for kind, lst in (('content', CONSTRUCTS), ('dtd', DTD_CONSTRUCTS), ('ext', EXT_CONSTRUCTS)):
        for c in lst:
            klen = len(c[3]) if kind == 'content' else (len(c[1]) if kind == 'dtd' else len(c[1]))
            for filler_char, enc, bounds in (('x', 'utf-8', [CHARBUF, 2 * CHARBUF, 3 * CHARBUF]), ('\u00e9', 'utf-8', [CHARBUF, RAWBUF // 2, 2 * CHARBUF]),
                                             ('x', 'utf-16le-bom', [CHARBUF, RAWBUF // 2])):
                if kind != 'content' and enc != 'utf-8': continue
                if kind == 'ext' and filler_char != 'x' and tier == 'quick': continue
                for B in bounds:
                    for o in range(-(klen + 70), 9):
                        pts.append((kind, c[0], filler_char, enc, B, o))
    return pts

def sweep_case(pt, api, scanner):
    kind, cname, fc, enc, B, o = pt
    head_len = sweep_doc(kind, cname, fc, 0, enc)[2]
    n = B + o - head_len
    if n < 0: n = 0
    ns = 1
    return {'lane': 'B', 'kind': kind, 'construct': cname, 'filler': fc, 'enc': enc, 'boundary': B, 'offset': o, 'n': n, 'api': api,
            'feat': 'ns=%d;scanner=%s;val=0;ere=1' % (ns, scanner)}

def run_sweep_point(case, ex):
    outs = []
    for n in (10, case['n']):
        data, files, off, fill = sweep_doc(case['kind'], case['construct'], case['filler'], n, case['enc'])
        req = {'kind': 'parse', 'api': case['api'], 'feat': case['feat'], 'doc': data, 'loc': '1'}
        for k, v in files.items(): req['ent:' + k] = v
        lines = strip(ex.request(req))
        fe = xv.esc(fill)
        lines = [('C\t<FILL>' + l[2 + len(fe):]) if l.startswith('C\t' + fe) else l for l in lines]
        outs.append(lines)
    if any(l.startswith(('ERR', 'EXC')) for l in outs[0]):
        raise RuntimeError('MACHINERY: reference sweep document is not clean: %r' % ([l for l in outs[0] if l.startswith(('ERR', 'EXC'))][:3],))
    if outs[0] != outs[1]:
        return False, 'construct %s at char offset %d (boundary %d%+d, filler %r x %d): %s' % (
            case['construct'], case['boundary'] + case['offset'], case['boundary'], case['offset'], case['filler'], case['n'], diff(outs[0], outs[1]))
    return True, 'ok'

# ------------------------------------------------------------------------------------------------
@st.composite
def doc_strategy(draw):
    d = draw(xm.gen_doc())
    mut = draw(st.sampled_from([None, None] + wfmut.OPS_ANY[:16] + wfmut.OPS_BYTES + ['charref-0', 'raw-control', 'truncate', 'undeclared-entity', 'entity-unbalanced']))
    k = draw(st.integers(0, 1000))
    enc = draw(st.sampled_from(['utf-8', 'utf-8', 'utf-8-bom', 'utf-16le-bom', 'utf-16be-bom']))
    pad = draw(st.sampled_from([0, 0, 0, 16290, 16384 - 60, 49152 - 80, 49152 - 40, 32768 - 50])) + draw(st.integers(0, 90))
    padchar = draw(st.sampled_from(['x', '\u00e9', '\u4e2d', '\U0001f600']))
    api = draw(st.sampled_from(APIS))
    scanner_any = draw(st.sampled_from(['IG', 'WF', 'DG', 'SG'])); scanner_dtd = draw(st.sampled_from(['IG', 'DG']))
    ns = draw(st.booleans())
    return d, mut, k, enc, pad, padchar, api, scanner_any, scanner_dtd, ns

plan_strategy = st.lists(st.one_of(st.sampled_from(PLAN_SIZES), st.integers(1, 70000)), min_size=1, max_size=6)

def build_bytes(c):
    d, mut, k, enc, pad, padchar, api, scanner_any, scanner_dtd, ns = c
    text, files = xm.render(d)
    fbytes = {kk: v.replace('@ENC@', 'UTF-8').encode('utf-8') for kk, v in files.items()}
    if pad > 100:
        # padding comment right after the XML declaration / at the start, so that everything behind it is shifted across the buffers
        toks = wfmut.tokenize(text)
        pos = toks[0][2] if toks and toks[0][0] == 'xmldecl' else 0
        text = text[:pos] + '<!--' + padchar * pad + '-->' + text[pos:]
    data = None
    if mut in wfmut.OPS_BYTES:
        if enc.startswith('utf-8'):
            base = text.replace('@ENC@', 'UTF-8').encode('utf-8', 'surrogatepass')
            data = wfmut.mutate_bytes(base, text.replace('@ENC@', 'UTF-8'), mut, k)
    elif mut:
        m = wfmut.mutate(text, d, mut, k)
        if m is not None: text = m
    if data is None: data = xm.encode_doc(text, enc)
    scanner = scanner_dtd if '<!DOCTYPE' in text else scanner_any
    return data, fbytes, text, scanner

def straddles(data, plan, first):
    """does some read boundary fall inside a multi-byte UTF-8 character or a markup token?  (measured for the non-trivial rule)"""
    pos = first; i = 0; n = len(data); cuts = []
    while pos < n and len(cuts) < 4000:
        cuts.append(pos); pos += plan[i % len(plan)]; i += 1
    for c in cuts:
        if 0 < c < n:
            b = data[c]
            if (b & 0xC0) == 0x80: return True
            lo = data[max(0, c - 12):c]; hi = data[c:c + 1]
            if lo.rfind(b'<') > lo.rfind(b'>') or lo.rfind(b'&') > lo.rfind(b';') or lo.endswith((b']', b'-', b'?', b'\r')): return True
    return False

# ---- lane D: coverage-guided differential fuzzing (harness/fz_chunk.cpp holds the oracle) ----
FUZZ_RUNS = {'quick': 1200, 'thorough': 60000}
FUZZ_SAFETY_S = {'quick': 200, 'thorough': 2400}
def fuzz_env():
    env = dict(os.environ); env.update(xv.ASAN_ENV)
    env['ASAN_OPTIONS'] = 'detect_leaks=0:abort_on_error=0:allocator_may_return_null=1:symbolize=1:handle_segv=1:detect_stack_use_after_return=0'
    return env

def fuzz_replay(data):
    d = tempfile.mkdtemp(prefix='verif.c04.')
    try:
        f = os.path.join(d, 'in'); open(f, 'wb').write(data)
        try: p = subprocess.run([xv.harness_path('fz_chunk'), '-timeout=120', '-rss_limit_mb=8000', '-artifact_prefix=' + d + '/', f], stdout=subprocess.DEVNULL, stderr=subprocess.PIPE, env=fuzz_env(), timeout=300)
        except subprocess.TimeoutExpired: return None, 'replay timeout'
        if p.returncode == 0: return True, 'ok'
        txt = p.stderr.decode('utf-8', 'replace')
        m = re.search(r'==XV-ORACLE==[^\n]*\n(?:[^\n]*\n){0,3}', txt)
        if m: return False, m.group(0)
        if 'ERROR: libFuzzer: timeout' in txt or 'out-of-memory' in txt: return None, 'timeout/oom'
        return False, 'sanitizer report in the differential target (C01 owns memory safety, reported here because both parses see the same bytes):\n' + txt[-2500:]
    finally: shutil.rmtree(d, ignore_errors=True)

def lane_fuzz(ctx):
    S = ctx.stats
    base = tempfile.mkdtemp(prefix='verif.c04.')
    try:
        corpus = os.path.join(base, 'c'); art = os.path.join(base, 'a'); os.makedirs(corpus); os.makedirs(art)
        src = sorted(glob.glob(os.path.join(xv.VERIF, 'corpus', 'fz_parse', '*')))
        for i, f in enumerate(src):
            if i % max(1, ctx.nworkers) == ctx.worker % max(1, ctx.nworkers) or i % 5 == 0: shutil.copy(f, corpus)
        runs = FUZZ_RUNS[ctx.tier]; execs = 0; rounds = 0
        while execs < runs and rounds < 4:
            args = [xv.harness_path('fz_chunk'), corpus, '-runs=%d' % (runs - execs), '-max_total_time=%d' % FUZZ_SAFETY_S[ctx.tier], '-seed=%d' % (ctx.seed * 1000 + ctx.worker + 1 + rounds * 7919),
                    '-timeout=60', '-rss_limit_mb=6000', '-max_len=4096', '-artifact_prefix=' + art + '/', '-print_final_stats=1', '-reload=0', '-dict=' + os.path.join(xv.VERIF, 'dict', 'xml.dict')]
            try: p = subprocess.run(args, stdout=subprocess.DEVNULL, stderr=subprocess.PIPE, env=fuzz_env(), timeout=FUZZ_SAFETY_S[ctx.tier] + 300)
            except subprocess.TimeoutExpired: S.inconclusive += 1; break
            rounds += 1
            m = re.findall(rb'stat::number_of_executed_units:\s+(\d+)', p.stderr) or re.findall(rb'^#(\d+)\s', p.stderr, re.M)
            if m: execs += int(m[-1])
            if p.returncode == 0: break
        S.evaluations += execs; S.labels['laneD:execs'] += execs; S.labels['laneD:restarts_after_finding'] += max(0, rounds - 1)
        if execs < runs: S.labels['laneD:short-of-run-count'] += 1
        n = len(glob.glob(os.path.join(corpus, '*')))
        S.labels['laneD:corpus'] += n
        for f in sorted(glob.glob(os.path.join(corpus, '*')))[-400:]: S.nontrivial.add('D:' + os.path.basename(f)[:16])
        seen = set()
        for a in sorted(glob.glob(os.path.join(art, '*'))):
            kind = os.path.basename(a).split('-')[0]; data = open(a, 'rb').read()
            if kind != 'crash': S.inconclusive += 1; S.labels['laneD:artifact:' + kind] += 1; continue
            ok, detail = fuzz_replay(data)
            if ok is None or ok: S.inconclusive += 1; S.labels['laneD:artifact-not-reproduced'] += 1; continue
            sig = ' '.join(detail.split('\n')[2:4])[:160]
            if sig in seen: continue
            seen.add(sig)
            S.failures.append({'case': {'lane': 'D', 'input_b64': base64.b64encode(data).decode()}, 'detail': 'libFuzzer artefact (%d bytes): %s' % (len(data), detail)})
    finally: shutil.rmtree(base, ignore_errors=True)

def worker(ctx):
    if os.environ.get('VERIF_C04_ONLYFUZZ') == '1': lane_fuzz(ctx); return      # development knob (sensitivity of lane D alone)
    ex = ctx.executor('xvexec')
    S = ctx.stats
    # ---- lane B first: deterministic share of the sweep ----
    pts = sweep_points(ctx.tier)
    stride = 8 if ctx.tier == 'quick' else 1
    mine = [p for i, p in enumerate(pts) if (i // stride) % ctx.nworkers == ctx.worker and (i % stride) == (ctx.seed % stride)]
    apis = ['sax2', 'dom', 'sax1']
    for j, pt in enumerate(mine):
        if ctx.out_of_time(): S.truncated = True; break
        api = apis[(j + ctx.seed) % 3]; scanner = ['IG', 'DG', 'IG'][(j // 3 + ctx.seed) % 3] if pt[0] != 'content' else ['IG', 'WF', 'DG', 'SG'][(j + ctx.seed) % 4]
        if pt[1] in ('entity-ref',) and scanner in ('WF', 'SG'): scanner = 'IG'
        case = sweep_case(pt, api, scanner)
        S.note(xv.sha([pt, api, scanner]), True, ['laneB', 'K:' + pt[1], 'B:%d' % pt[4], 'kind:' + pt[0]])
        if j < 2: S.sample({'lane': 'B', 'construct': pt[1], 'boundary': pt[4], 'offset': pt[5], 'filler': pt[2], 'api': api, 'scanner': scanner})
        try:
            ok, detail = run_sweep_point(case, ex)
        except xv.ExecutorDied as e:
            ok, detail = False, 'executor died rc=%s\n%s' % (e.rc, e.stderr[-3000:])
        if not ok: S.failures.append({'case': case, 'detail': detail})
        if len(S.failures) > 5: break
    S.extra['sweep_points_total'] = len(pts) if ctx.worker == 0 else 0
    S.extra['sweep_points_run'] = len(mine)
    # ---- lane A: partitions ----
    def propA(c):
        doc, plan = c
        data, fbytes, text, scanner = build_bytes(doc)
        api = doc[6]; ns = doc[9] or scanner == 'SG'
        first = xm.safe_first_read(data)
        S.excluded_known['C04-short-first-read'] += 0
        case = {'lane': 'A', 'api': api, 'feat': 'ns=%d;scanner=%s;val=0' % (ns, scanner), 'plan': ','.join(map(str, plan)), 'chunk1': first,
                'doc_b64': base64.b64encode(data).decode(), 'files_b64': {k: base64.b64encode(v).decode() for k, v in fbytes.items()}, 'doc_preview': text[:200]}
        nt = straddles(data, plan, first)
        S.note(xv.sha([case['doc_b64'], case['plan'], api, case['feat']]), nt, ['laneA', 'api:' + api, 'scanner:' + scanner, 'mut:%s' % doc[1], 'big' if len(data) > 16000 else 'small'])
        S.sample({'lane': 'A', 'plan': case['plan'], 'api': api, 'len': len(data), 'doc': text[:120]}, limit=4)
        ok, detail = run_case(case, ex)
        if ok and 'known' in detail: S.labels['known-class:transcoding-error-position'] += 1
        if not ok: raise PropertyFailure(case, detail)
    hyp_run(ctx, st.tuples(doc_strategy(), plan_strategy), propA, ctx.budget, batches=3)
    # ---- lane C: source types ----
    def propC(c):
        doc, source = c
        data, fbytes, text, scanner = build_bytes(doc)
        api = doc[6]; ns = doc[9] or scanner == 'SG'
        if fbytes and source in ('file', 'url', 'stdin'):
            pass    # external entities are served by the in-memory resolver whatever the document's source type
        case = {'lane': 'C', 'api': api, 'feat': 'ns=%d;scanner=%s;val=0' % (ns, scanner), 'source': source,
                'doc_b64': base64.b64encode(data).decode(), 'files_b64': {k: base64.b64encode(v).decode() for k, v in fbytes.items()}, 'doc_preview': text[:200]}
        S.note(xv.sha([case['doc_b64'], source, api, case['feat']]), True, ['laneC', 'src:' + source, 'api:' + api])
        S.sample({'lane': 'C', 'source': source, 'api': api, 'doc': text[:120]}, limit=6)
        ok, detail = run_case(case, ex)
        if not ok: raise PropertyFailure(case, detail)
    hyp_run(ctx, st.tuples(doc_strategy(), st.sampled_from(['custom', 'file', 'url', 'stdin'])), propC, max(20, ctx.budget // 4), batches=2, seed_salt=7)
    if os.environ.get('VERIF_C04_NOFUZZ') != '1': lane_fuzz(ctx)

def replay(case, ctx):
    if case.get('lane') == 'D':
        ok, detail = fuzz_replay(base64.b64decode(case['input_b64']))
        return (True if ok is None else ok), detail
    if case.get('lane') in ('known-short-first-read', 'known-transcoding-position'):
        ex = ctx.executor('xvexec')
        doc = base64.b64decode(case['doc_b64'])
        ref = strip(ex.request({'kind': 'parse', 'api': 'sax2', 'feat': 'ns=1', 'doc': doc, 'src': 'mem'}), True)
        var = strip(ex.request({'kind': 'parse', 'api': 'sax2', 'feat': 'ns=1', 'doc': doc, 'chunks': case['plan'], 'chunk1': str(case['chunk1'])}), True)
        return (ref == var), ('ok' if ref == var else diff(ref, var))
    return run_case(case, ctx.executor('xvexec'))

def classify(case, detail):
    if case.get('lane') in ('known-short-first-read', 'known-transcoding-position'): return 'C04-short-first-read'
    if case.get('lane') == 'known-transcoding-position': return 'C04-transcoding-error-position'
    return None

def known_witnesses():
    out = []
    for fid, name in (('C04-short-first-read', 'short_first_read.json'), ('C04-transcoding-error-position', 'transcoding_error_position.json')):
        p = os.path.join(xv.VERIF, 'regress-known', 'C04', name)
        if os.path.exists(p): out.append((fid, json.load(open(p))['case']))
    return out
