"""C07 -- DTD validation reports a validity error iff a validity constraint is violated (model M2, pbt/dtdmodel.py)."""
import base64, json, os
from hypothesis import strategies as st
import xv, dtdmodel as dm
from driver import hyp_run, PropertyFailure

ID = 'C07'
HARNESS = {'asan': ['xvexec']}
RULE = ('lane A (exhaustive): one element type with a generated content model, every child-name sequence up to length L over <=3 names, one '
        'sequence per line of one document, plus ten pumped sequences of 33-59 children; the set of lines carrying a validity error must equal the set '
        'of non-members (membership decided by a position automaton and by re.fullmatch up to length 5 / Brzozowski derivatives beyond). non-trivial = model has >=2 operators or is non-deterministic; every sequence is counted in '
        '`sequences`. lane A-big: models with 33..140 leaf positions (long runs of optional names with a repeated name at both ends and in the '
        'middle, choices of 40+ names, sequences of nested groups), sequences = members found by walking the model + single-edit neighbours, '
        'same per-line oracle. lane B: random DTD (1-6 element types, ten attribute types x four default kinds, declarations in internal subset / external '
        'subset / internal+external parameter entities / conditional sections) + instance valid by construction; lane C: the same with one injected '
        'violation, one small campaign per mutation kind (34 kinds) on every worker; verdict always recomputed by the model validator. non-trivial(B) = instance uses a children model with >=2 operators, a '
        'defaulted or tokenised attribute, an entity reference, standalone=yes with external declarations, or a non-internal declaration; '
        'non-trivial(C) = the model reports >=1 violated class; distinct by sha1(document, external entities). Every case is parsed with '
        'IG and DG scanners x SAX2 and DOM with validation on, and with validation off on two of these four (events must be equal modulo T/IW); '
        'namespaces on/off drawn per case.')
ASSUMPTIONS = ['membership witnesses (Glushkov simulation; Python re or derivatives) agree or the case is dropped (oracle_disagreements)',
               'internal parameter entities count as external markup declarations for standalone="yes" (definition in XML 1.0 2.9, 2nd-5th edition)',
               'non-deterministic content models are accepted and validated as regular languages (Xerces builds a DFA; XML 1.0 permits this)',
               'standalone="yes" cases use only the situations all editions classify alike (no enumerated-type normalisation, no entity '
               'references to externally declared entities, no ENTITY attributes naming externally declared unparsed entities)',
               'metamorphic clause (events equal with validation on/off) is not asserted where the document has character data in element-only or EMPTY '
               'content (Xerces deliberately drops it when validating) or an undeclared element']
BUDGET = {'quick': 440, 'thorough': 2400}
WALLCAP = {'quick': 500, 'thorough': 2400}

APIS = ['sax2', 'dom']
SCANNERS = ['IG', 'DG']

# coarse map: constraint class -> XMLValid codes that count as "reported"
CLASS_CODES = {
    'root': {5},
    'undeclared-elem': {2},
    'undeclared-attr': {17},
    'required': {6},
    'fixed': {26},
    'bad-enum': {23, 9, 25},
    'bad-token': {24, 25, 9},
    'dup-id': {12},
    'dangling-idref': {13},
    'bad-entity': {18, 19},
    'content-model': {7, 16, 21},
    'text-in-elemcontent': {22, 78},
    'empty-content': {7, 22, 75},
    'notation-undeclared': {4, 14},
    'sa-default': {48},
    'sa-norm': {49},
    'sa-ws': {50},
}
NO_META = {'text-in-elemcontent', 'empty-content', 'undeclared-elem'}

# Genuine defects of the unchanged tree whose input class is removed from generation by construction (and counted in excluded_known).
# Remove an id here (or name it in VERIF_C07_EXCLUSIONS_OFF=id,id|all) once the defect is fixed: the class is then generated and asserted again.
ALL_EXCLUSIONS = ('C07-sa-attnorm-trailing-inner', 'C07-enum-multiple-tokens-accepted', 'C07-sa-ws-before-reference')
_off = os.environ.get('VERIF_C07_EXCLUSIONS_OFF', '')
FIXED_IN_REPO = {'C07-enum-multiple-tokens-accepted'}
ACTIVE_EXCLUSIONS = set() if _off == 'all' else set(ALL_EXCLUSIONS) - FIXED_IN_REPO - set(x for x in _off.split(',') if x)
def EX(fid): return fid in ACTIVE_EXCLUSIONS

# ---------------------------------------------------------------------------------------------------------------
# execution
# ---------------------------------------------------------------------------------------------------------------
def parse(ex, case, api, scanner, val):
    req = {'kind': 'parse', 'api': api, 'feat': 'ns=%d;scanner=%s;val=%d' % (case['ns'], scanner, val),
           'doc': base64.b64decode(case['doc_b64']), 'loc': '0'}
    for k, v in case['files_b64'].items(): req['ent:' + k] = base64.b64decode(v)
    resp = ex.request(req)
    ev, extra = xv.parse_ced(resp)
    return ev

def split_events(ev):
    errs = [e for e in ev if e[0] == 'ERR']
    exc = [e for e in ev if e[0] == 'EXC']
    rest = [e for e in ev if e[0] not in ('ERR', 'EXC')]
    return errs, exc, rest

def meta_norm(rest):
    """delete the T/IW distinction: IW -> T and merge adjacent text lines"""
    out = []
    for e in rest:
        if e[0] in ('T', 'IW'):
            if out and out[-1][0] == 'T': out[-1] = ('T', out[-1][1] + e[1])
            else: out.append(('T', e[1]))
        else: out.append(e)
    return out

def check_case(case, ex):
    """-> (ok, detail)"""
    if case['lane'] == 'bundle':          # regress/C07/bundle.json: many small saved cases replayed in one executor
        for sub in case['cases']:
            ok, detail = check_case(sub, ex)
            if not ok: return False, 'regression case %s: %s' % (sub.get('name'), detail)
        return True, 'ok (%d cases)' % len(case['cases'])
    for api in APIS:
        for sc in SCANNERS:
            cfg = '%s/%s/ns=%d' % (api, sc, case['ns'])
            # validation-off run on two of the four (api, scanner) pairs: the diagonal or the anti-diagonal, drawn per case
            off = ((api == 'sax2') == (sc == 'IG')) == bool(case.get('off_diag', 1))
            try:
                ev1 = parse(ex, case, api, sc, 1)
                ev0 = parse(ex, case, api, sc, 0) if off else []
            except xv.ExecutorDied as e:
                return False, '[%s] executor died rc=%s\n%s' % (cfg, e.rc, e.stderr[-3000:])
            errs1, exc1, rest1 = split_events(ev1)
            errs0, exc0, rest0 = split_events(ev0)
            if exc1 or exc0: return False, '[%s] exception escaped parse(): %r %r' % (cfg, exc1[:2], exc0[:2])
            bad = [e for e in errs1 + errs0 if e[3] == 'F' or (e[1] != 'V' and e[3] == 'E')]
            if bad: return False, '[%s] well-formed document reported fatal / non-validity errors: %r' % (cfg, bad[:3])
            bad0 = [e for e in errs0 if e[1] == 'V']
            if bad0: return False, '[%s] validity errors reported with validation off: %r' % (cfg, bad0[:3])
            verrs = [(int(e[2]), int(e[4])) for e in errs1 if e[1] == 'V' and e[3] == 'E']
            codes = {c for c, _ in verrs}
            if case['lane'] == 'A':
                outside = [e for e in errs1 if e[1] == 'V' and e[6] != 'doc.xml']
                if outside: return False, '[%s] model %s: validity error reported inside the DTD: %r' % (cfg, case['model'], outside[:2])
                got = {}
                for c, ln in verrs: got.setdefault(ln, set()).add(c)
                for ln, seq, member in case['rows']:
                    g = got.pop(ln, set())
                    if member and g:
                        return False, '[%s] model %s: sequence (%s) is in the language but line %d reports validity codes %s' % (cfg, case['model'], seq, ln, sorted(g))
                    if not member and not g:
                        return False, '[%s] model %s: sequence (%s) is NOT in the language but line %d reports no validity error' % (cfg, case['model'], seq, ln)
                    if not member and not (g & (CLASS_CODES['content-model'] | CLASS_CODES['empty-content'])):
                        return False, '[%s] model %s: sequence (%s) rejected with codes %s, none of the content-model class' % (cfg, case['model'], seq, sorted(g))
                if got:
                    return False, '[%s] model %s: validity errors on lines that hold no sequence: %r' % (cfg, case['model'], sorted(got.items())[:3])
            else:
                exp = case['classes']
                if not exp and codes:
                    return False, '[%s] document is valid per model but validity errors were reported: codes %s (lines %s)' % (cfg, sorted(codes), sorted({l for _, l in verrs})[:5])
                if exp and not codes:
                    return False, '[%s] document violates %s per model (injected: %s) but no validity error was reported' % (cfg, exp, case.get('injected'))
                for c in exp:
                    if not (codes & CLASS_CODES[c]):
                        return False, '[%s] violated class %s (injected: %s): none of codes %s among reported %s' % (cfg, c, case.get('injected'), sorted(CLASS_CODES[c]), sorted(codes))
            if case.get('meta', True) and off:
                a = meta_norm(rest1); b = meta_norm(rest0)
                if a != b:
                    for i in range(max(len(a), len(b))):
                        x = a[i] if i < len(a) else None; y = b[i] if i < len(b) else None
                        if x != y:
                            return False, '[%s] events differ between validation on and off at event %d:\n  val=1 %r\n  val=0 %r' % (cfg, i, x, y)
    return True, 'ok'

# ---------------------------------------------------------------------------------------------------------------
# generation
# ---------------------------------------------------------------------------------------------------------------
def b64(s): return base64.b64encode(s.encode('utf-8')).decode()

@st.composite
def lane_a(draw, tier):
    ch = dm.Ch(draw)
    big = tier != 'quick'
    alphabet = ['a', 'b', 'c'][:ch.weighted([(3, 6), (2, 3), (1, 1)])]
    kind = ch.weighted([('CH', 16), ('MIXED', 2), ('EMPTY', 1), ('ANY', 1)])
    if kind == 'CH':
        sub = alphabet if ch.chance(3, 4) else ch.subset(alphabet, 1, len(alphabet))
        cm = dm.gen_children_cm(ch, sorted(sub), ch.int(1, 4 if big else 3))
    elif kind == 'MIXED':
        sub = sorted(ch.subset(alphabet, 0, len(alphabet)))
        cm = ('MIXED', sub, ch.pick(['', '*'])) if not sub else ('MIXED', sub)
    else: cm = (kind,)
    L = (6 if big else 5) if len(alphabet) == 3 else (8 if big else 7)
    leaf = {n: ch.pick(['EMPTY', 'EMPTY', 'ANY', '(#PCDATA)']) for n in alphabet}
    loc = ch.pick(['int', 'int', 'ext', 'split'])
    text, files, rows = dm.exhaustive_doc(cm, alphabet, L, leaf, ch, loc)
    return {'lane': 'A', 'cm': cm, 'alphabet': alphabet, 'L': L, 'text': text, 'files': files, 'rows': rows, 'loc': loc, 'ns': int(ch.bool()), 'off_diag': int(ch.bool())}

@st.composite
def lane_big(draw, tier):
    """lane A-big: content models with 33..140 leaf positions (DFA state sets wider than one 32-bit word, > 128: dynamic representation)"""
    ch = dm.Ch(draw)
    cm, names = dm.gen_big_cm(ch)
    text, rows = dm.big_doc(ch, cm, names, 24 if tier == 'quick' else 40)
    return {'lane': 'A', 'cm': cm, 'alphabet': names, 'L': 0, 'text': text, 'files': {}, 'rows': rows, 'loc': 'int', 'ns': int(ch.bool()), 'off_diag': int(ch.bool())}

def build_a(g):
    rows = [[ln, ' '.join(seq), bool(ok)] for ln, seq, ok, agree in g['rows'] if agree]
    return {'lane': 'A', 'ns': g['ns'], 'off_diag': g['off_diag'], 'model': dm.render_cm(g['cm']), 'doc_b64': b64(g['text']), 'files_b64': {k: b64(v) for k, v in g['files'].items()},
            'rows': rows, 'meta': False}

@st.composite
def lane_bc(draw, tier, kind=None):
    """kind=None: valid instance (lane B); else the named mutation is tried first (lane C).  The mutation kind is a parameter and not a
    drawn value because Hypothesis clusters drawn choices: each worker runs one small campaign per kind, so no class stays empty."""
    ch = dm.Ch(draw)
    wish = dm.WISHES.get(kind) if kind and ch.chance(3, 4) else None
    dtd = dm.gen_dtd(ch, tier, wish)
    doc = dm.gen_valid_doc(ch, dtd, tier)
    injected = None
    for attempt in range(5):                                  # the drawn mutation, else up to four other drawn ones
        if kind is None: break
        r = dm.mutate(ch, dtd, doc, kind)
        if r is not None:
            dtd, doc, cls = r; injected = kind + '>' + cls
            break
        kind = ch.pick(dm.MUTATIONS)
    prolog, files = dm.render_dtd(dtd, ch, doc['standalone'], doc['doctype'])
    trailer = ch.pick(['', '\n', '\n<!-- end -->', '<?p x?>\n'])
    text = prolog + dm.render_doc_node(doc['root']) + trailer
    return {'lane': 'C' if injected else 'B', 'dtd': dtd, 'doc': doc, 'injected': injected, 'text': text, 'files': files, 'ns': int(ch.bool()), 'off_diag': int(ch.bool())}

def shape_labels(dtd, doc):
    L = set()
    for n, cm in dtd.elements.items():
        L.add('cm:' + cm[0])
        if cm[0] == 'CH':
            g = dm.Glushkov(cm[1])
            if not g.deterministic(): L.add('cm:nondeterministic')
            if dm.cm_operators(cm[1]) >= 2: L.add('cm:ops>=2')
        L.add('loc:' + dtd.elem_loc[n])
    for al in dtd.attlists.values():
        for a in al: L.add('loc:' + a['loc'])
    if dtd.cm_via_pe: L.add('cm-via-pe')
    if dtd.decoys: L.add('ignore-decoys')
    if dtd.unparsed: L.add('unparsed-entity')
    L.add('standalone:%s' % doc['standalone'])
    return L

def instance_labels(dtd, doc):
    L = set()
    def walk(n):
        if n[0] == 'e':
            cm = dtd.elements.get(n[1])
            if cm and cm[0] == 'CH' and dm.cm_operators(cm[1]) >= 2: L.add('uses-cm-ops>=2')
            wr = dict(n[2])
            for a in dtd.attlists.get(n[1], []) if cm else []:
                if a['name'] not in wr and a['kind'] in ('DEFAULT', '#FIXED'): L.add('defaulted-attr')
                if a['name'] in wr and a['type'] != 'CDATA': L.add('tokenised-attr')
                if a['name'] in wr and a['type'] != 'CDATA' and dm.norm_tok(wr[a['name']]) != wr[a['name']]: L.add('attr-needs-normalisation')
            for c in n[3]: walk(c)
        elif n[0] == 'er': L.add('entity-ref')
        elif n[0] in ('cd', 'cr'): L.add('cdata-or-charref')
    walk(doc['root'])
    if doc['standalone'] == 'yes' and any(l in dm.EXTERNAL_LOCS for l in dm._all_locs(dtd)): L.add('standalone-with-external')
    if any(l != 'int' for l in dm._all_locs(dtd)): L.add('non-internal-decl')
    return L

NONTRIV_B = {'uses-cm-ops>=2', 'defaulted-attr', 'tokenised-attr', 'entity-ref', 'standalone-with-external', 'non-internal-decl'}

def build_bc(g, st_):
    V = dm.violations(g['dtd'], g['doc'])
    if 'ORACLE-DISAGREE' in V: return None
    if EX('C07-sa-attnorm-trailing-inner') and 'sa-norm' in V and dm.sa_norm_undetected(g['dtd'], g['doc']):
        st_.excluded_known['C07-sa-attnorm-trailing-inner'] += 1
        return 'excluded'
    if EX('C07-sa-ws-before-reference') and 'sa-ws' in V and dm.sa_ws_undetected(g['dtd'], g['doc']):
        st_.excluded_known['C07-sa-ws-before-reference'] += 1
        return 'excluded'
    if EX('C07-enum-multiple-tokens-accepted') and 'bad-enum' in V and dm.enum_multi_only(g['dtd'], g['doc']):
        st_.excluded_known['C07-enum-multiple-tokens-accepted'] += 1
        return 'excluded'
    classes = sorted(V)
    meta = not (V & NO_META)
    return {'lane': g['lane'], 'ns': g['ns'], 'off_diag': g['off_diag'], 'doc_b64': b64(g['text']), 'files_b64': {k: b64(v) for k, v in g['files'].items()},
            'classes': classes, 'injected': g['injected'], 'meta': meta, 'doc_preview': g['text'][:1500],
            'files_preview': {k: v[:600] for k, v in g['files'].items()}}

def worker(ctx):
    ex = ctx.executor('xvexec')
    st_ = ctx.stats
    st_.extra['sequences'] = 0; st_.extra['sequences_rejected_by_model'] = 0
    st_.extra['mutation_not_violating'] = 0; st_.extra['generator_invalid'] = 0
    hist_inj = st_.extra.setdefault('hist_injected', {}); hist_cls = st_.extra.setdefault('hist_violated_class', {})
    hist_att = st_.extra.setdefault('hist_attdecl_type_kind', {}); hist_a = st_.extra.setdefault('hist_laneA_models', {})
    def bump(h, k): h[k] = h.get(k, 0) + 1

    def prop_a(g):
        if any(not agree for _, _, _, agree in g['rows']):
            st_.oracle_disagreements += 1
        case = build_a(g)
        labels = ['lane:A', 'A:' + g['cm'][0], 'A:loc=' + g['loc'], 'ns:%d' % g['ns'], 'A:names=%d' % len(g['alphabet'])]
        nontriv = False
        if g['cm'][0] == 'CH':
            det = dm.Glushkov(g['cm'][1]).deterministic(); ops = dm.cm_operators(g['cm'][1])
            labels += ['A:deterministic' if det else 'A:nondeterministic', 'A:ops=%d' % min(ops, 6), 'A:depth=%d' % dm.cm_depth(g['cm'][1])]
            nontriv = (not det) or ops >= 2
            labels.append('A:2nd-witness=' + ('derivatives' if dm.star_of_nullable(g['cm'][1])[1] else 're(<=5)+derivatives(>5)'))
        nrej = sum(1 for r in case['rows'] if not r[2])
        st_.extra['sequences'] += len(case['rows']); st_.extra['sequences_rejected_by_model'] += nrej
        st_.note(xv.sha([case['doc_b64'], case['files_b64'], case['ns']]), nontriv, labels)
        bump(hist_a, ('nondeterministic' if g['cm'][0] == 'CH' and not det else g['cm'][0]) + '/names=%d' % len(g['alphabet']))
        if nontriv: st_.sample({'lane': 'A', 'model': case['model'], 'L': g['L'], 'alphabet': g['alphabet'], 'sequences': len(case['rows']), 'rejected': nrej}, limit=2)
        ok, detail = check_case(case, ex)
        if not ok: fail(case, detail)

    def prop_big(g):
        if any(not agree for _, _, _, agree in g['rows']): st_.oracle_disagreements += 1
        case = build_a(g)
        case['model'] = case['model'][:400] + (' ...' if len(case['model']) > 400 else '')
        leaves = dm.count_leaves(g['cm'][1])
        det = dm.Glushkov(g['cm'][1]).deterministic()
        labels = ['lane:A-big', 'ns:%d' % g['ns'], 'Abig:leaves=%s' % ('33-64' if leaves <= 64 else '65-128' if leaves <= 128 else '>128'),
                  'Abig:deterministic' if det else 'Abig:nondeterministic']
        nrej = sum(1 for r in case['rows'] if not r[2])
        st_.extra['sequences'] += len(case['rows']); st_.extra['sequences_rejected_by_model'] += nrej
        bump(hist_a, 'big/' + labels[2][5:])
        st_.note(xv.sha([case['doc_b64'], case['ns']]), True, labels)
        st_.sample({'lane': 'A-big', 'leaves': leaves, 'model': case['model'][:200], 'sequences': len(case['rows']), 'rejected': nrej}, limit=5)
        ok, detail = check_case(case, ex)
        if not ok: fail(case, detail)

    def fail(case, detail):
        # evaluation count at which this worker first saw a failure (sensitivity runs read it from the evidence)
        if 'first_failure_at_evaluation' not in st_.extra: st_.extra['first_failure_at_evaluation'] = [st_.evaluations]
        raise PropertyFailure(case, detail)

    def prop_bc(g):
        case = build_bc(g, st_)
        if case == 'excluded': return
        if case is None:
            st_.oracle_disagreements += 1; return
        if g['lane'] == 'B' and case['classes']:
            st_.extra['generator_invalid'] += 1          # generator and validator disagree: generator bug, never a verdict
            st_.extra.setdefault('generator_invalid_samples', [])
            if len(st_.extra['generator_invalid_samples']) < 3: st_.extra['generator_invalid_samples'].append({'classes': case['classes'], 'doc': g['text'][:600]})
            return
        if g['lane'] == 'C' and not case['classes']: st_.extra['mutation_not_violating'] += 1
        labels = shape_labels(g['dtd'], g['doc']) | instance_labels(g['dtd'], g['doc'])
        labels |= {'lane:' + g['lane'], 'ns:%d' % g['ns'], 'verdict:' + ('invalid' if case['classes'] else 'valid')}
        if g['injected']: bump(hist_inj, g['injected'])
        for c in case['classes']: bump(hist_cls, c)
        for al in g['dtd'].attlists.values():
            for a in al: bump(hist_att, '%s/%s' % (a['type'], a['kind']))
        nontriv = bool(case['classes']) if g['lane'] == 'C' else bool(labels & NONTRIV_B)
        st_.note(xv.sha([case['doc_b64'], case['files_b64'], case['ns']]), nontriv, sorted(labels))
        if g['lane'] == 'C' and case['classes']: st_.sample({'lane': 'C', 'injected': g['injected'], 'classes': case['classes'], 'doc': g['text'][:400]})
        ok, detail = check_case(case, ex)
        if not ok: fail(case, detail)

    na = max(4, ctx.budget // 16)
    hyp_run(ctx, lane_a(ctx.tier), prop_a, na, batches=2, seed_salt=7)
    hyp_run(ctx, lane_big(ctx.tier), prop_big, max(4, ctx.budget // 30), batches=2, seed_salt=9)
    nb = ctx.budget * 2 // 5
    hyp_run(ctx, lane_bc(ctx.tier), prop_bc, nb, batches=2, seed_salt=11)
    per = max(3, (ctx.budget - nb) // len(dm.MUTATIONS))
    for i, kind in enumerate(dm.MUTATIONS):
        hyp_run(ctx, lane_bc(ctx.tier, kind), prop_bc, per, batches=1, seed_salt=100 + i)

def replay(case, ctx):
    return check_case(case, ctx.executor('xvexec'))

# ---------------------------------------------------------------------------------------------------------------
# known findings (genuine defects seen on the unchanged tree; excluded from generation by construction, see build_bc)
# ---------------------------------------------------------------------------------------------------------------
def make_case(text, files, classes, injected=None, ns=0, meta=True, lane='C'):
    return {'lane': lane, 'ns': ns, 'off_diag': 1, 'doc_b64': b64(text), 'files_b64': {k: b64(v) for k, v in files.items()},
            'classes': classes, 'injected': injected, 'meta': meta, 'doc_preview': text[:1500], 'files_preview': files}

KNOWN = {
    # XML 1.0 2.9 VC Standalone Document Declaration, 4th bullet: an externally declared tokenised attribute whose value changes under
    # normalisation.  Xerces (IGXMLScanner::scanAttValue / normalizeAttValue, DGXMLScanner::scanAttValue) only looks for leading white space and for
    # TAB/CR/LF followed by white space; trailing or doubled spaces are normalised away silently.
    'C07-sa-attnorm-trailing-inner': make_case(
        '<?xml version="1.0" encoding="UTF-8" standalone="yes"?>\n<!DOCTYPE a SYSTEM "ext.dtd" [\n<!ELEMENT a ANY>\n]>\n<a p="d0 " q="x  y"></a>\n',
        {'ext.dtd': '<!ATTLIST a p ID #IMPLIED q NMTOKENS #IMPLIED>\n'}, ['sa-norm'], 'sa-norm>sa-norm:trail'),
    # XML 1.0 3.3.1 VC Enumeration / VC Notation Attributes: the value must match ONE of the listed tokens.  DTDValidator::validateAttrValue treats
    # Enumeration and Notation as multi-valued types and checks the value token by token, so "x y" passes for (x|y).
    # XML 1.0 2.9 VC Standalone Document Declaration, last bullet: white space directly within an externally declared element-content element.
    # IGXMLScanner::scanCharData / DGXMLScanner::scanCharData flush the buffered characters (sendCharData) when they meet '&' or the end of an
    # entity, and run the NoWSForStandalone check only on what is left in the buffer when '<' is reached: white space in front of a reference escapes.
    'C07-sa-ws-before-reference': make_case(
        '<?xml version="1.0" standalone="yes"?>\n<!DOCTYPE a SYSTEM "ext.dtd" [\n<!ELEMENT b EMPTY>\n<!ENTITY ge1 "<b/>">\n]>\n<a> &ge1;</a>\n',
        {'ext.dtd': '<!ELEMENT a (b)*>\n'}, ['sa-ws'], 'sa-ws>sa-ws'),
    'C07-enum-multiple-tokens-accepted': make_case(
        '<!DOCTYPE r [\n<!ELEMENT r ANY>\n<!ATTLIST r t (x|y) #IMPLIED>\n]>\n<r t="x y"/>\n', {}, ['bad-enum'], 'enum-multi>bad-enum'),
}

def known_witnesses():
    out = []
    for fid in ALL_EXCLUSIONS:
        p = os.path.join(xv.VERIF, 'regress-known', 'C07', fid + '.json')
        if os.path.exists(p): out.append((fid, json.load(open(p))['case']))
        else: out.append((fid, KNOWN[fid]))
    return out

def classify(case, detail):
    if case.get('lane') == 'A': return None
    inj = case.get('injected') or ''
    if case.get('classes') == ['sa-norm'] and inj.startswith('sa-norm>') and 'no validity error was reported' in detail: return 'C07-sa-attnorm-trailing-inner'
    if case.get('classes') == ['sa-ws'] and inj.startswith('sa-ws>') and 'no validity error was reported' in detail and b'&' in base64.b64decode(case['doc_b64']).split(b']>')[-1]:
        return 'C07-sa-ws-before-reference'
    if case.get('classes') == ['bad-enum'] and inj.startswith('enum-multi>') and 'no validity error was reported' in detail: return 'C07-enum-multiple-tokens-accepted'
    return None
