"""C10 -- identity constraints (unique / key / keyref) are enforced in the value space (M5 oracle + metamorphic relations)."""
import os, re
from hypothesis import strategies as st
import xv, xsdmodel as xm, icmodel as im
from driver import hyp_run, PropertyFailure
import props.C08 as C08

ID = 'C10'
HARNESS = {'asan': ['xv_xsd']}
RULE = ('schema with a recursive scope type and 1-3 generated unique/key/keyref definitions over the XSD 1.0 XPath subset; instances built from '
        'tuple tables in the value space (planted duplicates, absent fields, equal values in different lexical forms, references before and after '
        'keys, nested scopes); verdict from the M5 model (3.11.4 incl. table propagation with conflict removal); metamorphic: permuting the '
        'document order inside every scope, and adding tuples with fresh values, leaves the verdict unchanged.  non-trivial = the evaluated '
        'constraints produced >=2 tuples and at least one of: a pair of equal values with different lexical forms or of different related types, a keyref, a nested scope, a '
        'descendant/wildcard selector, a multi-field tuple; distinct by sha1(schema, instance, config).')
ASSUMPTIONS = ['the M5 model is the only witness (no second XSD implementation in the image); metamorphic relations are model-independent',
               'compared fields (key vs keyref, carriers united by | in a selector) have the same type or different types of ONE primitive family (decimal/integer/long/short/nonNegativeInteger; string/normalizedString/token) restricted to values all member types share; cross-primitive pairs are not generated',
               'date values use no zone or UTC only; decimal literals avoid the forms "1." and ".5"',
               'structure validity of every instance is guaranteed by a permissive content model, so every reported error is an identity-constraint error']
BUDGET = {'quick': 500, 'thorough': 4000}
WALLCAP = {'quick': 500, 'thorough': 3000}

VALID = C08.VALID; VNAME = C08.VNAME; XNAME = C08.XNAME
IC_CODES = ['IC_FieldMultipleMatch', 'IC_UnknownField', 'IC_AbsentKeyValue', 'IC_KeyNotEnoughValues', 'IC_KeyMatchesNillable', 'IC_DuplicateUnique',
            'IC_DuplicateKey', 'IC_KeyRefOutOfScope', 'IC_KeyNotFound']
CLASS = {'dup-unique': ['IC_DuplicateUnique'], 'dup-key': ['IC_DuplicateKey'], 'key-absent': ['IC_AbsentKeyValue', 'IC_KeyNotEnoughValues'],
         'keyref-notfound': ['IC_KeyNotFound', 'IC_KeyRefOutOfScope'], 'field-multi': ['IC_FieldMultipleMatch']}
XENV = C08.XENV

def verdict(lines, viol):
    errs = [l for l in lines if l[0] == 'ERR']; excs = [l for l in lines if l[0] == 'EXC']
    if excs: return 'exception escaped parse(): %r' % (excs[:2],)
    def names(): return ['%s:%s/%s' % (l[1], (VNAME if l[1] == 'V' else XNAME if l[1] == 'X' else {}).get(int(l[2]), l[2]), l[3]) for l in errs[:8]]
    if not viol:
        if errs: return 'instance conforming to every identity constraint reported %d error(s): %s' % (len(errs), names())
        return None
    if any(l[3] == 'F' for l in errs): return 'identity-constraint violation produced a FATAL error: %s' % names()
    ics = {VALID[c] for c in IC_CODES}
    iv = [l for l in errs if l[1] == 'V' and int(l[2]) in ics]
    if not iv: return 'instance violating %s reported no identity-constraint error; got %s' % (sorted(viol), names())
    other = [l for l in errs if not (l[1] == 'V' and int(l[2]) in ics)]
    if other: return 'errors outside the identity-constraint class on a structure-valid instance: %s' % names()
    allowed = set()
    for v in viol: allowed |= {VALID[c] for c in CLASS[v]}
    for v in viol:
        if 'field-multi' in viol and v != 'field-multi': continue      # after a multiple match the tuple is undefined: only the multiple match itself is required
        if not any(int(l[2]) in {VALID[c] for c in CLASS[v]} for l in iv):
            return 'violation %s is not reported: codes %s, expected one of %s' % (v, names(), CLASS[v])
    extra = [l for l in iv if int(l[2]) not in allowed]
    # after a multiple match the tuple is undefined: follow-up reports are not judged
    if extra and 'field-multi' not in viol: return 'reported a violation class the instance does not have: %s (model: %s)' % (names(), sorted(viol))
    return None

def render_doc(case, root, hint=False):
    tns = case['tns']
    h = None
    if hint: h = ('schemaLocation', '%s s.xsd' % tns) if tns else ('noNamespaceSchemaLocation', 's.xsd')
    return xm.render_instance(root, nsprefix={im.TNS: 'p', 'urn:v': 'v', 'urn:w': 'w'}, hint=h, extra_ns=im.QNAME_NS)

@st.composite
def ic_case(draw, tier):
    ext = draw(st.integers(0, 2)) > 0
    big = draw(st.integers(0, 24)) == 0
    if draw(st.integers(0, 2)) == 0: c = draw(im.gen_case_ns(big=big))        # multi-namespace lane: namespace-wildcard steps and their unions
    else: c = draw(im.gen_case(ext=ext, big=big, propagate=not EX(PROPAGATED)))
    c['cfg'] = {'api': draw(st.sampled_from(['sax2', 'dom'])), 'scanner': draw(st.sampled_from(['IG', 'IG', 'SG'])), 'fullcheck': draw(st.sampled_from([1, 0])),
                'route': draw(st.sampled_from(['cached'] * 4 + ['hint']))}
    c['perm'] = im.permuted(draw, c['root'])
    c['ext'] = ext; c['big'] = big
    return c

# ---- known findings: every exclusion is switchable (VERIF_C10_EXCLUSIONS_OFF=id,id,... or 'all') -------------------------------
SG_CACHED_NONS = 'C08-sg-cached-nonamespace-root'          # owned by C08; C10 only routes around it
DESC_CTX = 'C10-descendant-selector-matches-context-element'
DESC_NOBACKTRACK = 'C10-descendant-selector-misses-nested-first-step'
NESTED_ELEM_FIELD = 'C10-nested-scope-element-field-multimatch'
PROPAGATED = 'C10-keyref-table-propagation'
ALL_EXCLUSIONS = [SG_CACHED_NONS, DESC_CTX, DESC_NOBACKTRACK, NESTED_ELEM_FIELD, PROPAGATED]
_off = os.environ.get('VERIF_C10_EXCLUSIONS_OFF', '')
ACTIVE_EXCLUSIONS = set() if _off == 'all' else set(ALL_EXCLUSIONS) - set(x for x in _off.split(',') if x)
def EX(fid): return fid in ACTIVE_EXCLUSIONS

def known_class(case, root):
    """input classes excluded because of genuine defects found on the unchanged tree (see report)"""
    tns = case['tns']
    def g_in_g(n, inside=False):
        for c in n.elems():
            if c.name == 'g' and inside: return True
            if g_in_g(c, inside or c.name == 'g'): return True
        return False
    for ic in case['ics']:
        if ic.on == 'g' and any(p['desc'] for p in ic.selector) and any(f[0]['attr'] is None or [x for x in f[0]['steps'] if x != '.'] for f in ic.fields) and g_in_g(root):
            return NESTED_ELEM_FIELD      # same constraint active in nested scopes + element-valued field: spurious IC_FieldMultipleMatch
    for ic in case['ics']:
        for p in ic.selector:
            steps = [s for s in p['steps'] if s != '.']
            if not p['desc'] or not steps: continue
            first = steps[0]
            scope_ns = tns if ic.on == 'r' else case.get('lns', tns)
            if first == '*' or first[1] == ic.on or (first[1] == '*' and first[0] in (scope_ns, '*', None)):
                return DESC_CTX          # './/g/k', './/*', './/p:*' declared on g: the scope element itself is taken for the first step
            if len(steps) >= 2 and first != '*':
                # an element matching the first step nested inside another one: the inner match is lost
                def nested(n, inside):
                    for c in n.elems():
                        hit = im.match_step(first, c)
                        if hit and inside: return True
                        if nested(c, inside or hit): return True
                    return False
                if nested(root, False): return DESC_NOBACKTRACK
    return None

def model_of(case):
    tns = case['tns']
    return im.ICModel(case['ics'], im.typing_for(tns, case['T']), {'r': (tns, 'r'), 'g': (case.get('lns', tns), 'g')})

def check_ic(ctx, ex, c, tier):
    st_ = ctx.stats
    cfg = dict(c['cfg']); tns = c['tns']
    texts = im.render_schemas(c); schema = texts['s.xsd']
    case_fid = None
    if cfg['scanner'] == 'SG' and cfg['route'] == 'cached' and not tns:
        if EX(SG_CACHED_NONS): st_.excluded_known[SG_CACHED_NONS] += 1; cfg['route'] = 'hint'
        else: case_fid = SG_CACHED_NONS
    if 'propagated-table' in c['labels']: case_fid = case_fid or PROPAGATED
    fc = dict(cfg); fc['fullcheck'] = 1
    lload, _ = C08.run_docs(ex, texts, ['s.xsd'], fc, [])
    prob = C08.load_problem(lload, False)
    st_.note(xv.sha([schema, 'load']), False, ['lane:load'])
    if prob: raise PropertyFailure({'lane': 'load', 'schemas': texts, 'load': ['s.xsd'], 'cfg': fc, 'expect_load_errors': False}, prob)
    m = model_of(c)
    variants = [('base', c['root']), ('perm', c['perm'])]
    e = im.extended(c, c['root'])
    if e is not None: variants.append(('more', e))
    hint = cfg['route'] == 'hint'
    docs = []; viols = []; stats = []
    for name, root in variants:
        kc = known_class(c, root)
        if kc:
            if EX(kc): st_.excluded_known[kc] += 1; return
            case_fid = case_fid or kc
        v = m.check(root); viols.append(set(v)); stats.append(dict(m.stats)); docs.append(render_doc(c, root, hint))
    if viols[0] != viols[1] or (len(viols) > 2 and viols[2] != viols[0]):
        st_.oracle_disagreements += 1      # the model itself is not invariant: drop
        st_.extra.setdefault('model_variance', [])
        if len(st_.extra['model_variance']) < 3: st_.extra['model_variance'].append({'viols': [sorted(v) for v in viols], 'docs': docs, 'schema': schema[-600:]})
        return
    if hint: results = [C08.run_hint(ex, texts, cfg, d) for d in docs]
    else: _, results = C08.run_docs(ex, texts, ['s.xsd'], cfg, docs)
    labels = list(c['labels']) + ['api:' + cfg['api'], 'scanner:' + cfg['scanner'], 'route:' + cfg['route'], 'ext:%d' % c['ext'], 'big:%d' % c['big']] + \
             ['type:' + t for t in sorted(set(c['T'].values()))]
    for (name, root), doc, v, sx, lines in zip(variants, docs, viols, stats, results):
        nt = sx['tuples'] >= 2 and (sx['equal_lex_diff'] > 0 or sx['cross_type'] > 0 or any(ic.kind == 'keyref' for ic in c['ics']) or 'nested' in c['labels'] or
                                    any(l.startswith('sel:') and ('//' in l or '*' in l) for l in c['labels']) or any(len(ic.fields) > 1 for ic in c['ics']))
        st_.note(xv.sha([schema, doc, cfg]), nt, (labels if name == 'base' else []) + ['variant:' + name, 'verdict:' + ('valid' if not v else 'invalid')] + ['viol:' + x for x in v] +
                 (['equal-lex-diff'] if sx['equal_lex_diff'] else []) + (['cross-type-equal'] if sx['cross_type'] else []))
        bad = verdict(lines, v)
        if bad:
            raise PropertyFailure({'lane': 'ic', 'finding': case_fid, 'schemas': texts, 'load': ['s.xsd'], 'cfg': cfg, 'doc': doc, 'viol': sorted(v), 'variant': name,
                                   'ics': [ic.to_json() for ic in c['ics']], 'types': c['T']}, bad)
    st_.sample({'schema': schema[-700:], 'doc': docs[0][:400], 'viol': sorted(viols[0]), 'cfg': cfg})

def run_case(case, ex):
    try:
        cfg = case['cfg']
        if case['lane'] == 'load':
            lload, _ = C08.run_docs(ex, case['schemas'], case['load'], cfg, [])
            prob = C08.load_problem(lload, case['expect_load_errors'])
            return (prob is None), prob or 'ok'
        if cfg.get('route') == 'hint': lines = C08.run_hint(ex, case['schemas'], cfg, case['doc'])
        else:
            lload, res = C08.run_docs(ex, case['schemas'], case['load'], cfg, [case['doc']])
            prob = C08.load_problem(lload, False)
            if prob: return False, prob
            lines = res[0]
        bad = verdict(lines, set(case['viol']))
        return (bad is None), bad or 'ok'
    except xv.ExecutorDied as e:
        return False, 'executor died rc=%s\n%s' % (e.rc, e.stderr[-3000:])

def replay(case, ctx):
    if case.get('lane') == 'died': return True, 'executor-death case; see stderr in the finding file'
    return run_case(case, ctx.executor('xv_xsd', extra_env=XENV))

# ---- known findings (genuine defects found on the unchanged tree; the input classes are excluded by construction above) ------
KNOWN_DIR = os.path.join(os.path.dirname(os.path.dirname(os.path.dirname(os.path.abspath(__file__)))), 'regress-known', ID)

def known_witnesses():
    """(finding-id, case) for every stored witness of an OPEN finding (regress-known/C10/<id>.json)"""
    import json
    out = []
    for fid in ALL_EXCLUSIONS:
        path = os.path.join(KNOWN_DIR, fid + '.json')
        if os.path.exists(path):
            obj = json.load(open(path)); out.append((fid, obj.get('case', obj)))
    return out

def classify(case, detail):
    """the generator records in case['finding'] that the failing case lies in the input class of a known finding (known_class(): selector
    shape + instance nesting; SG scanner + cached no-namespace grammar; keyref resolved through a table propagated from a descendant scope)"""
    fid = case.get('finding')
    return fid if fid in ALL_EXCLUSIONS else None

def dev_lanes(ctx, ex):
    tier = ctx.tier if ctx.tier in ('quick', 'thorough') else 'quick'
    return [('ic', ic_case(tier), lambda c: check_ic(ctx, ex, c, tier))]

def worker(ctx):
    ex = ctx.executor('xv_xsd', extra_env=XENV)
    im.selftest_pools()
    for k, (name, strat, fn) in enumerate(dev_lanes(ctx, ex)):
        def prop(c, fn=fn, name=name):
            try:
                fn(c)
            except PropertyFailure:
                if os.environ.get('VERIF_STOP_AFTER_FAIL'): ctx.deadline = 0      # sensitivity runs: first detection is enough, skip shrinking
                raise
            except xv.ExecutorDied as e:
                raise PropertyFailure({'lane': 'died', 'schemas': im.render_schemas(c), 'cfg': c['cfg'],
                                       'doc': render_doc(c, c['root'])}, 'executor died rc=%s\n%s' % (e.rc, e.stderr[-3000:]))
        hyp_run(ctx, strat, prop, ctx.budget, batches=4, seed_salt=7)
