"""C18 -- MemoryManager discipline (ledger) and Initialize/Terminate lifecycle."""
import base64, os, subprocess
from hypothesis import strategies as st
import xv, xmlmodel as xm, wfmut
from driver import hyp_run, PropertyFailure
import props.C15 as C15

ID = 'C18'
HARNESS = {'asan': ['xvexec', 'xvlife']}
RULE = ('ledger lane: a recording MemoryManager is given to a parser (SAXParser, SAX2XMLReader, XercesDOMParser, DOMLSParser; optionally with an XMLGrammarPoolImpl '
        'on the same manager); documents are M1 renderings, their well-formedness mutants and DTD/schema-valid/invalid instances; the parse ends normally, by a '
        'fatal error, by an exception thrown from the k-th handler callback for EVERY k = 1..min(K, kmax) (K = callbacks of the clean run; kmax 40 quick / 400 '
        'thorough), or as a progressive parse abandoned after j steps (with and without parseReset); lifetime script: parser reused 1-3 times, document adopted and '
        'released before or after the parser is destroyed, resetDocumentPool; optionally a grammar script first (loadGrammar with and without caching, of a key already cached, '
        'into a locked pool; lock/unlock); a twin run interleaves objects of two ledgers.  Oracle: no pointer the ledger does '
        'not own is ever passed to deallocate, and the ledger is empty once every object constructed with it is destroyed.  lifecycle lane (xvlife, fresh '
        'process per case): balanced Initialize/Terminate nestings (depth <= 3, custom or default global manager, different locales) around a fixed workload: '
        'global ledger empty after the outermost Terminate, workload digest identical in every round, LeakSanitizer silent at exit.  non-trivial = the parse '
        'ended abnormally (fatal / handler exception / abandoned) and an object outlived the parser or the parser was reused, or lifecycle case with >= 2 '
        'nestings; every enumerated k counts as one evaluation; distinct by sha1(case).')
ASSUMPTIONS = ['allocation-failure injection is not part of the property', 'process-wide caches legitimately allocate from the global manager (checked only by the lifecycle lane)',
               'K is enumerated exhaustively up to kmax and not beyond']
BUDGET = {'quick': 60, 'thorough': 700}
WALLCAP = {'quick': 500, 'thorough': 3600}

FEATS = ['ns=1;val=0;scanner=IG', 'ns=1;val=1;scanner=IG', 'ns=1;val=2;schema=1;scanner=IG', 'ns=1;val=1;schema=1;fullcheck=1;scanner=SG', 'ns=0;val=1;scanner=DG', 'ns=1;val=0;scanner=WF',
         'ns=1;val=1;schema=1;ere=0;scanner=IG']

@st.composite
def gen_case(draw):
    src = draw(st.sampled_from(['m1', 'm1', 'm1mut', 'm1ent', 'c15', 'c15']))
    files = {}
    if src == 'c15':
        data = draw(C15.gen_doc())
        for i, g in enumerate(C15.DTDS): files['dtd%d.dtd' % i] = g.encode()
        for i, g in enumerate(C15.XSDS): files['xsd%d.xsd' % i] = g.encode()
    else:
        d = draw(xm.gen_doc(xm.GenCfg(max_depth=3, max_children=4)))
        text, fs = xm.render(d)
        if src == 'm1mut':
            m = wfmut.mutate(text, d, draw(st.sampled_from(wfmut.OPS_ANY)), draw(st.integers(0, 999)))
            if m is not None: text = m
        elif src == 'm1ent':
            # error paths of the entity / reader machinery (readers and entity declarations created and then refused): weighted up, they are rare in OPS_ANY
            m = wfmut.mutate(text, d, draw(st.sampled_from(['recursive-entity', 'recursive-entity-indirect', 'ext-entity-in-attr', 'unparsed-entity-in-content', 'entity-unbalanced',
                                                              'lt-via-entity-in-attr', 'pe-in-decl-internal', 'amp-in-entity-value', 'undeclared-entity', 'nested-doctype'])), draw(st.integers(0, 999)))
            if m is not None: text = m
        data = xm.encode_doc(text, draw(st.sampled_from(['utf-8', 'utf-8', 'utf-16le-bom'])))
        files = {k: v.replace('@ENC@', 'UTF-8').encode('utf-8') for k, v in fs.items()}
    api = draw(st.sampled_from(['sax1', 'sax2', 'sax2', 'dom', 'dom', 'domls']))
    gops = []
    if src == 'c15' and draw(st.integers(0, 1)):
        # grammar script before the parses: loadGrammar accepted / refused for a key that is already cached / refused by a locked pool
        names = [('dtd%d.dtd' % i, 'dtd') for i in range(len(C15.DTDS))] + [('xsd%d.xsd' % i, 'xsd') for i in range(len(C15.XSDS))]
        pick = draw(st.lists(st.sampled_from(names), min_size=1, max_size=2))
        for _ in range(draw(st.integers(1, 5))):
            k = draw(st.sampled_from(['load', 'load', 'load', 'lock', 'unlock']))
            if k == 'load':
                n, t = draw(st.sampled_from(pick)); gops.append('load:%s:%s:%d' % (n, t, draw(st.sampled_from([1, 1, 1, 0]))))
            else: gops.append(k)
    case = {'api': api, 'feat': draw(st.sampled_from(FEATS)), 'doc_b64': base64.b64encode(data).decode(),
            'files_b64': {k: base64.b64encode(v).decode() for k, v in files.items()},
            'reuse': draw(st.integers(1, 3)), 'adopt': draw(st.integers(0, 1)), 'releaseafter': draw(st.integers(0, 1)), 'pool': draw(st.integers(0, 1)),
            'resetdocpool': draw(st.integers(0, 1)), 'noreset': draw(st.sampled_from([0, 0, 1])), 'twin': 1 if draw(st.integers(0, 4)) == 0 else 0, 'kmax': 0}
    if gops: case['gops'] = ','.join(gops); case['pool'] = draw(st.sampled_from([1, 1, 0]))
    return case

def run_case(case, ex, kmax=None):
    req = {'kind': 'ledger', 'api': case['api'], 'feat': case['feat'], 'doc': base64.b64decode(case['doc_b64'])}
    for k in ('reuse', 'adopt', 'releaseafter', 'pool', 'resetdocpool', 'noreset', 'twin'): req[k] = str(case.get(k, 0))
    req['kmax'] = str(case['kmax'] if kmax is None else kmax)
    if case.get('gops'): req['gops'] = case['gops']
    if 'mode' in case: req['mode'] = str(case['mode']); req['arg'] = str(case.get('arg', 0)); req['kmax'] = '0'
    for k, v in case['files_b64'].items(): req['ent:' + k] = base64.b64decode(v)
    try: resp = ex.request(req, timeout=300)
    except xv.ExecutorDied as e: return False, 'executor died rc=%s\n%s' % (e.rc, e.stderr[-4000:]), [], 0
    runs = []; cur = None; bad = None
    for l in resp.split('\n'):
        f = l.split('\t')
        if f[0] == 'RUN': cur = f; runs.append(f)
        elif f[0] == 'LEDGER':
            if (f[4] != '0' or f[5] != '0') and bad is None: bad = (cur, f)
        if 'FOREIGN-EXCEPTION' in l and bad is None: bad = (cur, f)
    K = 0
    if runs and len(runs[0]) > 3 and runs[0][3].startswith('K='): K = int(runs[0][3][2:])
    if bad:
        i = resp.find('\t'.join(bad[0]))
        return False, 'ledger not clean after run %r: %r\n%s' % (bad[0][1:3], bad[1], resp[i:i + 600]), runs, K
    return True, 'ok', runs, K

LIFE_SCRIPTS = None
@st.composite
def gen_life(draw):
    ops = []; depth = 0
    for r in range(draw(st.integers(1, 5))):
        d = draw(st.integers(1, 3)); custom = draw(st.integers(0, 1))
        for i in range(d):
            ops.append('init %d %s' % (draw(st.integers(0, 1)) if i else custom, draw(st.sampled_from(['-', 'en_US', 'fr_FR', 'ja_JP']))))
            if draw(st.booleans()): ops.append('work')
        ops.append('work')
        for i in range(d):
            ops.append('term')
            if i < d - 1 and draw(st.integers(0, 2)) == 0: ops.append('work')
    return {'life': ops}

def run_life(case):
    env = dict(os.environ); env.update(xv.ASAN_ENV); env['ASAN_OPTIONS'] = 'detect_leaks=1:abort_on_error=0:exitcode=86:symbolize=1'
    try:
        p = subprocess.run([xv.harness_path('xvlife')], input=('\n'.join(case['life']) + '\n').encode(), stdout=subprocess.PIPE, stderr=subprocess.PIPE, env=env, timeout=300)
    except subprocess.TimeoutExpired:
        return None, 'timeout'
    out = p.stdout.decode('ascii', 'replace'); err = p.stderr.decode('utf-8', 'replace')
    digests = {l.split('\t')[2] for l in out.split('\n') if l.startswith('ROUND')}
    led = [l.split('\t') for l in out.split('\n') if l.startswith('LEDGER')]
    if p.returncode != 0 or 'VIOL' in out:
        return False, 'xvlife rc=%d\n%s\n%s' % (p.returncode, out[-1500:], '\n'.join(l[:300] for l in err.split('\n'))[-3000:])
    if len(digests) > 1: return False, 'a re-initialised library behaves differently: workload digests %r\n%s' % (sorted(digests), out)
    for l in led:
        if l[4] != '0' or l[5] != '0': return False, 'global ledger not empty after the last Terminate: %r' % (l,)
    return True, 'ok'

def worker(ctx):
    ex = ctx.executor('xvexec'); S = ctx.stats
    kmax = 40 if ctx.tier == 'quick' else 400
    def prop(case):
        case = dict(case); case['kmax'] = kmax
        ok, detail, runs, K = run_case(case, ex)
        abnormal = [r for r in runs if r[1] in ('1', '2')]
        nt = bool(abnormal) and (case['reuse'] > 1 or (case['adopt'] and case['api'] == 'dom'))
        S.note(xv.sha(case), nt, ['api:' + case['api'], 'reuse:%d' % case['reuse']] + (['twin'] if case['twin'] else []) + (['gops', 'gops:dup-load' if len([g for g in case['gops'].split(',') if g.startswith('load') and g.endswith(':1')]) > len(set(g for g in case['gops'].split(',') if g.startswith('load') and g.endswith(':1'))) else 'gops:no-dup'] + (['gops:locked-load'] if 'lock,load' in case['gops'] else []) if case.get('gops') else []) + (['adopt'] if case['adopt'] and case['api'] == 'dom' else []))
        S.evaluations += max(0, len(runs) - 1)
        S.labels['fault_points_enumerated'] += len(abnormal); S.labels['K_total'] += K
        if K > kmax: S.labels['K_beyond_kmax'] += 1
        S.sample({'api': case['api'], 'feat': case['feat'], 'reuse': case['reuse'], 'runs': len(runs), 'K': K, 'doc': base64.b64decode(case['doc_b64'])[:120].decode('utf-8', 'replace')})
        if not ok:
            # narrow the replay case to the failing run
            raise PropertyFailure(case, detail)
    hyp_run(ctx, gen_case(), prop, ctx.budget)
    def prop_life(case):
        r, detail = run_life(case)
        nest = sum(1 for o in case['life'] if o.startswith('init'))
        S.note(xv.sha(case), nest >= 2, ['lifecycle', 'inits:%d' % min(nest, 9)])
        S.sample({'life': case['life'][:12]}, limit=6)
        if r is None: S.inconclusive += 1; return
        if not r: raise PropertyFailure(case, detail)
    hyp_run(ctx, gen_life(), prop_life, max(6, ctx.budget // 3), batches=2, seed_salt=5)

def replay(case, ctx):
    if 'life' in case:
        r, detail = run_life(case)
        return (True if r is None else r), detail
    ok, detail, runs, K = run_case(case, ctx.executor('xvexec'))
    return ok, detail
