"""C19 -- no external resource is touched unless referenced and permitted; resolver is offered every id first; entity expansion is bounded."""
import base64, json, os, shutil, tempfile
from hypothesis import strategies as st
import xv
from driver import hyp_run, PropertyFailure

ID = 'C19'
HARNESS = {'asan': ['xvexec']}
RULE = ('access lane: per case a directory tree with CANARY files (external DTD subset in a sub-directory, external general entities referenced / merely declared, '
        'external parameter entity, entity declared inside the external subset with an id relative to it, include from the external subset, http: entity, '
        'xsi:noNamespaceSchemaLocation hint -> schema with include and import in deeper directories) plus DECOY files that nothing references; parsed under a drawn '
        'configuration {disableDefaultEntityResolution, loadExternalDTD, validation never/always/auto, doSchema, loadSchema, scanner IG/WF/DG/SG, API, resolver '
        'none / returns-null / substitutes some ids}.  The executor records, in one sequence, every file opened (wrapper around the platform file manager), every '
        'URL handed to the net accessor and every id offered to the entity resolver.  Oracle: touched is a subset of {document} + what the configuration permits '
        '(nothing with default resolution disabled; no external subset nor anything only reachable through it with load-external-DTD off and validation off; no '
        'schema with schema processing or loading off; nothing DTD-related under WF/SG); decoys and merely declared entities never; with a resolver installed '
        'every touched resource was offered first, with base = URI of the entity containing the reference, and a substituted id is never fetched from its default '
        'location.  expansion lane: entity DAGs with known expansion count E x limit L in {0, E-1, E, E+1, large}: E<=L parses like without SecurityManager, E>L '
        'gives EntityExpansionLimitExceeded; entity cycles of length 1-5 (content, attribute) give RecursiveEntity and terminate.  non-trivial = configuration forbids '
        'a referenced resource, or nested relative id, or resolver substitution, or |E-L|<=1, or a cycle; distinct by sha1(case).')
ASSUMPTIONS = ['observation is in-process (file manager / net accessor / resolver wrappers): an access that bypasses XMLPlatformUtils::fgFileMgr would not be seen',
               'an external PARAMETER entity referenced from the internal subset is not asserted either way when load-external-DTD is off (the documentation speaks of the external DTD only)',
               'parameter-entity expansion is not counted against the limit by Xerces: known finding C19-pe-expansion-unbounded (PE bombs are not generated in the main lane)']
BUDGET = {'quick': 220, 'thorough': 3000}
WALLCAP = {'quick': 500, 'thorough': 3600}
XSI = 'xmlns:xsi="http://www.w3.org/2001/XMLSchema-instance"'

@st.composite
def gen_access(draw):
    k = {n: draw(st.booleans()) for n in ('extsubset', 'xe_ref', 'unused_decl', 'pe', 'nested_ref', 'inc', 'http_decl', 'http_ref', 'schema', 'sch_include', 'sch_import', 'doc_in_subdir')}
    if not k['extsubset']: k['nested_ref'] = False; k['inc'] = False
    if not k['http_decl']: k['http_ref'] = False
    if not k['schema']: k['sch_include'] = False; k['sch_import'] = False
    cfg = dict(dde=draw(st.sampled_from([0, 0, 1])), loaddtd=draw(st.integers(0, 1)), val=draw(st.sampled_from([0, 0, 1, 2])), schema=draw(st.integers(0, 1)),
               loadschema=draw(st.sampled_from([1, 1, 0])), scanner=draw(st.sampled_from(['IG', 'IG', 'DG', 'WF', 'SG'])), api=draw(st.sampled_from(['sax2', 'sax1', 'dom', 'domls'])),
               resolver=draw(st.sampled_from(['none', 'null', 'subst'])), viamem=draw(st.integers(0, 1)))
    subst = draw(st.lists(st.sampled_from(['xe.ent', 'ext.dtd', 'nested.ent', 'a.xsd', 'pe.ent']), max_size=2, unique=True)) if cfg['resolver'] == 'subst' else []
    return {'lane': 'access', 'knobs': k, 'cfg': cfg, 'subst': subst}

def build_tree(case, root):
    """writes the tree; returns (top path, info) where info maps relative file -> (container file, sysid as written)"""
    k = case['knobs']
    d0 = 'docs/' if k['doc_in_subdir'] else ''
    files = {}; refs = {}
    def add(rel, content): files[rel] = content
    internal = []
    if k['xe_ref']: internal.append('<!ENTITY xe SYSTEM "ents/xe.ent">'); add(d0 + 'ents/xe.ent', 'XE-ORIGINAL<i/>'); refs[d0 + 'ents/xe.ent'] = (d0 + 'doc.xml', 'ents/xe.ent')
    if k['unused_decl']: internal.append('<!ENTITY unused SYSTEM "ents/unused.ent">'); add(d0 + 'ents/unused.ent', 'UNUSED')
    if k['pe']: internal.append('<!ENTITY % pe SYSTEM "pe.ent">%pe;'); add(d0 + 'pe.ent', '<!ENTITY viape "VIAPE">'); refs[d0 + 'pe.ent'] = (d0 + 'doc.xml', 'pe.ent')
    if k['http_decl']: internal.append('<!ENTITY he SYSTEM "http://127.0.0.1:9/x.ent">')
    ext = ''
    if k['extsubset']:
        ext = ' SYSTEM "sub/ext.dtd"'
        e = '<!ELEMENT r ANY><!ELEMENT a EMPTY><!ELEMENT i EMPTY><!ATTLIST r xmlns:xsi CDATA #IMPLIED xsi:noNamespaceSchemaLocation CDATA #IMPLIED>'
        if k['nested_ref']: e += '<!ENTITY nested SYSTEM "n/nested.ent">'; add(d0 + 'sub/n/nested.ent', 'NESTED-ORIGINAL'); refs[d0 + 'sub/n/nested.ent'] = (d0 + 'sub/ext.dtd', 'n/nested.ent')
        if k['inc']: e += '<!ENTITY % inc SYSTEM "inc/more.dtd">%inc;'; add(d0 + 'sub/inc/more.dtd', '<!ENTITY more "MORE">'); refs[d0 + 'sub/inc/more.dtd'] = (d0 + 'sub/ext.dtd', 'inc/more.dtd')
        add(d0 + 'sub/ext.dtd', e); refs[d0 + 'sub/ext.dtd'] = (d0 + 'doc.xml', 'sub/ext.dtd')
    body = ''
    if k['xe_ref']: body += '&xe;'
    if k['nested_ref']: body += '&nested;'
    if k['http_ref']: body += '&he;'
    attrs = ''
    if k['schema']:
        attrs = ' %s xsi:noNamespaceSchemaLocation="s/a.xsd"' % XSI
        x = '<xs:schema xmlns:xs="http://www.w3.org/2001/XMLSchema">'
        if k['sch_include']: x += '<xs:include schemaLocation="b.xsd"/>'; add(d0 + 's/b.xsd', '<xs:schema xmlns:xs="http://www.w3.org/2001/XMLSchema"><xs:element name="b"/></xs:schema>'); refs[d0 + 's/b.xsd'] = (d0 + 's/a.xsd', 'b.xsd')
        if k['sch_import']: x += '<xs:import namespace="urn:i" schemaLocation="i/c.xsd"/>'; add(d0 + 's/i/c.xsd', '<xs:schema xmlns:xs="http://www.w3.org/2001/XMLSchema" targetNamespace="urn:i"><xs:element name="c"/></xs:schema>'); refs[d0 + 's/i/c.xsd'] = (d0 + 's/a.xsd', 'i/c.xsd')
        x += '<xs:element name="r"><xs:complexType mixed="true"><xs:sequence><xs:any minOccurs="0" maxOccurs="unbounded" processContents="skip"/></xs:sequence></xs:complexType></xs:element></xs:schema>'
        add(d0 + 's/a.xsd', x); refs[d0 + 's/a.xsd'] = (d0 + 'doc.xml', 's/a.xsd')
    doctype = ('<!DOCTYPE r%s [%s]>' % (ext, ''.join(internal))) if (ext or internal) else ''
    add(d0 + 'doc.xml', doctype + '<r%s>%s<a/></r>' % (attrs, body))
    # decoys: same directories, never referenced
    for rel in ('decoy.dtd', 'ents/decoy.ent', 'sub/decoy.dtd', 's/decoy.xsd', 'sub/n/decoy.ent', 'r.dtd', 'doc.dtd'):
        add(d0 + rel, '<!-- decoy -->')
    for rel, content in files.items():
        p = os.path.join(root, rel); os.makedirs(os.path.dirname(p), exist_ok=True)
        with open(p, 'w') as f: f.write(content)
    return os.path.join(root, d0 + 'doc.xml'), files, refs

def forbidden_set(case, files):
    k, c = case['knobs'], case['cfg']; d0 = 'docs/' if k['doc_in_subdir'] else ''
    doc = d0 + 'doc.xml'
    dtd_files = {d0 + x for x in ('ents/xe.ent', 'ents/unused.ent', 'pe.ent', 'sub/ext.dtd', 'sub/n/nested.ent', 'sub/inc/more.dtd')}
    via_ext = {d0 + x for x in ('sub/ext.dtd', 'sub/n/nested.ent', 'sub/inc/more.dtd')}
    sch_files = {d0 + x for x in ('s/a.xsd', 's/b.xsd', 's/i/c.xsd')}
    forb = {f for f in files if 'decoy' in f or f.endswith(('r.dtd', 'doc.dtd'))}
    forb.add(d0 + 'ents/unused.ent')
    reasons = []
    if c['dde']: forb |= (set(files) - {doc}); reasons.append('default-resolution-disabled')
    if c['scanner'] in ('WF', 'SG'): forb |= dtd_files; reasons.append('scanner-ignores-dtd')
    if not c['loaddtd'] and c['val'] == 0: forb |= via_ext; reasons.append('loaddtd-off')
    # SGXMLScanner is the schema scanner: it processes schemas whatever the do-schema feature says
    if not (c['schema'] or c['scanner'] == 'SG') or not c['loadschema'] or c['scanner'] in ('DG', 'WF'): forb |= sch_files; reasons.append('schema-off')
    return forb & set(files), reasons

def rfc_join(base_path, ref):
    """base_path is a plain path (or file URL) of the containing entity; ref a relative path"""
    if base_path.startswith('file://'): base_path = base_path[7:]
    return os.path.normpath(os.path.join(os.path.dirname(base_path), ref))

def check_access(case, root, top, files, refs, resp):
    k, c = case['knobs'], case['cfg']
    log = [l.split('\t') for l in resp.split('\n') if l.startswith('#')]
    forb, reasons = forbidden_set(case, files)
    opened = []; offered = []; substituted = set()
    for e in log:
        kind = e[1]
        if kind == 'OPEN':
            p = e[2]; p = p[7:] if p.startswith('file://') else p
            rel = os.path.relpath(os.path.normpath(p), root) if os.path.isabs(p) else p
            opened.append((int(e[0][1:]), rel))
        elif kind == 'RES':
            offered.append((int(e[0][1:]), e[3], e[4], e[6] if len(e) > 6 else ''))
        elif kind == 'SUBST': substituted.add(e[2])
        elif kind == 'NET':
            if c['dde'] or c['scanner'] in ('WF', 'SG') or not k['http_ref']:
                return 'network URL %r requested although %s' % (e[2], 'default entity resolution is disabled' if c['dde'] else 'nothing that is permitted references it')
    doc_rel = os.path.relpath(top, root)
    for seq, rel in opened:
        if rel.startswith('..'): return 'file outside the case directory opened: %r' % rel
        if rel == doc_rel: continue
        if rel in forb: return 'forbidden resource opened: %s (configuration: %s; %s)' % (rel, sorted(reasons), c)
        if rel not in files: return 'unknown file opened: %r' % rel
        if c['resolver'] != 'none' and rel in refs:
            container, sysid = refs[rel]
            ok = False
            for rseq, rsys, rbase, rloc in offered:
                if rseq > seq: break
                key = rsys or rloc
                if not key: continue
                try: target = os.path.relpath(rfc_join(rbase, key), root) if (rbase.startswith('/') or rbase.startswith('file://')) else None
                except Exception: target = None
                if target == rel:
                    cont = os.path.relpath(rbase[7:] if rbase.startswith('file://') else rbase, root)
                    if cont != container: return 'resolver was offered %r with base %r, but the reference is contained in %r' % (key, rbase, container)
                    ok = True; break
            if not ok: return 'resource %s was opened without having been offered to the entity resolver first (offers: %r)' % (rel, offered[:6])
    # substitution: default location of a substituted id must not be fetched
    for s in substituted:
        for seq, rel in opened:
            if rel.endswith(s.split('/')[-1]) and rel in refs:
                return 'resolver supplied a source for %r but its default location %s was opened as well' % (s, rel)
    if 'xe.ent' in case['subst'] and any(x.endswith('xe.ent') for x in substituted):
        if 'XE-ORIGINAL' in resp: return 'resolver substituted xe.ent but the original content was reported'
        if 'XE-SUBST' not in resp and not any(l.startswith(('ERR', 'EXC')) for l in resp.split('\n')): return 'resolver substituted xe.ent but its content was not used'
    return None

SUBST_CONTENT = {'xe.ent': b'XE-SUBST<i/>', 'ext.dtd': b'<!ELEMENT r ANY><!ELEMENT a EMPTY><!ELEMENT i EMPTY><!ENTITY nested "NESTED-SUBST">', 'nested.ent': b'NESTED-SUBST',
                 'a.xsd': b'<xs:schema xmlns:xs="http://www.w3.org/2001/XMLSchema"><xs:element name="r"><xs:complexType mixed="true"><xs:sequence><xs:any minOccurs="0" maxOccurs="unbounded" processContents="skip"/></xs:sequence></xs:complexType></xs:element></xs:schema>',
                 'pe.ent': b'<!ENTITY viape "VIAPE-SUBST">'}

def run_access(case, ex, tmpbase):
    root = tempfile.mkdtemp(prefix='verif.c19.', dir=tmpbase)
    try:
        top, files, refs = build_tree(case, root)
        c = case['cfg']
        feat = 'ns=1;scanner=%s;val=%d;schema=%d;loadschema=%d;loaddtd=%d;dde=%d' % (c['scanner'], c['val'], c['schema'], c['loadschema'], c['loaddtd'], c['dde'])
        req = {'kind': 'access', 'api': c['api'], 'feat': feat, 'top': top, 'resolver': c['resolver'], 'viamem': str(c['viamem'])}
        for s in case['subst']: req['subst:' + s] = SUBST_CONTENT[s]
        try: resp = ex.request(req, timeout=120)
        except xv.ExecutorDied as e: return False, 'executor died rc=%s\n%s' % (e.rc, e.stderr[-3000:]), []
        if xv.has_foreign(resp): return False, 'foreign exception\n' + resp[-800:], []
        d = check_access(case, root, top, files, refs, resp)
        forb, reasons = forbidden_set(case, files)
        labels = ['access', 'scanner:' + c['scanner'], 'resolver:' + c['resolver']] + ['forbid:' + r for r in reasons]
        if d: return False, d + '\nlog:\n' + '\n'.join(l.replace(root, '<root>') for l in resp.split('\n') if l.startswith(('#', 'ERR', 'EXC')))[:2500], labels
        return True, 'ok', labels
    finally:
        shutil.rmtree(root, ignore_errors=True)

# ---------------- expansion lane ----------------
@st.composite
def gen_expansion(draw):
    kind = draw(st.sampled_from(['dag', 'dag', 'dag', 'cycle']))
    if kind == 'cycle':
        n = draw(st.integers(1, 5)); where = draw(st.sampled_from(['content', 'attr']))
        return {'lane': 'expansion', 'kind': 'cycle', 'n': n, 'where': where, 'limit': draw(st.sampled_from([-1, 5, 1000])), 'api': draw(st.sampled_from(['sax2', 'dom', 'sax1'])), 'scanner': draw(st.sampled_from(['IG', 'DG']))}
    levels = draw(st.integers(1, 5))
    fan = [draw(st.integers(1, 3)) for _ in range(levels)]
    uses_c = draw(st.integers(0, 3)); uses_a = draw(st.integers(0, 2))
    if uses_c + uses_a == 0: uses_c = 1
    delta = draw(st.sampled_from([-1, 0, 1, -1, 0, 1, 'zero', 'large', 'none']))
    # external parsed entities count like internal ones: mix references to a tiny external entity into the levels (content only)
    ext = draw(st.sampled_from([0, 0, 1, 2, 3]))
    if ext: uses_a = 0; uses_c = max(1, uses_c)
    return {'lane': 'expansion', 'kind': 'dag', 'fan': fan, 'uses_c': uses_c, 'uses_a': uses_a, 'delta': delta, 'ext': ext, 'api': draw(st.sampled_from(['sax2', 'dom', 'sax1', 'domls'])), 'scanner': draw(st.sampled_from(['IG', 'DG']))}

def expansion_doc(case):
    if case['kind'] == 'cycle':
        n = case['n']; decls = ''.join('<!ENTITY c%d "x&c%d;y">' % (i, (i + 1) % n) for i in range(n))
        body = '<r>&c0;</r>' if case['where'] == 'content' else '<r a="&c0;"/>'
        return '<!DOCTYPE r [%s]>%s' % (decls, body), None
    fan = case['fan']; decls = '<!ENTITY e0 "x">'; cost = [1]; ext = case.get('ext', 0)
    if ext: decls += '<!ENTITY xx SYSTEM "xx.ent">'
    for i, f in enumerate(fan):
        xr = '&xx;' if (ext and (i % ext) == 0) else ''
        decls += '<!ENTITY e%d "%s%s">' % (i + 1, xr, '&e%d;' % i * f); cost.append(1 + (1 if xr else 0) + f * cost[i])
    top = len(fan)
    E = (case['uses_c'] + case['uses_a']) * cost[top]
    body = '<r%s>%s</r>' % (''.join(' a%d="&e%d;"' % (i, top) for i in range(case['uses_a'])), '&e%d;' % top * case['uses_c'])
    return '<!DOCTYPE r [%s]>%s' % (decls, body), E

def run_expansion(case, ex):
    doc, E = expansion_doc(case)
    def parse(limit):
        feat = 'ns=1;val=0;scanner=%s' % case['scanner'] + (';secmgr=%d' % limit if limit >= 0 else '')
        return ex.request({'kind': 'parse', 'api': case['api'], 'feat': feat, 'doc': doc.encode(), 'ent:xx.ent': b'y'}, timeout=120)
    try:
        if case['kind'] == 'cycle':
            resp = parse(case['limit'])
            errs = [l.split('\t') for l in resp.split('\n') if l.startswith('ERR')]
            if not any(e[2] == '205' and e[3] == 'F' for e in errs): return False, 'entity cycle of length %d not reported as RecursiveEntity: %r' % (case['n'], errs[:3]), ['cycle']
            if resp.count('\n') > 400: return False, 'entity cycle produced %d events before stopping' % resp.count('\n'), ['cycle']
            return True, 'ok', ['cycle', 'cycle-len:%d' % case['n']]
        d = case['delta']
        L = {'zero': 0, 'large': 100000, 'none': -1}.get(d, None)
        if L is None: L = max(0, E + d)
        resp = parse(L)
        errs = [l.split('\t') for l in resp.split('\n') if l.startswith(('ERR', 'EXC'))]
        labels = ['dag', 'E-L:%s' % (d if isinstance(d, str) else (E - L))] + (['dag-with-external-entity'] if case.get('ext') else [])
        if L < 0 or E <= L:
            if errs: return False, 'E=%d <= limit %d but errors reported: %r' % (E, L, errs[:3]), labels
            ref = parse(-1)
            strip = lambda r: [l for l in r.split('\n') if not l.startswith('#')]
            if strip(ref) != strip(resp): return False, 'E=%d <= limit %d but the events differ from the parse without SecurityManager' % (E, L), labels
        else:
            if not any(e[0] == 'ERR' and e[2] == '156' and e[3] == 'F' for e in errs): return False, 'E=%d > limit %d but no EntityExpansionLimitExceeded: %r' % (E, L, errs[:3]), labels
            nser = sum(1 for l in resp.split('\n') if l.startswith('SER\t'))
            if nser > L + 1: return False, 'E=%d > limit %d: %d entity expansions were delivered before the error' % (E, L, nser), labels
        return True, 'ok', labels
    except xv.ExecutorDied as e:
        return False, 'executor died rc=%s\n%s' % (e.rc, e.stderr[-3000:]), []

def tmpbase():
    return '/dev/shm' if os.access('/dev/shm', os.W_OK) else None

def worker(ctx):
    ex = ctx.executor('xvexec'); S = ctx.stats; tb = tmpbase()
    def prop(case):
        if case['lane'] == 'access':
            ok, detail, labels = run_access(case, ex, tb)
            nt = any(l.startswith('forbid:') for l in labels) or case['knobs']['nested_ref'] or bool(case['subst'])
        else:
            ok, detail, labels = run_expansion(case, ex)
            nt = case['kind'] == 'cycle' or case.get('delta') in (-1, 0, 1)
        S.note(xv.sha(case), nt, labels)
        S.sample(case, limit=6)
        if not ok: raise PropertyFailure(case, detail)
    hyp_run(ctx, st.one_of(gen_access(), gen_access(), gen_expansion()), prop, ctx.budget)

def replay(case, ctx):
    ex = ctx.executor('xvexec')
    if case['lane'] == 'pe-bomb':
        doc = base64.b64decode(case['doc_b64'])
        req = {'kind': 'parse', 'api': 'sax2', 'feat': 'ns=1;val=0;scanner=IG;secmgr=%d' % case['limit'], 'doc': doc, 'ent:b.dtd': base64.b64decode(case['dtd_b64'])}
        resp = ex.request(req, timeout=300)
        ok = any(l.startswith('ERR') and l.split('\t')[3] == 'F' for l in resp.split('\n'))
        return ok, ('ok' if ok else 'a DTD whose parameter entities expand %d times was accepted with entity expansion limit %d' % (case['expansions'], case['limit']))
    if case['lane'] == 'access': r = run_access(case, ex, tmpbase())
    else: r = run_expansion(case, ex)
    return r[0], r[1]

def classify(case, detail):
    if case.get('lane') == 'pe-bomb': return 'C19-pe-expansion-unbounded'
    return None

def known_witnesses():
    p = os.path.join(xv.VERIF, 'regress-known', 'C19', 'pe_expansion_unbounded.json')
    return [('C19-pe-expansion-unbounded', json.load(open(p))['case'])] if os.path.exists(p) else []
