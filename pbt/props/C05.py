"""C05 -- transcoders and encoding detection decode every supported encoding exactly.

Code-unit level (deciding): the C++ enumeration harness `xvtc` checks every transcoder obtained through
XMLPlatformUtils::fgTransService->makeNewTranscoderFor against a reference codec written from the Unicode standard
(Table 3-7) and against ICU's own converters; this module partitions the enumerations over the workers, merges the
summaries, adds python `codecs` as third witness for the code pages, and drives the block/split lane with Hypothesis.
Document level (extension): one generated document x encoding x BOM x declaration through xvexec (kind=parse).
"""
import base64, codecs, json, os
from hypothesis import strategies as st
import xv
from driver import hyp_run, PropertyFailure

ID = 'C05'
HARNESS = {'asan': ['xvtc', 'xvexec']}
RULE = ('code-unit level: every enumerated item (one scalar value / one byte string / one unit pair / one byte of a page, per transcoder) is '
        'evaluated once and is non-trivial iff it contains a non-ASCII code unit or byte (every EBCDIC item is non-trivial); the items of the '
        'enumerations are distinct by construction (partitioned by index modulo the worker count) and their number is added to the '
        'hash-counted random cases. split lane: one source (code point list, transcoder, direction, optional truncated tail) is run with every '
        'block size 1..40 x every split position; non-trivial iff the source contains a multi-unit sequence (multi-byte character when decoding, '
        'surrogate pair when encoding) or a truncated tail. document level: non-trivial iff the document contains >=1 non-ASCII character and '
        'uses a non-UTF-8 encoding, or is a contradictory-declaration case; distinct by sha1(bytes, api).')
ASSUMPTIONS = ['reference for UTF-8/16/32: Unicode 15 Table 3-7, D91, D92 (accept exactly well-formed sequences of scalar values; noncharacters are scalar values)',
               'reference for code pages: ICU 72 converter of the same page opened directly (ucnv_*); python codecs is third witness, bytes/code points on which ICU and python disagree are dropped and counted',
               'ICU-provided encodings: "supported" is what the ICU converter with default settings reports; default-ignorable code points that ICU skips silently are dropped',
               'best-fit (fallback) mappings of the vendor tables (U+FF01..U+FF5E, U+0110) and the EBCDIC NL/LF variants are an ambiguous range: only consistency with ICU\'s fallback/variant tables is asserted',
               'rejection = UTFDataFormatException/TranscodingException, or (only for a source that ends inside a sequence) the sequence left uneaten with no character produced',
               'document level: only combinations for which XML 1.0 4.3.3 / Appendix F is unambiguous']
BUDGET = {'quick': 360, 'thorough': 24000}        # Hypothesis cases per worker (split lane + document lane); enumerations are fixed by the tier
WALLCAP = {'quick': 500, 'thorough': 5400}     # watchdog only

ASAN_TUNED = {'ASAN_OPTIONS': 'detect_leaks=1:abort_on_error=0:exitcode=86:allocator_may_return_null=1:detect_stack_use_after_return=0:symbolize=1:'
                              'handle_segv=1:quarantine_size_mb=1:thread_local_quarantine_size_kb=64:malloc_context_size=2'}

TCS = ['UTF-8', 'UTF-16LE', 'UTF-16BE', 'UCS-4LE', 'UCS-4BE', 'XERCES-XMLCH', 'ISO-8859-1', 'US-ASCII', 'WINDOWS-1252', 'IBM037', 'IBM1047',
       'IBM1140', 'ISO-8859-2', 'ISO-8859-5', 'ISO-8859-15', 'KOI8-R', 'windows-1251', 'Shift_JIS', 'EUC-JP', 'gb18030']
SB = ['ISO-8859-1', 'US-ASCII', 'WINDOWS-1252', 'IBM037', 'IBM1047', 'IBM1140', 'ISO-8859-2', 'ISO-8859-5', 'ISO-8859-15', 'KOI8-R', 'windows-1251']
PYCODEC = {'UTF-8': 'utf-8', 'UTF-16LE': 'utf-16-le', 'UTF-16BE': 'utf-16-be', 'UCS-4LE': 'utf-32-le', 'UCS-4BE': 'utf-32-be', 'XERCES-XMLCH': 'utf-16-le',
           'ISO-8859-1': 'latin-1', 'US-ASCII': 'ascii', 'WINDOWS-1252': 'cp1252', 'IBM037': 'cp037', 'IBM1140': 'cp1140', 'ISO-8859-2': 'iso8859-2',
           'ISO-8859-5': 'iso8859-5', 'ISO-8859-15': 'iso8859-15', 'KOI8-R': 'koi8-r', 'windows-1251': 'cp1251'}

# Genuine defects of the unchanged tree found by this check; their input classes are excluded by construction (harness `skip=`),
# the exclusions are counted, and each has a witness that is replayed (see known_witnesses / the report).
KNOWN = {
    'C05-ucs4-decode-no-range-check': {'lane': 'ucs4', 'tc': 'UCS-4LE', 'val': '4010000'},
    'C05-ucs4-swapped-encode-supplementary': {'lane': 'scalar', 'tc': 'UCS-4BE', 'cp': '10000'},
    'C05-utf8-encode-unpaired-surrogate': {'lane': 'surr', 'tc': 'UTF-8', 'units': 'D800 0041'},
    'C05-ucs4-encode-lone-low-surrogate': {'lane': 'surr', 'tc': 'UCS-4LE', 'units': 'DC00'},
    'C05-table-nul-unrepresentable': {'lane': 'scalar', 'tc': 'WINDOWS-1252', 'cp': '0'},
    'C05-table-can-truncates-codepoint': {'lane': 'scalar', 'tc': 'WINDOWS-1252', 'cp': '10041'},
    'C05-table-bestfit-without-icu-counterpart': {'lane': 'scalar', 'tc': 'IBM1047', 'cp': '110'},
    'C05-icu-can-supplementary': {'lane': 'scalar', 'tc': 'gb18030', 'cp': '100000'},
    'C05-icu-encode-throw-overread': {'lane': 'scalar', 'tc': 'ISO-8859-2', 'cp': '3042'},
    'C05-icu-decode-substitutes-illegal': {'lane': 'raw-expect', 'tc': 'gb18030', 'op': 'from', 'src': '81308120', 'expect_exc': True},
    'C05-icu-encode-small-buffer-throw': {'lane': 'split', 'tc': 'Shift_JIS', 'dir': 'to', 'cps': '3042,3044,41', 'tail': '0', 'm': '1', 'k': '3'},
    'C05-icu-encode-small-buffer-throw#tostr': {'lane': 'split', 'tc': 'gb18030', 'dir': 'to', 'cps': '80,80,80', 'tail': '0'},
    'C05-ucs4-decode-no-range-check#doc': {'level': 'doc', 'api': 'sax2', 'enc': 'UCS-4LE', 'bom': False, 'declname': 'UCS-4LE', 'expect': 'error',
        'why': 'the 32-bit unit 0x04010000 is not a Unicode scalar value', 'doc_b64': 'PAAAAD8AAAB4AAAAbQAAAGwAAAAgAAAAdgAAAGUAAAByAAAAcwAAAGkAAABvAAAAbgAAAD0AAAAiAAAAMQAAAC4AAAAwAAAAIgAAACAAAABlAAAAbgAAAGMAAABvAAAAZAAAAGkAAABuAAAAZwAAAD0AAAAiAAAAVQAAAEMAAABTAAAALQAAADQAAABMAAAARQAAACIAAAA/AAAAPgAAADwAAABhAAAAPgAAAAAAAQQ8AAAALwAAAGEAAAA+AAAA', 'utf8_b64': 'PGE+WDwvYT4='},
    'C05-icu-decode-substitutes-illegal#doc': {'level': 'doc', 'api': 'sax2', 'enc': 'gb18030', 'bom': False, 'declname': 'gb18030', 'expect': 'error',
        'why': 'the byte sequence 81 30 81 20 is illegal in gb18030', 'doc_b64': 'PD94bWwgdmVyc2lvbj0iMS4wIiBlbmNvZGluZz0iZ2IxODAzMCI/PjxhPoEwgSA8L2E+', 'utf8_b64': 'PGE+WDwvYT4='},
}
# One id per open finding whose input class is currently excluded by construction.  When a finding is fixed in /repo, delete its id
# from this set (nothing else): the class is then generated and asserted like everything else, and its witness must pass.
ACTIVE_EXCLUSIONS = {
    'C05-utf8-encode-unpaired-surrogate',
    'C05-ucs4-encode-lone-low-surrogate',
    'C05-table-nul-unrepresentable',
    'C05-table-bestfit-without-icu-counterpart',
    'C05-icu-can-supplementary',
    'C05-icu-decode-substitutes-illegal',
    'C05-icu-encode-small-buffer-throw',
}
SKIP = ','.join(sorted(ACTIVE_EXCLUSIONS))

# ------------------------------------------------------------------------------------------------
# third witness: python codecs against the ICU tables reported by the harness
# ------------------------------------------------------------------------------------------------
def third_witness(tables_text):
    """-> (fields {'xb:<tc>': 'hex,hex', 'xb:<tc>/cps': ...}, tables {tc: [cp|None]*256}, n_disagreements, listing)"""
    fields = {}; tables = {}; ndis = 0; listing = []
    for line in tables_text.split('\n'):
        p = line.split('\t')
        if p[0] != 'TABLE': continue
        tc = p[1]; row = [None if x == '-' else int(x, 16) for x in p[3].split(',')]
        tables[tc] = row
        codec = PYCODEC.get(tc)
        if not codec: continue
        xb = []; xc = []
        for b in range(256):
            try: py = ord(bytes([b]).decode(codec))
            except UnicodeDecodeError: py = None
            if py != row[b]:
                xb.append(b); ndis += 1
                for v in (py, row[b]):
                    if v is not None: xc.append(v)
                listing.append('%s byte %02X: ICU %s python %s' % (tc, b, 'undef' if row[b] is None else '%04X' % row[b], 'undef' if py is None else '%04X' % py))
        if xb:
            fields['xb:' + tc] = ','.join('%X' % b for b in xb)
            fields['xb:' + tc + '/cps'] = ','.join('%X' % c for c in xc)
    return fields, tables, ndis, listing

# ------------------------------------------------------------------------------------------------
# harness summaries
# ------------------------------------------------------------------------------------------------
def parse_fail(line):
    d = {}
    for kv in line.split('\t')[1:]:
        k, _, v = kv.partition('=')
        d[k] = v
    return d

def merge_summary(text, st_, base_case):
    """Fold one lane summary into the stats.  -> list of failure dicts"""
    fails = []
    for line in text.split('\n'):
        if not line: continue
        p = line.split('\t')
        if p[0] == 'SUB':
            n, nt = int(p[2]), int(p[3])
            st_.evaluations += n
            st_.extra['enumerated_nontrivial'] = st_.extra.get('enumerated_nontrivial', 0) + nt
            st_.extra.setdefault('subspace_evaluated', {}); st_.extra.setdefault('subspace_nontrivial', {}); st_.extra.setdefault('subspace_exhaustive', {})
            st_.extra['subspace_evaluated'][p[1]] = st_.extra['subspace_evaluated'].get(p[1], 0) + n
            st_.extra['subspace_nontrivial'][p[1]] = st_.extra['subspace_nontrivial'].get(p[1], 0) + nt
            st_.extra['subspace_exhaustive'][p[1]] = 'yes' if p[4] == '1' else 'no'
        elif p[0] == 'LBL': st_.labels[p[1]] += int(p[2])
        elif p[0] == 'EXCL': st_.excluded_known[p[1]] += int(p[2])
        elif p[0] == 'DIS': st_.oracle_disagreements += int(p[1])
        elif p[0] == 'SAMPLE': st_.sample(p[1])
        elif p[0] == 'FAIL':
            d = parse_fail(line); why = d.pop('why', '?')
            case = dict(base_case); case.update(d)
            fails.append({'case': case, 'detail': why})
        elif p[0] == 'NFAIL':
            if int(p[1]): st_.extra['harness_failing_items'] = st_.extra.get('harness_failing_items', 0) + int(p[1])
    return fails

ONLY = [x for x in os.environ.get('C05_ONLY', '').split(',') if x]     # development aid: restrict to some lanes (e.g. "utf8,split,doc")
def lane_plan(tier):
    plan = _lane_plan(tier)
    return [p for p in plan if not ONLY or p[0] in ONLY or (p[0] + ':' + p[1]) in ONLY]
def _lane_plan(tier):
    plan = []
    for tc in TCS: plan.append(('scalar', tc, {}))
    plan.append(('utf8', 'UTF-8', {'part': '123'})); plan.append(('utf8', 'UTF-8', {'part': '4'}))
    for tc in ('UTF-16LE', 'UTF-16BE', 'XERCES-XMLCH'): plan.append(('utf16', tc, {}))
    for tc in ('UCS-4LE', 'UCS-4BE'): plan.append(('ucs4', tc, {}))
    for tc in SB: plan.append(('page', tc, {}))
    for tc in TCS:
        if tc not in ('UTF-16LE', 'UTF-16BE', 'XERCES-XMLCH'): plan.append(('surr', tc, {}))
    # one illegal unit behind a valid run of every length that matters for the block logic (every transcoder that has illegal units)
    for tc in TCS:
        if tc not in ('UTF-16LE', 'UTF-16BE', 'XERCES-XMLCH'): plan.append(('deep', tc, {}))
    return plan

# ------------------------------------------------------------------------------------------------
# split lane (Hypothesis): code point lists per transcoder
# ------------------------------------------------------------------------------------------------
BOUNDARY = [0x00, 0x01, 0x41, 0x7F, 0x80, 0xFF, 0x100, 0x7FF, 0x800, 0xFFF, 0x1000, 0xD7FF, 0xE000, 0xFFFD, 0xFFFE, 0xFFFF, 0x10000, 0x10FFFF, 0xFFFFF, 0x100000, 0x1F600]
def cp_strategy(tc, tables):
    if tc in ('UTF-8', 'UTF-16LE', 'UTF-16BE', 'UCS-4LE', 'UCS-4BE', 'XERCES-XMLCH'):
        return st.one_of(st.sampled_from(BOUNDARY), st.integers(0, 0x7F), st.integers(0x80, 0x7FF), st.integers(0x800, 0xD7FF), st.integers(0xE000, 0xFFFF), st.integers(0x10000, 0x10FFFF))
    if tc in tables:
        img = sorted(set(c for c in tables[tc] if c is not None and c != 0))
        return st.sampled_from(img)
    # ICU multi byte: ASCII + kana + CJK (the harness drops what ICU cannot round-trip)
    base = st.one_of(st.integers(0x20, 0x7E), st.integers(0x3041, 0x3093), st.integers(0x30A1, 0x30F6), st.integers(0x4E00, 0x4EFF), st.sampled_from([0x3000, 0xFF21, 0x3001]))
    if tc == 'gb18030': base = st.one_of(base, st.integers(0x80, 0xD7FF), st.integers(0x10000, 0x10FFFF), st.sampled_from(BOUNDARY[1:]))
    return base

def split_strategy(combos, tables):
    @st.composite
    def s(draw):
        tc, direction = draw(st.sampled_from(combos))
        cps = draw(st.lists(cp_strategy(tc, tables), min_size=1, max_size=10))
        tail = draw(st.sampled_from([0, 0, 0, 1, 2, 3]))
        return tc, direction, cps, tail
    return s()

def py_encode(tc, cps):
    codec = PYCODEC.get(tc)
    if not codec: return None
    try: return ''.join(chr(c) for c in cps).encode(codec, 'surrogatepass' if codec.startswith('utf') else 'strict')
    except (UnicodeEncodeError, ValueError): return None

def item_request(case, xb):
    req = {'kind': 'item'}
    for k, v in case.items():
        if k in ('expected', 'observed', 'finding', 'level'): continue
        req[k] = v if isinstance(v, str) else str(v)
    req.setdefault('skip', '')
    for k, v in xb.items(): req.setdefault(k, v)
    return req

def run_item(case, ex, xb):
    """-> (status, text)   status in OK FAIL DROP DISAGREE SKIP BAD DIED"""
    if case.get('lane') == 'raw-expect':
        try: resp = ex.request({'kind': 'raw', 'tc': case['tc'], 'op': case['op'], 'src': case['src']}, timeout=300)
        except xv.ExecutorDied as e: return 'DIED', 'executor died rc=%s\n%s' % (e.rc, e.stderr[-3000:])
        if case.get('expect_exc') and 'exc=none' in resp: return 'FAIL', 'illegal input was decoded instead of being rejected: ' + resp.strip()
        return 'OK', resp
    try: resp = ex.request(item_request(case, xb), timeout=900)
    except xv.ExecutorDied as e: return 'DIED', 'executor died rc=%s\n%s' % (e.rc, e.stderr[-3000:])
    head, _, rest = resp.partition('\t')
    return head.strip(), rest.strip()

# ------------------------------------------------------------------------------------------------
# document level
# ------------------------------------------------------------------------------------------------
# encoding -> (python codec or None (table from ICU), BOMs allowed, family, declaration names that match)
DOC_ENC = {
    'UTF-8':        dict(codec='utf-8', fam='utf8', names=['UTF-8', 'utf-8', 'UTF8', 'Utf-8']),
    'UTF-16LE':     dict(codec='utf-16-le', fam='utf16', names=['UTF-16LE', 'utf-16le']),
    'UTF-16BE':     dict(codec='utf-16-be', fam='utf16', names=['UTF-16BE', 'utf-16be']),
    'UCS-4LE':      dict(codec='utf-32-le', fam='ucs4', names=['UCS-4LE', 'ucs-4le']),
    'UCS-4BE':      dict(codec='utf-32-be', fam='ucs4', names=['UCS-4BE', 'ucs-4be']),
    'ISO-8859-1':   dict(codec='latin-1', fam='ascii', names=['ISO-8859-1', 'iso-8859-1', 'ISO8859-1', 'LATIN1', 'L1', 'IBM819', 'CP819', 'ISO_8859-1', 'ISO-IR-100', 'LATIN-1']),
    'US-ASCII':     dict(codec='ascii', fam='ascii', names=['US-ASCII', 'us-ascii', 'USASCII', 'ASCII', 'US_ASCII']),
    'WINDOWS-1252': dict(codec='cp1252', fam='ascii', names=['WINDOWS-1252', 'windows-1252']),
    'IBM037':       dict(codec='cp037', fam='ebcdic', names=['IBM037', 'ibm037', 'EBCDIC-CP-US', 'ebcdic-cp-us']),
    'IBM1140':      dict(codec='cp1140', fam='ebcdic', names=['IBM1140', 'IBM01140', 'CCSID01140', 'CP01140', 'ibm1140']),
    'IBM1047':      dict(codec=None, fam='ebcdic', names=['IBM1047', 'ibm1047', 'IBM-1047']),
    'ISO-8859-2':   dict(codec='iso8859-2', fam='ascii', names=['ISO-8859-2', 'iso-8859-2']),
    'ISO-8859-5':   dict(codec='iso8859-5', fam='ascii', names=['ISO-8859-5']),
    'ISO-8859-15':  dict(codec='iso8859-15', fam='ascii', names=['ISO-8859-15']),
    'KOI8-R':       dict(codec='koi8-r', fam='ascii', names=['KOI8-R', 'koi8-r']),
    'windows-1251': dict(codec='cp1251', fam='ascii', names=['windows-1251', 'WINDOWS-1251']),
    'Shift_JIS':    dict(codec='shift_jis', fam='ascii', names=['Shift_JIS', 'shift_jis', 'SHIFT_JIS']),
    'EUC-JP':       dict(codec='euc_jp', fam='ascii', names=['EUC-JP', 'euc-jp']),
    'gb18030':      dict(codec='gb18030', fam='ascii', names=['gb18030', 'GB18030']),
}
BOMS = {'UTF-8': b'\xef\xbb\xbf', 'UTF-16LE': b'\xff\xfe', 'UTF-16BE': b'\xfe\xff', 'UCS-4LE': b'\xff\xfe\x00\x00', 'UCS-4BE': b'\x00\x00\xfe\xff'}
# a declaration of a different family than the bytes (4.3.3: fatal error)
CONTRA = {'utf16': ['UTF-8', 'ISO-8859-1', 'US-ASCII', 'EBCDIC-CP-US'], 'utf8': ['UTF-16', 'UCS-4', 'EBCDIC-CP-US', 'IBM1140'],
          'ascii': ['UTF-16', 'UCS-4', 'EBCDIC-CP-US'], 'ebcdic': ['UTF-8', 'UTF-16', 'ISO-8859-1'], 'ucs4': ['UTF-8', 'UTF-16', 'ISO-8859-1']}
ASCII_TEXT = list('abcxyzXYZ019 .,;:!?()[]{}+-*/=_#%@$^~|')
NONASCII_POOL = [0xE9, 0xA0, 0xC0, 0xFF, 0x104, 0x17E, 0x416, 0x44F, 0x20AC, 0x2019, 0x3042, 0x30AB, 0x4E2D, 0x4E00, 0xFFFD, 0xD7FF, 0xE000, 0x10000, 0x1F600, 0x10FFFF, 0xA7, 0xB5, 0xF1]
NAMES = ['a', 'b', 'doc', 'item', 'x-y', '_z', 'n.m', 'Z9']

def enc_chars(enc, tables):
    """non-ASCII characters usable in documents of this encoding (XML Char, no line-end/NEL specials)"""
    info = DOC_ENC[enc]
    if info['fam'] in ('utf8', 'utf16', 'ucs4'): return list(NONASCII_POOL)
    if enc in tables:
        ok = [c for c in tables[enc] if c is not None and c >= 0xA0 and c not in (0x2028,)]
        if info['codec']:
            ok = [c for c in ok if _roundtrips(chr(c), info['codec'])]
        return sorted(set(ok))
    return [c for c in NONASCII_POOL if _roundtrips(chr(c), info['codec'])]

def _roundtrips(s, codec):
    try: return s.encode(codec).decode(codec) == s
    except (UnicodeError, ValueError): return False

@st.composite
def doc_strategy(draw, tables):
    enc = draw(st.sampled_from(sorted(DOC_ENC)))
    info = DOC_ENC[enc]
    pool = enc_chars(enc, tables)
    ch = st.sampled_from(ASCII_TEXT) if not pool else st.one_of(st.sampled_from(ASCII_TEXT), st.sampled_from([chr(c) for c in pool]))
    text = lambda mn=0: st.lists(ch, min_size=mn, max_size=8).map(''.join)
    def element(depth):
        name = draw(st.sampled_from(NAMES))
        attrs = draw(st.lists(st.sampled_from(['p', 'q', 'r']), max_size=2, unique=True))
        s = '<' + name
        for a in attrs: s += ' %s="%s"' % (a, draw(text()))
        kids = draw(st.integers(0, 3 if depth < 2 else 0))
        if kids == 0 and draw(st.booleans()): return s + '/>'
        s += '>'
        s += draw(text())
        for _ in range(kids):
            kind = draw(st.sampled_from(['el', 'el', 'cm', 'pi', 'cd', 'ref']))
            if kind == 'el': s += element(depth + 1)
            elif kind == 'cm': s += '<!--' + draw(text()).replace('-', '.') + '-->'
            elif kind == 'pi': s += '<?tgt ' + draw(text()).replace('?', '.') + '?>'
            elif kind == 'cd': s += '<![CDATA[' + draw(text()).replace(']', '.') + ']]>'
            else:
                c = draw(st.sampled_from(NONASCII_POOL)); s += draw(st.sampled_from(['&#%d;' % c, '&#x%X;' % c]))
            s += draw(text())
        return s + '</' + name + '>'
    body = element(0) + draw(st.sampled_from(['', '\n', '<!--e-->']))
    fam = info['fam']
    bom = draw(st.booleans()) if enc in BOMS else False
    variant = draw(st.sampled_from(['match', 'match', 'absent', 'contra', 'nodecl-ebcdic']))
    api = draw(st.sampled_from(['sax2', 'dom', 'sax1']))
    # auto-detection without a declaration is specified only for UTF-8 (with or without BOM) and UTF-16 with BOM
    if variant == 'absent' and not (enc == 'UTF-8' or fam == 'utf16'): variant = 'match'
    if variant == 'nodecl-ebcdic' and fam != 'ebcdic': variant = 'match'
    declname = None; expect = 'same'
    if variant == 'absent':
        if fam == 'utf16': bom = True
    elif variant == 'match':
        if fam == 'utf16' and bom: declname = draw(st.sampled_from(['UTF-16', 'utf-16']))
        elif fam == 'ucs4': declname = draw(st.sampled_from(info['names'] + ['UCS-4', 'UCS4', 'UTF-32', 'ISO-10646-UCS-4', 'ucs-4']))
        else: declname = draw(st.sampled_from(info['names']))
    elif variant == 'contra':
        if fam == 'utf16': bom = True
        declname = draw(st.sampled_from(CONTRA[fam])); expect = 'error'
    else:
        declname = None; expect = 'error'; bom = False
    return dict(enc=enc, bom=bom, declname=declname, expect=expect, body=body, api=api)

def encode_text(text, enc, tables):
    info = DOC_ENC[enc]
    if info['codec']: return text.encode(info['codec'])
    inv = {}
    for b, c in enumerate(tables[enc]):
        if c is not None and c not in inv: inv[c] = b
    return bytes(inv[ord(ch)] for ch in text)

def build_doc_case(d, tables):
    decl = '' if d['declname'] is None else '<?xml version="1.0" encoding="%s"?>' % d['declname']
    text = decl + d['body']
    data = (BOMS[d['enc']] if d['bom'] else b'') + encode_text(text, d['enc'], tables)
    base = d['body'].encode('utf-8')
    return {'level': 'doc', 'api': d['api'], 'enc': d['enc'], 'bom': d['bom'], 'declname': d['declname'], 'expect': d['expect'],
            'doc_b64': base64.b64encode(data).decode(), 'utf8_b64': base64.b64encode(base).decode(), 'preview': text[:200]}

def ced_lines(resp):
    return [l for l in resp.split('\n') if l and not l.startswith('#')]

def run_doc(case, ex):
    feat = 'ns=1;scanner=IG;val=0;loaddtd=0'
    try:
        r1 = ex.request({'kind': 'parse', 'api': case['api'], 'feat': feat, 'doc': base64.b64decode(case['doc_b64'])})
        r0 = ex.request({'kind': 'parse', 'api': case['api'], 'feat': feat, 'doc': base64.b64decode(case['utf8_b64'])})
    except xv.ExecutorDied as e:
        return False, 'executor died rc=%s\n%s' % (e.rc, e.stderr[-3000:])
    a, b = ced_lines(r1), ced_lines(r0)
    errs0 = [l for l in b if l.startswith('ERR') or l.startswith('EXC')]
    if errs0: return True, 'baseline rendering not clean (generator problem, case ignored): %r' % errs0[:2]
    errs = [l for l in a if l.startswith('ERR') or l.startswith('EXC')]
    if case['expect'] == 'error':
        if not errs: return False, '%s, but no error was reported; events: %r' % (case.get('why') or 'declaration %r contradicts the %s bytes (BOM=%s)' % (case['declname'], case['enc'], case['bom']), a[:6])
        return True, 'ok'
    if a != b:
        i = next((k for k in range(min(len(a), len(b))) if a[k] != b[k]), min(len(a), len(b)))
        return False, '%s (BOM=%s, declared %r) differs from the UTF-8 rendering at event %d:\n  got      %r\n  expected %r' % (
            case['enc'], case['bom'], case['declname'], i, a[i:i + 2], b[i:i + 2])
    return True, 'ok'

# stray illegal byte deep inside a document: must give >= 1 error wherever it sits (first block, later blocks, block edges)
STRAY = {'US-ASCII': ([b'\x80', b'\xe9', b'\xff'], '<?xml version="1.0" encoding="US-ASCII"?>'),
         'UTF-8': ([b'\xff', b'\xc0\x80', b'\xed\xa0\x80', b'\x80', b'\xf4\x90\x80\x80'], '<?xml version="1.0" encoding="UTF-8"?>'),
         'UTF-8/nodecl': ([b'\xff', b'\xc0\x80', b'\xed\xa0\x80', b'\x80'], '')}
def stray_cases(seed):
    offs = [40, 200, 20000, 60 + seed % 37, 16384 - 4 + seed % 9, 32768 - 4 + seed % 9, 49152 + seed % 1000]
    out = []
    for enc, (bads, decl) in sorted(STRAY.items()):
        for off in offs:
            for bi, bad in enumerate(bads):
                for where in ('text', 'attr', 'comment'):
                    if where != 'text' and (bi + off) % 3: continue
                    out.append((enc, decl, off, bad, where, ('sax2', 'dom', 'sax1')[(bi + off) % 3]))
    return out

def build_stray_case(enc, decl, off, bad, where, api):
    head = decl + {'text': '<a>', 'attr': '<a p="', 'comment': '<a><!--'}[where]
    tailtxt = {'text': ' tail</a>', 'attr': '">tail</a>', 'comment': ' -->tail</a>'}[where]
    fill = max(0, off - len(head))
    filler = ('abcdefg hij\n' * (fill // 12 + 1))[:fill]
    clean = (head + filler + 'Z' + tailtxt).encode('ascii')
    data = (head + filler).encode('ascii') + bad + tailtxt.encode('ascii')
    return {'level': 'doc', 'api': api, 'enc': enc.split('/')[0], 'bom': False, 'declname': enc, 'expect': 'error',
            'why': 'the %s document contains the illegal byte sequence %s at offset %d (%s)' % (enc, bad.hex().upper(), len(head) + fill, where),
            'doc_b64': base64.b64encode(data).decode(), 'utf8_b64': base64.b64encode(clean).decode(), 'preview': head + filler[:40] + '...'}

# ------------------------------------------------------------------------------------------------
# worker
# ------------------------------------------------------------------------------------------------
def _xvtc(ctx):
    return ctx.executor('xvtc', extra_env=ASAN_TUNED, restart_every=10 ** 9)

def setup_tables(ctx):
    ex = _xvtc(ctx)
    txt = ex.request({'kind': 'tables'}, timeout=300)
    return third_witness(txt)

def worker(ctx):
    st_ = ctx.stats
    ex = _xvtc(ctx)
    xb, tables, ndis, listing = setup_tables(ctx)
    if ctx.worker == 0:
        st_.oracle_disagreements += ndis
        st_.extra['third_witness_dropped'] = listing[:20]
        missing = [l.split('\t')[1] for l in ex.request({'kind': 'tables'}).split('\n') if l.startswith('TC\t') and l.endswith('missing')]
        if missing: st_.failures.append({'case': {'lane': 'tables', 'missing': missing}, 'detail': 'makeNewTranscoderFor returned null for %r' % missing})
    # ---- 1. enumerations (deciding)
    for lane, tc, extra in lane_plan(ctx.tier):
        if ctx.out_of_time(): st_.truncated = True; break
        req = {'kind': 'lane', 'lane': lane, 'tc': tc, 'worker': str(ctx.worker), 'nworkers': str(ctx.nworkers), 'tier': ctx.tier,
               'seed': str(ctx.seed), 'skip': SKIP}
        req.update(extra); req.update(xb)
        base = {'lane': lane, 'tc': tc, 'skip': SKIP}
        try:
            resp = ex.request(req, timeout=2400)
        except xv.ExecutorDied as e:
            shard = {k: v for k, v in req.items() if not k.startswith('xb:')}; shard['level'] = 'shard'
            st_.failures.append({'case': shard, 'detail': 'harness died in lane %s/%s rc=%s\n%s' % (lane, tc, e.rc, e.stderr[-3000:])})
            continue
        for f in merge_summary(resp, st_, base)[:3]: st_.failures.append(f)
    nontriv_local = set()
    # ---- 2. block / split consistency (Hypothesis)
    combos_all = [(tc, d) for tc in TCS for d in ('from', 'to')]
    combos = [c for i, c in enumerate(combos_all) if i % ctx.nworkers == ctx.worker] or combos_all
    def prop_split(c):
        tc, direction, cps, tail = c
        case = {'lane': 'split', 'tc': tc, 'dir': direction, 'cps': ','.join('%X' % x for x in cps), 'tail': str(tail), 'skip': SKIP}
        py = py_encode(tc, cps)
        if py is not None: case['py'] = py.hex().upper()
        status, text = run_item(case, ex, xb)
        if status == 'DROP': st_.labels['split:dropped(' + text.split(' ')[0][:40] + ')'] += 1; return
        if status == 'SKIP': st_.excluded_known[text.strip()] += 1; return
        for l in text.split('\n')[1:]:
            q = l.split('\t')
            if q[0] == 'EXCL' and len(q) == 3: st_.excluded_known[q[1]] += int(q[2])
        if status == 'DISAGREE':
            st_.oracle_disagreements += 1; st_.extra.setdefault('disagreement_samples', [])
            if len(st_.extra['disagreement_samples']) < 5: st_.extra['disagreement_samples'].append(tc + ' ' + text[:200])
            return
        multi = (direction == 'from' and py is not None and len(py) > len(cps) and tc not in ('UTF-16LE', 'UTF-16BE', 'XERCES-XMLCH', 'UCS-4LE', 'UCS-4BE')) or \
                (direction == 'from' and tc in ('UTF-16LE', 'UTF-16BE', 'XERCES-XMLCH', 'UCS-4LE', 'UCS-4BE') and any(x >= 0x10000 for x in cps)) or \
                (direction == 'to' and any(x >= 0x10000 for x in cps)) or tail > 0 or (py is None and any(x >= 0x80 for x in cps))
        h = xv.sha(['split', tc, direction, case['cps'], tail])
        if multi: nontriv_local.add(h)
        st_.note(h, multi, ['split:' + tc, 'split:dir=' + direction, 'split:tail=%d' % min(tail, 1)])
        if len(st_.samples) < 6: st_.sample({'lane': 'split', 'tc': tc, 'dir': direction, 'cps': case['cps'], 'tail': tail})
        if status in ('FAIL', 'DIED', 'BAD'):
            d = parse_fail('FAIL\t' + text) if status == 'FAIL' else {}
            why = d.pop('why', text)
            case.update({k: v for k, v in d.items() if k in ('m', 'k', 'src')})
            raise PropertyFailure(case, '%s: %s' % (status, why))
    nsplit = ctx.budget * 2 // 3
    if not ONLY or 'split' in ONLY: hyp_run(ctx, split_strategy(combos, tables), prop_split, nsplit, batches=4, seed_salt=1)
    # ---- 3. document level (extension)
    exd = ctx.executor('xvexec')
    def prop_doc(d):
        case = build_doc_case(d, tables)
        nonascii = any(ord(ch) > 0x7F for ch in d['body'])
        nt = (nonascii and d['enc'] != 'UTF-8') or d['expect'] == 'error'
        h = xv.sha(['doc', case['doc_b64'], case['api']])
        if nt: nontriv_local.add(h)
        st_.note(h, nt, ['doc:' + d['enc'], 'doc:bom=%d' % d['bom'], 'doc:decl=' + ('absent' if d['declname'] is None else 'contradictory' if d['expect'] == 'error' else 'matching'), 'doc:api=' + d['api']])
        ok, detail = run_doc(case, exd)
        if not ok: raise PropertyFailure(case, detail)
    if not ONLY or 'doc' in ONLY: hyp_run(ctx, doc_strategy(tables), prop_doc, ctx.budget - nsplit, batches=4, seed_salt=2)
    if not ONLY or 'doc' in ONLY or 'stray' in ONLY:
        for i, sc in enumerate(stray_cases(ctx.seed)):
            if i % ctx.nworkers != ctx.worker: continue
            case = build_stray_case(*sc)
            h = xv.sha(['stray', case['doc_b64'], case['api']]); nontriv_local.add(h)
            st_.note(h, True, ['doc:stray-illegal-byte', 'doc:stray:' + sc[0], 'doc:stray:offset>=16K' if sc[2] >= 16000 else 'doc:stray:offset<16K'])
            ok, detail = run_doc(case, exd)
            if not ok: st_.failures.append({'case': case, 'detail': detail})
    st_.extra['distinct_nontrivial'] = st_.extra.get('enumerated_nontrivial', 0) + len(nontriv_local)
    # ---- 4. witnesses of the known findings: still failing on this tree?
    if ctx.worker == 0:
        status = {}
        for kid, case in sorted(KNOWN.items()):
            ok, detail = replay(dict(case), ctx)
            status[kid] = 'still-fails' if not ok else 'passes'
        st_.extra['known_finding_witnesses'] = status

# ------------------------------------------------------------------------------------------------
# replay / known findings
# ------------------------------------------------------------------------------------------------
def replay(case, ctx):
    if case.get('level') == 'doc': return run_doc(case, ctx.executor('xvexec'))
    ex = _xvtc(ctx)
    xb, tables, _, _ = setup_tables(ctx)
    if case.get('level') == 'shard':
        req = dict(case); req.pop('level'); req.update(xb)
        try: resp = ex.request(req, timeout=2400)
        except xv.ExecutorDied as e: return False, 'harness died rc=%s\n%s' % (e.rc, e.stderr[-3000:])
        return True, 'shard completed: ' + resp[:300]
    if case.get('lane') == 'tables':
        txt = ex.request({'kind': 'tables'})
        missing = [l for l in txt.split('\n') if l.startswith('TC\t') and l.endswith('missing')]
        return (not missing), 'missing transcoders: %r' % missing
    status, text = run_item(case, ex, xb)
    if status in ('FAIL', 'DIED'): return False, status + ': ' + text
    return True, status + ' ' + text[:300]

def known_witnesses():
    return [(kid.split('#')[0], dict(case)) for kid, case in sorted(KNOWN.items())]

TABLE_TCS = ('WINDOWS-1252', 'IBM037', 'IBM1047', 'IBM1140')
ICU_TCS = ('ISO-8859-2', 'ISO-8859-5', 'ISO-8859-15', 'KOI8-R', 'windows-1251', 'Shift_JIS', 'EUC-JP', 'gb18030')
def _hex(v, d=-1):
    try: return int(str(v).split(',')[0].split(' ')[0], 16)
    except ValueError: return d

def classify(case, detail):
    """Signature predicates of the known findings (known_findings.d/C05.json) on a failing case."""
    if case.get('finding'): return case['finding']
    lane, tc = case.get('lane'), case.get('tc', ''); d = detail or ''
    if case.get('level') == 'doc':
        w = case.get('why', '')
        if 'not a Unicode scalar value' in w: return 'C05-ucs4-decode-no-range-check'
        if 'is illegal in' in w: return 'C05-icu-decode-substitutes-illegal'
        return None
    if lane == 'ucs4' and 'val' in case: return 'C05-ucs4-decode-no-range-check'
    cps = [_hex(x) for x in str(case.get('cps', case.get('cp', ''))).split(',') if x]
    supp = any(c >= 0x10000 for c in cps)
    if tc == 'UCS-4BE' and supp and (lane == 'scalar' and 'transcodeTo' in d or lane == 'split' and case.get('dir') == 'to'): return 'C05-ucs4-swapped-encode-supplementary'
    if lane == 'surr' and tc == 'UTF-8': return 'C05-utf8-encode-unpaired-surrogate'
    if lane == 'surr' and tc.startswith('UCS-4') and 0xDC00 <= _hex(case.get('units', '')) <= 0xDFFF: return 'C05-ucs4-encode-lone-low-surrogate'
    if tc in ICU_TCS and 'heap-buffer-overflow' in d and 'ICUTranscoder::transcodeTo' in d: return 'C05-icu-encode-throw-overread'
    if lane == 'scalar' and tc in TABLE_TCS:
        if cps == [0]: return 'C05-table-nul-unrepresentable'
        if supp and 'canTranscodeTo=' in d: return 'C05-table-can-truncates-codepoint'
        if tc == 'IBM1047' and cps == [0x110]: return 'C05-table-bestfit-without-icu-counterpart'
    if lane == 'scalar' and tc in ICU_TCS and supp and 'canTranscodeTo=' in d: return 'C05-icu-can-supplementary'
    if lane == 'raw-expect' or (lane == 'page' and tc in ICU_TCS and 'is not assigned' in d): return 'C05-icu-decode-substitutes-illegal'
    if lane == 'split' and tc in ICU_TCS and case.get('dir') == 'to' and ('threw TranscodingException' in d or 'TranscodeToStr gave' in d): return 'C05-icu-encode-small-buffer-throw'
    return None
