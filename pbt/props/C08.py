"""C08 -- XML Schema structure validation accepts exactly the schema-valid instances (M3 oracle, re witness)."""
import os, re, json
from hypothesis import strategies as st
import xv, xsdmodel as xm
from driver import hyp_run, PropertyFailure

ID = 'C08'
HARNESS = {'asan': ['xv_xsd']}
RULE = ('M3 schemas (UPA-safe by construction) x instances: exhaustive child sequences up to a length bound over the content model\'s '
        'element names + one foreign name, attribute-subset enumeration, random valid-by-construction trees and single-rule mutations; '
        'verdict from a derivative matcher with counters (+ set logic for all) cross-checked by Python re on the expanded model. '
        'non-trivial = the governing content model has an occurrence range other than {0,1,unbounded} on some particle, or an all group, '
        'or a wildcard, or a substitution group, or the instance uses xsi:type/xsi:nil, or (attribute lane) a required/prohibited/fixed '
        'attribute use decides the verdict; distinct by sha1(schema text, instance text, config).  invalid-schema lane: non-trivial = '
        'the unmutated schema loaded cleanly in the same run and the mutant differs by exactly one planted rule violation.')
ASSUMPTIONS = ['expanded element names are unique per content model and wildcards never admit a sibling namespace, so every generated schema is valid XSD 1.0 (also asserted: zero load errors under full checking)',
               'Python re on the expanded content model agrees with the derivative matcher or the case is dropped (oracle_disagreements)',
               'only the built-in simple types string/int/boolean/token/NMTOKEN/decimal/date with clear-cut literals are used; datatypes proper belong to C09',
               'error *codes* are only matched coarsely (class of codes per planted rule)']
BUDGET = {'quick': 16, 'thorough': 110}
WALLCAP = {'quick': 500, 'thorough': 3000}

# ---- error code tables (parsed from the tree that is being checked) -----------------------------------------
def _codes(header, start):
    path = os.path.join(os.environ.get('VERIF_REPO', '/repo'), 'src/xercesc/framework', header)
    txt = open(path).read()
    body = txt[txt.index('enum Codes'):]
    body = body[body.index('{') + 1:body.index('}')]
    names = [re.sub(r'=.*', '', x).strip() for x in body.split(',')]
    names = [n for n in names if n]
    return {n: i for i, n in enumerate(names)}
VALID = _codes('XMLValidityCodes.hpp', 0)
XERR = _codes('XMLErrorCodes.hpp', 0)
VNAME = {v: k for k, v in VALID.items()}
XNAME = {v: k for k, v in XERR.items()}

CONTENT_CODES = ['ElementNotValidForContent', 'NotEnoughElemsForCM', 'EmptyNotValidForContent', 'ElementNotDefined', 'ElementNotQualified',
                 'ElementNotUnQualified', 'GrammarNotFound', 'EmptyElemHasContent', 'NoDirectUseAbstractElement', 'ElemNoSubforBlock']
CLASS = {
    'content': CONTENT_CODES,
    'content-empty': CONTENT_CODES + ['NoCharDataInCM'],
    'text-in-element-only': ['NoCharDataInCM'],
    'attr-required': ['RequiredAttrNotProvided'],
    'attr-prohibited': ['ProhibitedAttributePresent', 'AttNotDefinedForElement'],
    'attr-undeclared': ['AttNotDefinedForElement', 'AttributeNotQualified', 'AttributeNotUnQualified', 'AttNotDefined'],
    'attr-strict-undeclared': ['AttNotDefinedForElement', 'AttNotDefined', 'GrammarNotFound'],
    'attr-fixed': ['NotSameAsFixedValue', 'FixedDifferentFromActual'],
    'attr-datatype': ['DatatypeError', 'DatatypeValidationFailure', 'DoesNotMatchEnumList', 'InvalidEmptyAttValue'],
    'attr-on-simple': ['AttNotDefinedForElement', 'AttNotDefined'],
    'datatype': ['DatatypeError', 'DatatypeValidationFailure'],
    'elem-fixed': ['FixedDifferentFromActual', 'NotSameAsFixedValue'],
    'child-in-simple': ['SimpleTypeHasChild', 'ElementNotValidForContent', 'ElementNotDefined'],
    'nil-notnillable': ['NillNotAllowed'],
    'nil-content': ['NilAttrNotEmpty', 'NoCharDataInCM', 'ElementNotValidForContent', 'NillNotAllowed', 'NotEnoughElemsForCM', 'SimpleTypeHasChild'],
    'nil-fixed': ['NilAttrNotEmpty', 'NillNotAllowed', 'FixedDifferentFromActual'],
    'nil-lexical': ['DatatypeError', 'DatatypeValidationFailure', 'NillNotAllowed'],
    'xsitype-unknown': ['BadXsiType', 'NoAbstractInXsiType'],
    'xsitype-notderived': ['NonDerivedXsiType', 'BadXsiType', 'NoAbstractInXsiType'],
    'xsitype-blocked': ['TypeNoSubforBlock', 'NonDerivedXsiType', 'ElemNoSubforBlock'],
    'abstract-elem': ['NoDirectUseAbstractElement'],
    'abstract-type': ['NoUseAbstractType', 'NoAbstractInXsiType'],
    'strict-undeclared': ['ElementNotDefined', 'GrammarNotFound', 'ElementNotValidForContent', 'NillNotAllowed', 'BadXsiType'],
    'root-undeclared': ['ElementNotDefined', 'GrammarNotFound', 'ElementNotValidForContent', 'NillNotAllowed', 'BadXsiType'],
}

FEATSETS = [frozenset(), frozenset(), frozenset(['groups']), frozenset(['subst', 'groups']), frozenset(['subst']), frozenset(['wild']), frozenset(['wild', 'subst', 'groups', 'anyattr']),
            frozenset(['nil', 'valueconstraint']), frozenset(['wild', 'subst', 'groups', 'nil', 'valueconstraint', 'anyattr'])]

# ---- known findings: every exclusion is switchable (VERIF_C08_EXCLUSIONS_OFF=id,id,... or 'all') ------------------------------
SG_CACHED_NONS = 'C08-sg-cached-nonamespace-root'
NIL_NUMERIC = 'C08-xsi-nil-numeric-boolean'
ATTR_FIXED_LEX = 'C08-attr-fixed-lexical-compare'
NIL_DEFAULT = 'C08-nil-with-default'
NIL_FALSE_LEAK = 'C08-nil-false-leaks-to-next-element'
ATTR_DUP_FATAL = 'C08-qualified-attr-same-local-fatal'
ELEM_FIXED_FATAL = 'C08-elem-fixed-invalid-literal-fatal'
XSI_IN_SKIP = 'C08-xsi-attrs-checked-in-skipped-content'
SG_PSVI_NULL = 'C08-sg-psvi-null-xsmodel'
PSVI_LOCKED = 'C08-psvi-lockedpool-complextype'
ALL_EXCLUSIONS = [SG_CACHED_NONS, NIL_NUMERIC, ATTR_FIXED_LEX, NIL_DEFAULT, NIL_FALSE_LEAK, ATTR_DUP_FATAL, ELEM_FIXED_FATAL, XSI_IN_SKIP, SG_PSVI_NULL, PSVI_LOCKED]
_off = os.environ.get('VERIF_C08_EXCLUSIONS_OFF', '')
ACTIVE_EXCLUSIONS = set() if _off == 'all' else set(ALL_EXCLUSIONS) - set(x for x in _off.split(',') if x)
def EX(fid): return fid in ACTIVE_EXCLUSIONS
# oracle flag (input class met while assessing an instance) -> finding
FLAG2FID = {'nil-numeric': NIL_NUMERIC, 'nil-with-default': NIL_DEFAULT, 'nil-false-on-nillable': NIL_FALSE_LEAK, 'same-local-attrs': ATTR_DUP_FATAL,
            'fixed-elem-invalid-literal': ELEM_FIXED_FATAL, 'xsi-in-skip': XSI_IN_SKIP}

def triage_flags(orc, st_):
    """-> ('skip', None) | ('run', finding-id or None) for the instance just assessed by orc"""
    fid = None
    for flag, f in FLAG2FID.items():
        if flag in orc.flags:
            if EX(f): st_.excluded_known[f] += 1; return 'skip', None
            fid = f
    amb = [f for f in orc.flags if f.startswith('ambiguous:')]
    if amb:          # readings differ (R2): outside the domain, dropped and counted
        for f in amb: st_.labels['dropped:' + f] += 1
        return 'skip', None
    return 'run', fid

# ---- executing ---------------------------------------------------------------------------------------------
def feat_string(cfg):
    return 'val=1;schema=1;ns=1;fullcheck=%d;ic=1;scanner=%s%s' % (cfg['fullcheck'], cfg['scanner'], ';psvi=1' if cfg.get('psvi') else '')

def parse_xsd_resp(resp):
    """-> (load_lines, [doc_lines...])"""
    load = []; docs = []; cur = load
    for line in resp.split('\n'):
        if not line: continue
        if line == '#LOAD': cur = load; continue
        if line.startswith('#DOC\t'):
            docs.append([]); cur = docs[-1]; continue
        cur.append(line.split('\t'))
    return load, docs

def run_docs(ex, schemas, load, cfg, docs, mode='err', reuse=0):
    req = {'kind': 'xsd', 'api': cfg['api'], 'feat': feat_string(cfg), 'load': ','.join(load), 'n': len(docs), 'mode': mode}
    if reuse: req['reuse'] = reuse
    for k, v in schemas.items(): req['ent:' + k] = v.encode('utf-8')
    for i, d in enumerate(docs): req['doc%d' % i] = d.encode('utf-8')
    return parse_xsd_resp(ex.request(req, timeout=150))

def run_hint(ex, schemas, cfg, doc):
    """schema reached through the xsi:(noNamespace)schemaLocation hint written in the document"""
    req = {'kind': 'parse', 'api': cfg['api'], 'feat': feat_string(cfg), 'doc': doc.encode('utf-8')}
    for k, v in schemas.items(): req['ent:' + k] = v.encode('utf-8')
    lines = [l.split('\t') for l in ex.request(req, timeout=120).split('\n') if l]
    return [l for l in lines if l[0] in ('ERR', 'EXC')]

def verdict(lines, expect_valid, tags):
    """-> None if the observed error lines agree with the expectation, else a description"""
    errs = [l for l in lines if l[0] == 'ERR']; excs = [l for l in lines if l[0] == 'EXC']
    if excs: return 'exception escaped parse(): %r' % (excs[:2],)
    def names(): return ['%s:%s/%s' % (l[1], (VNAME if l[1] == 'V' else XNAME if l[1] == 'X' else {}).get(int(l[2]), l[2]), l[3]) for l in errs[:6]]
    if expect_valid:
        if errs: return 'schema-valid instance reported %d error(s): %s' % (len(errs), names())
        return None
    if any(l[3] == 'F' for l in errs): return 'invalid (but well-formed) instance produced a FATAL error: %s' % names()
    # datatype failures are reported in the exception domain (the XMLException of the datatype validator re-emitted as an error)
    verrs = [l for l in errs if l[1] in ('V', 'E') and l[3] == 'E']
    if not verrs: return 'schema-INVALID instance (model: %s) reported no validity error; got %s' % (sorted(tags), names())
    if len(tags) == 1:
        allowed = {VALID[c] for c in CLASS.get(list(tags)[0], []) if c in VALID}
        dt = list(tags)[0] in ('datatype', 'attr-datatype', 'nil-lexical')
        if allowed and not any((l[1] == 'V' and int(l[2]) in allowed) or (dt and l[1] == 'E') for l in verrs):
            return 'violation class %s: none of the reported codes %s is in the expected class %s' % (list(tags)[0], names(), sorted(CLASS[list(tags)[0]]))
    return None

def known_crash(stderr):
    """sanitizer-stack signature of a known memory-safety finding, or None"""
    if "member call on null pointer of type 'xercesc_4_0::XSModel'" in stderr and 'SGXMLScanner' in stderr: return SG_PSVI_NULL
    return None

class KnownCrash(Exception):
    def __init__(self, fid): Exception.__init__(self, fid); self.fid = fid

def guarded(fn, *a, **kw):
    """run an executor request; a death with a known signature becomes KnownCrash (counted + skipped by the caller)"""
    try:
        return fn(*a, **kw)
    except xv.ExecutorDied as e:
        fid = known_crash(e.stderr)
        if fid: raise KnownCrash(fid)
        raise

def load_problem(load_lines, expect_errors):
    errs = [l for l in load_lines if l[0] in ('ERR', 'EXC')]
    if expect_errors:
        if not errs: return 'schema violating a constraint on schema components loaded without any error'
        return None
    if errs:
        return 'valid schema reported load errors: %r' % ([(l[1], (XNAME if l[1] == 'X' else VNAME).get(int(l[2]), l[2]) if l[0] == 'ERR' else l[1:], l[3] if l[0] == 'ERR' else '') for l in errs[:5]],)
    return None

# ---- case construction ------------------------------------------------------------------------------------------
def ws_variant(node, style):
    """insert ignorable material between children (legal in element-only and mixed content)"""
    if style == 0 or not node.elems(): return node
    n = node.copy(); out = []
    for c in n.children:
        out.append(['\n ', ('c', ' k '), ('pi', 'p', 'q'), ' \t'][(style + len(out)) % 4]); out.append(c)
    out.append('\n'); n.children = out
    return n

def nontrivial_model(p):
    """numeric range other than {0,1,unbounded}, all group, or wildcard somewhere in the particle"""
    if p is None or isinstance(p, tuple): return False
    if p.k in ('all', 'any'): return True
    if p.mn > 1 or (p.mx is not None and p.mx > 1): return True
    if p.k == 'e' and p.decl.is_global and (p.decl.abstract or p.decl.block): return True
    return any(nontrivial_model(c) for c in p.ch)

def has_subst(schema):
    return any(e.subst is not None for s in schema.all_schemas() for e in s.elements)

@st.composite
def cm_case(draw, tier):
    feats = draw(st.sampled_from(FEATSETS))
    big = draw(st.integers(0, 19)) == 0
    s = draw(xm.gen_cm_schema(feats, big))
    cfg = {'api': draw(st.sampled_from(['sax2', 'dom'])), 'scanner': draw(st.sampled_from(['IG', 'IG', 'SG'])),
           'fullcheck': draw(st.sampled_from([1, 1, 0])), 'route': draw(st.sampled_from(['cached'] * 5 + ['hint']))}
    orc = xm.Oracle(s); root = s.elements[0]; tm = orc.tm(root.typ, s.tns)
    alphabet = xm.leaf_symbols(tm, s)
    fk = draw(st.integers(0, 3))
    foreign = (root.ns, 'zz')
    if fk == 1 and alphabet: foreign = (('' if alphabet[0][0] else (s.tns or xm.OTHER_NS)), alphabet[0][1])      # right local name, wrong namespace
    elif fk == 2: foreign = (xm.OTHER_NS, 'zz')
    if foreign in alphabet: foreign = (root.ns, 'zz')
    extra = []      # (kind, Node)
    base_attrs = xm.valid_attrs(root.typ)
    def mk(seq, attrs=None, dr=None):
        n = xm.Node(root.ns, root.name, base_attrs if attrs is None else attrs)
        n.children = [xm.child_node(orc, tm, k, dr) for k in seq]
        return n
    nrand = 6 if tier == 'quick' else 10
    for i in range(nrand):
        seq = xm.valid_sequence(tm, s, draw)
        if len(seq) > 1200: seq = seq[:0]
        n = mk(seq, xm.valid_attrs(root.typ, draw), draw)
        n = ws_variant(n, draw(st.integers(0, 4)))
        if root.typ.mixed and draw(st.booleans()): n.children.insert(draw(st.integers(0, len(n.children))), 'mixed text')
        extra.append(('valid-walk', n))
        mseq, mk_ = xm.mutate_sequence(draw, seq, alphabet, foreign)
        extra.append(('mut-' + mk_, mk(mseq)))
    # single-rule mutations outside the content model
    seq0 = xm.valid_sequence(tm, s)
    if len(seq0) <= 1200:
        n = mk(seq0)
        if n.elems() or True:
            m = n.copy(); m.children.insert(draw(st.integers(0, len(m.children))), 'stray text'); extra.append(('text', m))
        kids = [i for i, c in enumerate(n.children) if isinstance(c, xm.Node)]
        if kids:
            i = draw(st.sampled_from(kids)); c = n.children[i]
            leaf = tm.attribute(c.key())
            if leaf is not None and leaf.k == 'e':
                cd = tm.elem_decl_for(leaf, c.key())
                m = n.copy(); mc = m.children[i]
                kind = draw(st.sampled_from(['child-child', 'child-badvalue', 'child-attr', 'child-nil', 'child-niltrue-content', 'child-dropattr']))
                if kind == 'child-child': mc.children.append(xm.Node(mc.ns, 'zz'))
                elif kind == 'child-badvalue': mc.children = [draw(st.sampled_from(['x y', '1.5', 'true!']))]
                elif kind == 'child-attr': mc.attrs[('', 'zz')] = '1'
                elif kind == 'child-nil':
                    # xsi:nil="1"/"0" are excluded (known finding C08-xsi-nil-numeric-boolean); the draw is kept so the exclusion is counted
                    mc.xsi_nil = draw(st.sampled_from(['true', 'false', '1', '0']))
                    if mc.xsi_nil in ('1', '0') and EX(NIL_NUMERIC): mc.xsi_nil = {'1': 'true', '0': 'false'}[mc.xsi_nil]; kind = 'child-nil(excl-numeric)'
                    if mc.xsi_nil == 'true': mc.children = []
                elif kind == 'child-niltrue-content': mc.xsi_nil = 'true'; mc.children = [draw(st.sampled_from(['7', ' ']))]
                elif kind == 'child-dropattr': mc.attrs = {}
                extra.append((kind, m))
    return s, cfg, foreign, extra

def build_cm_docs(s, cfg, foreign, extra, tier):
    """-> list of (label, Node, expect_tags|None (None = dropped), planted)"""
    orc = xm.Oracle(s); root = s.elements[0]; tm = orc.tm(root.typ, s.tns)
    alphabet = xm.leaf_symbols(tm, s)
    syms = alphabet + [foreign]
    cap = 300 if tier == 'quick' else 1400
    L = xm.enum_bound(len(syms), cap)
    wit = tm.witness(syms)
    base_attrs = xm.valid_attrs(root.typ)
    cache = {}
    def kid(k):
        if k not in cache: cache[k] = xm.child_node(orc, tm, k)
        return cache[k]
    docs = []; dis = 0; excl = {}
    for seq in xm.sequences_upto(syms, L):
        n = xm.Node(root.ns, root.name, base_attrs, [kid(k) for k in seq])
        ok = tm.content_ok(seq)
        # the `re` second witness backtracks catastrophically on long sequences over small alphabets (a C call that no watchdog can interrupt): it judges
        # sequences of at most 6 symbols (and only models whose expanded regex is short), longer ones rest on the derivative/Glushkov model alone
        if wit is not None and len(seq) <= 6 and wit(seq) != ok:
            dis += 1; continue
        docs.append(('enum', n))
    # attribute subsets on one valid child sequence
    seq0 = xm.valid_sequence(tm, s)
    if root.typ.attrs and len(seq0) < 50:
        for attrs in xm.attr_sets(root.typ, s.tns):
            docs.append(('attrs', xm.Node(root.ns, root.name, attrs, [kid(k) for k in seq0])))
        # value mutations: wrong fixed value, equal-but-different lexical form, datatype-invalid value
        for a in root.typ.attrs:
            if a.use == 'prohibited': continue
            for v in ([a.fixed + 'x' if a.tname in ('string', 'NMTOKEN') else None] if a.fixed is not None else []) + xm.SIMPLE_BAD.get(a.tname, [])[:2] + \
                     ({'int': [' +12 ', '012', '-7'], 'decimal': ['1.5', '01.50', '7.0'], 'boolean': ['1', 'true', '0', 'false']}.get(a.tname, [])):
                if v is None: continue
                if a.fixed is not None and v != a.fixed and xm.simple_valid(a.tname, v) and xm.simple_value(a.tname, v) == xm.simple_value(a.tname, a.fixed):
                    if EX(ATTR_FIXED_LEX):
                        excl[ATTR_FIXED_LEX] = excl.get(ATTR_FIXED_LEX, 0) + 1      # known finding: attribute fixed values are compared lexically
                        continue
                    at = dict(base_attrs); at[a.key()] = v
                    docs.append(('attrval(fixed-lex)', xm.Node(root.ns, root.name, at, [kid(k) for k in seq0]))); continue
                at = dict(base_attrs); at[a.key()] = v
                docs.append(('attrval', xm.Node(root.ns, root.name, at, [kid(k) for k in seq0])))
    for kind, n in extra:
        if wit is not None and kind.startswith(('valid-walk', 'mut-')):
            seq = [c.key() for c in n.elems()]
            # backtracking `re` is exponential on nested nullable repetitions: the second witness is only asked about short sequences
            if len(seq) <= 6 and wit(seq) != tm.content_ok(seq): dis += 1; continue
        docs.append((kind, n))
    return orc, docs, L, dis, wit is not None, excl

def case_dict(lane, s_texts, load, cfg, doc, expect_valid, tags, note, fid=None):
    d = {'lane': lane, 'schemas': s_texts, 'load': load, 'cfg': cfg, 'doc': doc, 'expect_valid': expect_valid, 'tags': sorted(tags), 'note': note}
    if fid: d['finding'] = fid          # the instance belongs to an input class of a known finding whose exclusion is switched off
    return d

def hint_for(s):
    if s.tns: return ('schemaLocation', '%s %s' % (s.tns, s.sysid))
    return ('noNamespaceSchemaLocation', s.sysid)


def check_cm(ctx, ex, c, tier):
    s, cfg, foreign, extra = c
    st_ = ctx.stats
    texts = xm.render_schema(s)
    load = [s.sysid]
    root = s.elements[0]
    # known finding: SGXMLScanner never looks up a pre-loaded no-namespace grammar for the root element
    case_fid = None
    if cfg['scanner'] == 'SG' and cfg['route'] == 'cached' and root.ns == '':
        if EX(SG_CACHED_NONS):
            st_.excluded_known[SG_CACHED_NONS] += 1
            cfg = dict(cfg); cfg['route'] = 'hint'
        else: case_fid = SG_CACHED_NONS
    orc, docs, L, dis, have_wit, excl = build_cm_docs(s, cfg, foreign, extra, tier)
    st_.oracle_disagreements += dis
    for k, v in excl.items(): st_.excluded_known[k] += v
    # (1) the unmutated schema must load cleanly under full checking
    fc = dict(cfg); fc['fullcheck'] = 1; fc['scanner'] = 'IG' if cfg['route'] == 'hint' else cfg['scanner']
    lload, _ = run_docs(ex, texts, load, fc, [])
    prob = load_problem(lload, False)
    hs = xv.sha([texts, 'load'])
    st_.note(hs, True, ['lane:load'])
    if prob:
        raise PropertyFailure({'lane': 'load', 'schemas': texts, 'load': load, 'cfg': fc, 'expect_load_errors': False, 'note': root.typ.content.show() if isinstance(root.typ.content, xm.Particle) else ''}, prob)
    model_nt = nontrivial_model(root.typ.content) or has_subst(s)
    show = root.typ.content.show() if isinstance(root.typ.content, xm.Particle) else str(root.typ.content)
    rendered = []; fids = []
    for kind, n in docs:
        if kind.endswith('(excl-numeric)'): st_.excluded_known[NIL_NUMERIC] += 1
        tags = orc.assess_root(n)
        act, fid = triage_flags(orc, st_)
        if act == 'skip': continue
        if kind == 'attrval(fixed-lex)': fid = ATTR_FIXED_LEX
        fids.append(fid or case_fid)
        rendered.append((kind, xm.render_instance(n, hint=hint_for(s) if cfg['route'] == 'hint' else None), tags, n))
    rendered = [r + (f,) for r, f in zip(rendered, fids)]
    if cfg['route'] == 'hint':
        # slow route (schema re-read per document): a deterministic sample
        step = max(1, len(rendered) // (30 if tier == 'quick' else 60))
        rendered = rendered[::step]
        results = []
        for kind, doc, tags, n, fid in rendered: results.append(run_hint(ex, texts, cfg, doc))
    else:
        lload, results = run_docs(ex, texts, load, cfg, [r[1] for r in rendered], reuse=(64 if cfg.get('reuse', True) else 0))
        prob = load_problem(lload, False)
        if prob: raise PropertyFailure({'lane': 'load', 'schemas': texts, 'load': load, 'cfg': cfg, 'expect_load_errors': False, 'note': show}, prob)
    labels0 = ['lane:cm', 'api:' + cfg['api'], 'scanner:' + cfg['scanner'], 'route:' + cfg['route'], 'fullcheck:%d' % cfg['fullcheck'],
               'enumL:%d' % L, 'witness:%s' % ('re' if have_wit else 'none')]
    if isinstance(root.typ.content, xm.Particle) and root.typ.content.k == 'all': labels0.append('model:all')
    if any(l.k == 'any' for l in orc.tm(root.typ, s.tns).leaves): labels0.append('model:wildcard')
    if has_subst(s):
        labels0.append('model:subst')
        if any(not isinstance(e.typ, str) and e.typ.base is not None for e in s.elements if e.subst is not None): labels0.append('model:subst-derived-type')
        if any(not xm.substitution_ok(e.subst, e) for e in s.elements if e.subst is not None): labels0.append('model:subst-blocked-member')
    if root.typ.mixed: labels0.append('model:mixed')
    if model_nt: labels0.append('model:numeric-range-or-all-or-wild')
    first = True
    for (kind, doc, tags, n, fid), lines in zip(rendered, results):
        nt = model_nt or (kind in ('attrs', 'attrval') and any(a.use != 'optional' or a.fixed is not None for a in root.typ.attrs)) or \
             any(c.xsi_nil is not None for c in n.elems())
        st_.note(xv.sha([texts, doc, cfg]), nt, (labels0 if first else []) + ['doc:' + kind, 'verdict:' + ('valid' if not tags else 'invalid')] + ['tag:' + t for t in tags])
        first = False
        bad = verdict(lines, not tags, tags)
        if bad and cfg['route'] == 'cached':
            # the batch shares parser objects; decide on a fresh parser (history effects belong to C15)
            _, r1 = run_docs(ex, texts, load, cfg, [doc])
            bad2 = verdict(r1[0], not tags, tags)
            if not bad2:
                st_.inconclusive += 1; st_.extra['parser_reuse_dependent'] = st_.extra.get('parser_reuse_dependent', 0) + 1
                continue
            bad = bad2
        if bad:
            raise PropertyFailure(case_dict('cm', texts, load, cfg, doc, not tags, tags, 'model %s; doc kind %s' % (show, kind), fid), bad)
    st_.sample({'model': show, 'cfg': cfg, 'docs': len(rendered), 'enum_len': L, 'schema': texts[s.sysid][:600]})

# ---- deep lane: derivation, xsi:type, xsi:nil, block/abstract, imports, value constraints, reported information -------------
@st.composite
def deep_case(draw, tier):
    s = draw(xm.gen_deep_schema())
    cfg = {'api': draw(st.sampled_from(['sax2', 'dom'])), 'scanner': draw(st.sampled_from(['IG', 'IG', 'SG'])),
           'fullcheck': draw(st.sampled_from([1, 1, 0])), 'route': draw(st.sampled_from(['cached'] * 3 + ['hint']))}
    orc = xm.Oracle(s); rootd = [e for e in s.elements if e.name == 'r'][0]
    docs = []
    for i in range(8 if tier == 'quick' else 14):
        n = xm.Node(rootd.ns, rootd.name)
        xm.fill_deep(orc, n, rootd, draw)
        docs.append(('filled', n))
        for j in range(3):
            kind, m = xm.mutate_deep(draw, s, n)
            docs.append(('mut-' + kind, m))
    return s, cfg, docs


def info_case(s, texts, cfg, node, orc):
    use_hint = (cfg['scanner'] == 'SG' and EX(SG_PSVI_NULL)) or cfg['route'] == 'hint'
    exp = [[list(k), tn, ({'{%s}%s' % a: v for a, v in da.items()} if da is not None else None), dt] for k, tn, da, dt in xm.expected_info(orc, node)]
    fid = None
    if cfg['scanner'] == 'SG' and not use_hint: fid = SG_PSVI_NULL
    elif not EX(PSVI_LOCKED) and not use_hint: fid = PSVI_LOCKED
    return {'lane': 'info', 'schemas': texts, 'load': [s.sysid], 'cfg': cfg, 'use_hint': use_hint, 'lock': 0 if EX(PSVI_LOCKED) else 1, 'finding': fid,
            'doc': xm.render_instance(node, hint=hint_for(s) if use_hint else None), 'expect_info': exp}

def run_info(ex, case):
    """reported type names / defaulted attributes / element default text on a schema-valid instance (DOM + PSVI)"""
    cfg = case['cfg']; texts = case['schemas']
    c2 = dict(cfg); c2['api'] = 'dom'; c2['psvi'] = 1
    if case['use_hint']:
        # SG + PSVI + grammar taken from the pool dereferences a null XSModel (known finding SG_PSVI_NULL): SG goes through the hint route
        req = {'kind': 'parse', 'api': 'dom', 'feat': feat_string(c2), 'doc': case['doc'].encode('utf-8')}
        for k, v in texts.items(): req['ent:' + k] = v.encode('utf-8')
        res = [[l.split('\t') for l in ex.request(req, timeout=120).split('\n') if l and not l.startswith('#')]]
    else:
        # pool left unlocked: with a locked pool element type definitions of complex types are not reported (known finding PSVI_LOCKED)
        req = {'kind': 'xsd', 'api': 'dom', 'feat': feat_string(c2), 'load': ','.join(case['load']), 'n': 1, 'mode': 'ced', 'lock': case.get('lock', 0), 'doc0': case['doc'].encode('utf-8')}
        for k, v in texts.items(): req['ent:' + k] = v.encode('utf-8')
        _, res = parse_xsd_resp(ex.request(req, timeout=120))
    exp = case['expect_info']
    got = []; cur = None
    for l in res[0]:
        if l[0] == 'SE':
            cur = {'key': l[1], 'type': l[3][1:] if len(l) > 3 else None, 'dattrs': {}, 'text': ''}; got.append(cur)
        elif l[0] == 'A' and cur is not None:
            if l[4].startswith('0'): cur['dattrs'][l[1]] = xv.unesc(l[5]) if len(l) > 5 else ''
        elif l[0] == 'T' and cur is not None: cur['text'] += xv.unesc(l[1])
        elif l[0] in ('ERR', 'EXC'): return 'valid instance reported %r in the DOM+PSVI run' % (l,)
    if len(got) != len(exp): return 'element count differs: expected %d, DOM has %d' % (len(exp), len(got))
    for e, g in zip(exp, got):
        key, tn, dattrs, dtext = e
        if g['key'] != '{%s}%s' % tuple(key): return 'element order differs at %r: %r' % (key, g['key'])
        if tn is not None and g['type'] != tn: return 'element %r: reported type %r, governing type %r' % (key, g['type'], tn)
        if dattrs is not None and dattrs != g['dattrs']:
            return 'element %r: attributes supplied by default/fixed differ: expected %r, reported %r' % (key, dattrs, g['dattrs'])
        if dtext is not None:
            bt = tn.split('}')[1]
            if not xm.simple_valid(bt, g['text']) or xm.simple_value(bt, g['text']) != xm.simple_value(bt, dtext):
                return 'element %r: default/fixed content %r expected (value space of %s), reported %r' % (key, dtext, bt, g['text'])
    return None

def check_deep(ctx, ex, c, tier):
    s, cfg, docs = c
    st_ = ctx.stats
    texts = xm.render_schema(s); load = [s.sysid]
    rootd = [e for e in s.elements if e.name == 'r'][0]
    case_fid = None
    if cfg['scanner'] == 'SG' and cfg['route'] == 'cached' and rootd.ns == '':
        if EX(SG_CACHED_NONS):
            st_.excluded_known[SG_CACHED_NONS] += 1
            cfg = dict(cfg); cfg['route'] = 'hint'
        else: case_fid = SG_CACHED_NONS
    orc = xm.Oracle(s)
    fc = dict(cfg); fc['fullcheck'] = 1; fc['scanner'] = 'IG' if cfg['route'] == 'hint' else cfg['scanner']
    lload, _ = run_docs(ex, texts, load, fc, [])
    st_.note(xv.sha([texts, 'load']), True, ['lane:load'])
    prob = load_problem(lload, False)
    if prob: raise PropertyFailure({'lane': 'load', 'schemas': texts, 'load': load, 'cfg': fc, 'expect_load_errors': False, 'note': 'deep'}, prob)
    rendered = []
    fids = []
    for kind, n in docs:
        tags = orc.assess_root(n)
        act, fid = triage_flags(orc, st_)
        if act == 'skip': continue
        fids.append(fid or case_fid)
        rendered.append((kind, xm.render_instance(n, hint=hint_for(s) if cfg['route'] == 'hint' else None), tags, n))
    rendered = [r + (f,) for r, f in zip(rendered, fids)]
    if cfg['route'] == 'hint':
        results = [run_hint(ex, texts, cfg, d[1]) for d in rendered]
    else:
        _, results = run_docs(ex, texts, load, cfg, [r[1] for r in rendered])
    labels0 = ['lane:deep', 'api:' + cfg['api'], 'scanner:' + cfg['scanner'], 'route:' + cfg['route'], 'fullcheck:%d' % cfg['fullcheck'], 'imports:%d' % len(s.imports)]
    first = True; ninfo = 0
    for (kind, doc, tags, n, fid), lines in zip(rendered, results):
        uses = any(x.xsi_type is not None or x.xsi_nil is not None for x in xm.all_nodes(n))
        st_.note(xv.sha([texts, doc, cfg]), uses or bool(s.imports), (labels0 if first else []) + ['doc:' + kind, 'verdict:' + ('valid' if not tags else 'invalid')] + ['tag:' + t for t in tags] +
                 (['uses:xsi'] if uses else []))
        first = False
        bad = verdict(lines, not tags, tags)
        if bad: raise PropertyFailure(case_dict('deep', texts, load, cfg, doc, not tags, tags, 'doc kind %s' % kind, fid), bad)
        if not tags and ninfo < 4:
            ninfo += 1
            if cfg['scanner'] == 'SG' and cfg['route'] != 'hint' and EX(SG_PSVI_NULL): st_.excluded_known[SG_PSVI_NULL] += 1
            ic = info_case(s, texts, cfg, n, orc)
            try:
                bad = run_info(ex, ic)
            except xv.ExecutorDied as e:
                bad = 'executor died rc=%s\n%s' % (e.rc, e.stderr[-3000:])
            st_.note(xv.sha([texts, ic['doc'], 'info']), True, ['lane:info'])
            if bad: raise PropertyFailure(ic, bad)
    st_.sample({'lane': 'deep', 'cfg': cfg, 'docs': len(rendered), 'schema': texts[s.sysid][:500]})

# ---- invalid-schema lane ---------------------------------------------------------------------------------------------------
@st.composite
def bad_case(draw, tier):
    if draw(st.booleans()): s = draw(xm.gen_cm_schema(draw(st.sampled_from(FEATSETS))))
    else: s = draw(xm.gen_deep_schema())
    kinds = draw(st.permutations(xm.BAD_SCHEMA_MUTATIONS))
    scanner = draw(st.sampled_from(['IG', 'SG']))
    return s, list(kinds), scanner

def check_bad(ctx, ex, c, tier):
    s, kinds, scanner = c
    st_ = ctx.stats
    texts = xm.render_schema(s); load = [s.sysid]
    cfg = {'api': 'sax2', 'scanner': scanner, 'fullcheck': 1, 'route': 'cached'}
    lload, _ = run_docs(ex, texts, load, cfg, [])
    st_.note(xv.sha([texts, 'load', scanner]), True, ['lane:load'])
    prob = load_problem(lload, False)
    if prob: raise PropertyFailure({'lane': 'load', 'schemas': texts, 'load': load, 'cfg': cfg, 'expect_load_errors': False, 'note': 'bad-base'}, prob)
    pref = 'n0' if s.tns else ''
    done = 0
    for k in kinds:
        if done >= 5: break
        mt = xm.mutate_schema_text(texts[s.sysid], k, pref)
        if mt is None or mt == texts[s.sysid]: continue
        done += 1
        t2 = dict(texts); t2[s.sysid] = mt
        lload, _ = run_docs(ex, t2, load, cfg, [])
        st_.note(xv.sha([t2, 'bad', scanner]), True, ['lane:badschema', 'bad:' + k])
        prob = load_problem(lload, True)
        if prob: raise PropertyFailure({'lane': 'badschema', 'schemas': t2, 'load': load, 'cfg': cfg, 'expect_load_errors': True, 'note': k}, prob + ' (mutation %s)' % k)

# ---- replay -------------------------------------------------------------------------------------------------
def run_case(case, ex):
    cfg = case['cfg']
    try:
        if case['lane'] in ('load', 'badschema'):
            lload, _ = run_docs(ex, case['schemas'], case['load'], cfg, [])
            prob = load_problem(lload, case['expect_load_errors'])
            return (prob is None), prob or 'ok'
        if case['lane'] == 'info':
            bad = run_info(ex, case)
            return (bad is None), bad or 'ok'
        if cfg.get('route') == 'hint':
            lines = run_hint(ex, case['schemas'], cfg, case['doc'])
        else:
            lload, res = run_docs(ex, case['schemas'], case['load'], cfg, [case['doc']], mode=case.get('mode', 'err'))
            prob = load_problem(lload, False)
            if prob: return False, prob
            lines = res[0]
        if 'expect_ced' in case:
            got = [l for l in lines if l[0] in case.get('ced_kinds', ['SE', 'A', 'T', 'ERR', 'EXC'])]
            if got != case['expect_ced']: return False, 'reported information differs:\n expected %r\n actual   %r' % (case['expect_ced'], got)
            return True, 'ok'
        bad = verdict(lines, case['expect_valid'], set(case['tags']))
        return (bad is None), bad or 'ok'
    except xv.ExecutorDied as e:
        return False, 'executor died rc=%s\n%s' % (e.rc, e.stderr[-3000:])

def replay(case, ctx):
    return run_case(case, ctx.executor('xv_xsd', extra_env=XENV))

XENV = {'ASAN_OPTIONS': xv.ASAN_ENV['ASAN_OPTIONS'] + ':quarantine_size_mb=16'}

def worker(ctx):
    ex = ctx.executor('xv_xsd', extra_env=XENV)
    mult = {'cm': 1, 'deep': 2, 'bad': 1}
    for k, (name, strat, fn) in enumerate(dev_lanes(ctx, ex)):
        def prop(c, fn=fn, name=name):
            try:
                fn(c)
            except PropertyFailure:
                if os.environ.get('VERIF_STOP_AFTER_FAIL'): ctx.deadline = 0      # sensitivity runs: first detection is enough, skip shrinking
                raise
            except xv.ExecutorDied as e:
                fid = known_crash(e.stderr)
                if fid:
                    ctx.stats.excluded_known[fid] += 1; return
                if e.rc in (-9, None) and 'Sanitizer' not in (e.stderr or ''):
                    # request watchdog (no sanitizer report): never a verdict (R5); the schema is kept in the evidence for a look
                    ctx.stats.inconclusive += 1
                    w = ctx.stats.extra.setdefault('watchdog_cases', [])
                    if len(w) < 3: w.append({'lane': name, 'schema': xm.render_schema(c[0]).get('s.xsd', '')[:3000], 'cfg': c[1] if isinstance(c[1], dict) else str(c[2])})
                    return
                s = c[0]; cfg = dict(c[1]) if isinstance(c[1], dict) else {'api': 'sax2', 'scanner': c[2], 'fullcheck': 1, 'route': 'cached'}
                cfg['fullcheck'] = 1
                raise PropertyFailure({'lane': 'load', 'died_in': name, 'schemas': xm.render_schema(s), 'load': [s.sysid], 'cfg': cfg, 'expect_load_errors': False},
                                      'executor died rc=%s\n%s' % (e.rc, e.stderr[-3000:]))
        hyp_run(ctx, strat, prop, max(4, ctx.budget * mult[name]), batches=4 if name != 'bad' else 2, seed_salt=101 * k)

# ---- known findings (genuine defects found on the unchanged tree; the input classes are excluded by construction above) ------
KNOWN_DIR = os.path.join(os.path.dirname(os.path.dirname(os.path.dirname(os.path.abspath(__file__)))), 'regress-known', ID)

def known_witnesses():
    """(finding-id, case) for every stored witness of an OPEN finding (regress-known/C08/<id>.json)"""
    import json
    out = []
    for fid in ALL_EXCLUSIONS:
        path = os.path.join(KNOWN_DIR, fid + '.json')
        if os.path.exists(path):
            obj = json.load(open(path)); out.append((fid, obj.get('case', obj)))
    return out

def classify(case, detail):
    """a confirmed failure belongs to a known finding iff the failing instance is in that finding's input class (recorded by the generator
    in case['finding'], see triage_flags / FLAG2FID) or the sanitizer stack carries its signature"""
    fid = case.get('finding')
    if fid in ALL_EXCLUSIONS: return fid
    return known_crash(detail or '')

def dev_lanes(ctx, ex):
    """(name, strategy, property function) per lane -- used by the development runner and by worker()"""
    tier = ctx.tier if ctx.tier in ('quick', 'thorough') else 'quick'
    return [('cm', cm_case(tier), lambda c: check_cm(ctx, ex, c, tier)),
            ('deep', deep_case(tier), lambda c: check_deep(ctx, ex, c, tier)),
            ('bad', bad_case(tier), lambda c: check_bad(ctx, ex, c, tier))]
