"""C01 -- arbitrary input never causes memory errors, UB, hangs or foreign exceptions (libFuzzer targets with in-target oracles)."""
import base64, glob, hashlib, json, os, re, shutil, subprocess, tempfile, time, collections
import xv

ID = 'C01'
HARNESS = {'asan': ['fz_parse', 'fz_dtd', 'fz_xsd', 'fz_regex', 'fz_xsvalue', 'xvexec']}
RULE = ('coverage-guided libFuzzer campaigns (ASan+UBSan+LSan, asserts on) over 5 in-process targets: fz_parse (bytes as document + external subset + '
        'external entity + schema; API in {SAX1, SAX2, DOM, DOMLS, DOMLS+filter, progressive SAX/SAX2/DOM with abandon point} x scanner x validation x 15 '
        'feature bits x low-water mark x stream chunking x forced encoding decoded from the end of the input), fz_dtd / fz_xsd (loadGrammar), fz_regex, '
        'fz_xsvalue.  In-target oracles: exception audit (only documented Xerces exception types may escape), outcome audit, bounded work (events+chars '
        '<= (limit+2)*(input+64), limit=100) and bounded live memory (256x that).  Seeds: samples/data, M1/M2 renderings and their mutants, small '
        'schemas.  evaluations = executed units summed over processes; non-trivial = distinct final-corpus entries (sha1 of content) that reached element '
        'content (>=1 startElement) or produced an error callback, counted by replaying the merged corpus through the target in --classify mode.')
ASSUMPTIONS = ['continue-after-fatal-error=true is documented as "undetermined behaviour" and is not generated (exit-on-first-fatal stays at its default)',
               'inputs <= 64 KiB per iteration (regex <= 300 bytes, lexical values <= 400 bytes)',
               'libFuzzer -seed pins a campaign only approximately; the saved artefact is the reproducible unit',
               'timeouts/OOMs from libFuzzer are load noise (inconclusive) unless the hang reproduces 3/3 in isolation at 4x the budget',
               'patterns with more than 3 unbounded quantifiers are not explored in fz_regex (catastrophic backtracking is a performance matter)']
BUDGET = {'quick': 70, 'thorough': 1200}          # seconds of fuzzing per process (libFuzzer lanes are time-boxed; see DESIGN 1.5)
WALLCAP = {'quick': 600, 'thorough': 5400}

SEP = b'\n%%%%\n'
# worker -> target assignment (16 workers)
ASSIGN = ['fz_parse'] * 9 + ['fz_dtd', 'fz_dtd', 'fz_xsd', 'fz_xsd', 'fz_xsd', 'fz_regex', 'fz_xsvalue']
DICT = {'fz_parse': 'xml.dict', 'fz_dtd': 'xml.dict', 'fz_xsd': 'xsd.dict', 'fz_regex': 'regex.dict', 'fz_xsvalue': None}
# finding id -> regex on the sanitizer/oracle report (known findings; see known_findings.json).  Both classes are excluded from the campaigns by
# construction (LSan suppression file / input filter in fz_regex, counted) and their witnesses are replayed without the exclusion on every run.
KNOWN = {'C01-dtd-contentspec-leak': r'LeakSanitizer: detected memory leaks[^\n]*DTDScanner::scan(Children|Mixed)',
         'C01-regex-nested-closure-recursion': r'stack-overflow[^\n]*RegularExpression::',
         'C01-regex-nongreedy-zero-width-loop': r'libFuzzer: timeout[^\n]*RegularExpression::match',
         'C01-regex-counted-quantifier-unrolling': r'libFuzzer: timeout[^\n]*(compileClosure|createQuestionOp|OpFactory::|RegularExpression::compile)'}
SUPP = os.path.join(xv.VERIF, 'harness', 'lsan_known.supp')

def cfg_suffix(i):
    """9 configuration bytes as fz_parse consumes them from the end: [steps, enc, chunk, lowwater, bits_lo, bits_hi, val, scanner, api]"""
    api = [1, 2, 0, 3, 1, 5, 6, 4][i % 8]; sc = [0, 0, 2, 3, 1][(i // 3) % 5]; val = [0, 2, 1][(i // 5) % 3]
    bits = [0x0031, 0x007f, 0x0025, 0x1fff, 0x0001, 0x0071][(i // 2) % 6]
    return bytes([255, 0, (i // 7) % 7, 0, bits & 255, bits >> 8, val, sc, api])

def make_seed_corpus(target, dest):
    """writes the starting corpus for a target into dest (deterministic)"""
    os.makedirs(dest, exist_ok=True)
    cdir = os.path.join(xv.VERIF, 'corpus', target)
    n = 0
    for p in sorted(glob.glob(os.path.join(cdir, '*'))):
        shutil.copy(p, os.path.join(dest, 'c%04d' % n)); n += 1
    repo = os.environ.get('VERIF_REPO', '/repo')
    data = os.path.join(repo, 'samples', 'data')
    def rd(name):
        try: return open(os.path.join(data, name), 'rb').read()
        except Exception: return b''
    if target == 'fz_parse':
        dtd = rd('personal.dtd'); xsd = rd('personal.xsd')
        docs = [rd('personal.xml'), rd('personal-schema.xml'), b'<a xmlns:p="urn:p"><p:b/>t&amp;<![CDATA[c]]><!--c--><?pi d?></a>',
                b'<?xml version="1.1"?><!DOCTYPE a SYSTEM "x.dtd" [<!ENTITY e "v"><!ENTITY x SYSTEM "e.ent">]><a>&e;&x;</a>',
                '﻿<a>é中</a>'.encode('utf-16-le')]
        for i, d in enumerate(docs):
            for j in range(4):
                open(os.path.join(dest, 's%02d_%d' % (i, j)), 'wb').write(d + SEP + dtd + SEP + b'<?xml encoding="UTF-8"?>ext<i/>' + SEP + xsd + cfg_suffix(i * 4 + j))
    elif target == 'fz_dtd':
        for i, d in enumerate([rd('personal.dtd'), rd('redirect.dtd'), b'<!ELEMENT a (b|c)*><!ATTLIST a x CDATA #IMPLIED y (u|v) "u"><!ENTITY % p "<!ELEMENT b EMPTY>">%p;<![INCLUDE[<!ELEMENT c ANY>]]>']):
            open(os.path.join(dest, 's%02d' % i), 'wb').write(d + cfg_suffix(i))
    elif target == 'fz_xsd':
        for i, d in enumerate([rd('personal.xsd'), b'<xs:schema xmlns:xs="http://www.w3.org/2001/XMLSchema"><xs:element name="r"><xs:complexType><xs:sequence><xs:element name="a" type="xs:int" maxOccurs="3"/></xs:sequence><xs:attribute name="x" type="xs:date" use="required"/></xs:complexType><xs:unique name="u"><xs:selector xpath="a"/><xs:field xpath="."/></xs:unique></xs:element><xs:simpleType name="t"><xs:restriction base="xs:string"><xs:pattern value="[a-z]{2,3}\\p{L}"/></xs:restriction></xs:simpleType></xs:schema>']):
            open(os.path.join(dest, 's%02d' % i), 'wb').write(d + cfg_suffix(i))
    elif target == 'fz_regex':
        for i, d in enumerate([b'(a|ab)(c|bcd)\nabcd', b'[a-z-[aeiou]]{2,3}\\p{L}\nbcd\xc3\xa9', b'\\i\\c*\nfoo:bar', b'a(?=b)\\1(?<x>)\nab']):
            open(os.path.join(dest, 's%02d' % i), 'wb').write(d + bytes([i % 4, i * 3 % 14]))
    elif target == 'fz_xsvalue':
        for i, d in enumerate([b'2000-02-29T24:00:00Z', b'-1.5E-3', b'P1Y2M3DT4H5M6.7S', b'aGVsbG8=', b'0FB7', b'+0012.3400', b'xs:foo', b'true']):
            open(os.path.join(dest, 's%02d' % i), 'wb').write(d + bytes([i % 4, i % 2, (i * 5) % 44]))
    return dest

def run_fuzz(target, corpus, art, seconds, seed, log):
    exe = xv.harness_path(target)
    args = [exe, corpus, '-max_total_time=%d' % seconds, '-seed=%d' % seed, '-timeout=25', '-rss_limit_mb=6000', '-malloc_limit_mb=4000', '-max_len=16384',
            '-artifact_prefix=' + art + '/', '-print_final_stats=1', '-len_control=50', '-use_value_profile=0', '-reload=0']
    d = DICT.get(target)
    if d: args.append('-dict=' + os.path.join(xv.VERIF, 'dict', d))
    env = dict(os.environ); env.update(xv.ASAN_ENV)
    env['ASAN_OPTIONS'] = 'detect_leaks=1:abort_on_error=0:allocator_may_return_null=1:symbolize=1:handle_segv=1:quarantine_size_mb=32:detect_stack_use_after_return=0'
    env['LSAN_OPTIONS'] = 'suppressions=%s:print_suppressions=0' % SUPP
    with open(log, 'wb') as lf:
        # libFuzzer stops at the first crash; restart until the time budget is used, so the search continues behind a finding
        t_end = time.time() + seconds; rounds = 0; execs = 0
        while time.time() < t_end - 3 and rounds < 8:
            left = int(t_end - time.time()); args[2] = '-max_total_time=%d' % left; args[3] = '-seed=%d' % (seed + rounds * 7919)
            p = subprocess.run(args, stdout=subprocess.DEVNULL, stderr=subprocess.PIPE, env=env, timeout=seconds + 300)
            lf.write(p.stderr); rounds += 1
            m = re.findall(rb'stat::number_of_executed_units:\s+(\d+)', p.stderr)
            if m: execs += int(m[-1])
            else:
                m = re.findall(rb'^#(\d+)\s', p.stderr, re.M)
                if m: execs += int(m[-1])
            if p.returncode == 0: break
    return execs, rounds

def classify_corpus(target, corpus):
    """replay the corpus once in --classify mode -> (distinct non-trivial count, histogram)"""
    if target not in ('fz_parse', 'fz_dtd', 'fz_xsd'):
        files = [f for f in glob.glob(os.path.join(corpus, '*')) if os.path.isfile(f)]
        return len(files), {target + ':corpus': len(files)}, [hashlib.sha1(open(f, 'rb').read()).hexdigest()[:16] for f in files]
    env = dict(os.environ); env.update(xv.ASAN_ENV); env['ASAN_OPTIONS'] = 'detect_leaks=0:allocator_may_return_null=1'
    hist = collections.Counter(); nt = []
    files = sorted(f for f in glob.glob(os.path.join(corpus, '*')) if os.path.isfile(f))
    for i in range(0, len(files), 400):
        chunk = files[i:i + 400]
        try:
            p = subprocess.run([xv.harness_path(target), '--classify'] + chunk, stdout=subprocess.PIPE, stderr=subprocess.DEVNULL, env=env, timeout=600)
        except subprocess.TimeoutExpired:
            continue
        lines = [l.split('\t') for l in p.stdout.decode('ascii', 'replace').split('\n') if l.startswith('CLASS\t')]
        for f, l in zip(chunk, lines):
            hist['%s/%s/%s/val%s:%s' % (target, l[1], l[2], l[3], l[4])] += 1
            if l[4] in ('content', 'error'): nt.append(hashlib.sha1(open(f, 'rb').read()).hexdigest()[:16])
    return len(set(nt)), dict(hist), nt

def report_of(log_bytes):
    txt = log_bytes.decode('utf-8', 'replace')
    m = re.search(r'(==XV-ORACLE==[^\n]*\n[^\n]*|ERROR: AddressSanitizer[^\n]*|runtime error:[^\n]*|ERROR: LeakSanitizer[^\n]*|ERROR: libFuzzer[^\n]*|deadly signal)', txt)
    head = m.group(1) if m else '(no report header)'
    frames = re.findall(r'#\d+ 0x[0-9a-f]+ in (xercesc_4_0::[^\s(]+)', txt)[:4]
    return head + ' @ ' + ' < '.join(frames), txt[-6000:]

def replay_input(target, data, timeout=120, libfuzzer_timeout=100, strict=False):
    """-> (ok, detail, kind)  kind in ok|crash|timeout"""
    d = tempfile.mkdtemp(prefix='verif.c01.')
    try:
        f = os.path.join(d, 'in'); open(f, 'wb').write(data)
        env = dict(os.environ); env.update(xv.ASAN_ENV)
        env['ASAN_OPTIONS'] = 'detect_leaks=1:abort_on_error=0:allocator_may_return_null=1:symbolize=1:handle_segv=1:detect_stack_use_after_return=0'
        if strict: env['XV_NO_FILTER'] = '1'; env.pop('LSAN_OPTIONS', None)     # known-finding witness: no suppression, no input filter
        else: env['LSAN_OPTIONS'] = 'suppressions=%s:print_suppressions=0' % SUPP
        try:
            p = subprocess.run([xv.harness_path(target), '-timeout=%d' % libfuzzer_timeout, '-rss_limit_mb=8000', '-artifact_prefix=' + d + '/', f],
                               stdout=subprocess.DEVNULL, stderr=subprocess.PIPE, env=env, timeout=timeout + 60)
        except subprocess.TimeoutExpired:
            return False, 'replay exceeded %ds' % (timeout + 60), 'timeout'
        if p.returncode == 0: return True, 'ok', 'ok'
        head, tail = report_of(p.stderr)
        kind = 'timeout' if b'ERROR: libFuzzer: timeout' in p.stderr else ('oom' if b'out-of-memory' in p.stderr else 'crash')
        return False, head + '\n' + tail[-2500:], kind
    finally:
        shutil.rmtree(d, ignore_errors=True)

# ---------------------------------------------------------------------------------------------------
# hostile-structure lane (structured stress the byte mutator will not invent); run by worker 0 through xvexec
# ---------------------------------------------------------------------------------------------------
def hostile_docs(tier):
    big = tier == 'thorough'
    D = 20000 if big else 4000
    docs = []
    docs.append(('deep-nesting', ['sax2', 'sax1'], '<a>' * D + 'x' + '</a>' * D, {}))
    docs.append(('deep-nesting-ns', ['sax2'], ''.join('<p%d:e xmlns:p%d="urn:%d">' % (i % 50, i % 50, i) for i in range(D // 4)) + ''.join('</p%d:e>' % (i % 50) for i in reversed(range(D // 4))), {}))
    docs.append(('many-attributes', ['sax2', 'dom'], '<a ' + ' '.join('a%d="%d"' % (i, i) for i in range(D)) + '/>', {}))
    docs.append(('long-name', ['sax2', 'dom'], '<' + 'n' * 70000 + ' ' + 'm' * 40000 + '="v"/>', {}))
    docs.append(('long-attr-value', ['sax2', 'dom'], '<a v="' + 'x&amp;\u00e9' * 20000 + '"/>', {}))
    docs.append(('long-text-cdata-comment-pi', ['sax2', 'dom'], '<a>' + 't' * 70000 + '<![CDATA[' + 'c' * 70000 + ']]><!--' + 'k' * 70000 + '--><?p ' + 'd' * 70000 + '?></a>', {}))
    docs.append(('xmldecl-padding', ['sax2'], '<?xml version="1.0"' + ' ' * 20000 + 'encoding="UTF-8"' + ' ' * 20000 + '?><a/>', {}))
    docs.append(('doctype-long-ids', ['sax2', 'dom'], '<!DOCTYPE a PUBLIC "' + 'p' * 50000 + '" "' + 's' * 50000 + '.dtd" [<!ENTITY e "' + 'v' * 60000 + '">]><a>&e;</a>', {}))
    docs.append(('entity-tower-at-limit', ['sax2', 'dom'], '<!DOCTYPE a [<!ENTITY e0 "x">' + ''.join('<!ENTITY e%d "&e%d;">' % (i + 1, i) for i in range(98)) + ']><a>&e98;</a>', {}))
    docs.append(('optional-run-content-model', ['sax2'], '<!DOCTYPE a [<!ELEMENT a (' + ','.join(['b?'] * 200) + ')><!ELEMENT b EMPTY>]><a>' + '<b/>' * 100 + '</a>', {'val': 1}))
    docs.append(('nested-content-model', ['sax2'], '<!DOCTYPE a [<!ELEMENT a ' + '(' * 600 + 'b' + ')*' * 600 + '><!ELEMENT b EMPTY>]><a><b/></a>', {'val': 1}))
    docs.append(('many-entities-decl', ['sax2', 'dom'], '<!DOCTYPE a [' + ''.join('<!ENTITY x%d "%d">' % (i, i) for i in range(D)) + ']><a>&x7;</a>', {}))
    docs.append(('many-ids', ['sax2'], '<!DOCTYPE a [<!ELEMENT a (b*)><!ELEMENT b EMPTY><!ATTLIST b i ID #REQUIRED r IDREF #IMPLIED>]><a>' + ''.join('<b i="i%d" r="i%d"/>' % (i, (i * 7) % D) for i in range(D)) + '</a>', {'val': 1}))
    xsd = '<xs:schema xmlns:xs="http://www.w3.org/2001/XMLSchema"><xs:element name="r"><xs:complexType><xs:sequence><xs:element name="a" minOccurs="0" maxOccurs="1000000000"/>' \
          '<xs:sequence minOccurs="2" maxOccurs="40"><xs:element name="b" minOccurs="0" maxOccurs="2"/><xs:element name="c"/></xs:sequence></xs:sequence></xs:complexType></xs:element></xs:schema>'
    docs.append(('huge-maxoccurs', ['sax2', 'dom'], '<r xmlns:xsi="http://www.w3.org/2001/XMLSchema-instance" xsi:noNamespaceSchemaLocation="h.xsd">' + '<a/>' * 50 + '<b/><c/><c/>' + '</r>', {'val': 1, 'schema': 1, 'fullcheck': 0, 'ent:h.xsd': xsd}))
    # exponential entity chains under an expansion limit of 100: work must stay bounded by (limit+2)*(input+64) events+characters whatever mixture of
    # internal and EXTERNAL general entities carries the chain (external entities are served by the resolver)
    def bomb(levels, fan, leaf, mid_ext=None):
        decl = ['<!ENTITY e0 "%s">' % leaf]
        for i in range(1, levels + 1):
            body = ('&e%d;' % (i - 1)) * fan
            if mid_ext is not None and i == mid_ext: body = '&x;' + body
            decl.append('<!ENTITY e%d "%s">' % (i, body))
        return '<!DOCTYPE a [<!ENTITY x SYSTEM "x.ent">' + ''.join(decl) + ']><a>&e%d;</a>' % levels
    docs.append(('bomb-internal', ['sax2', 'sax1', 'dom'], bomb(5, 8, 'lol'), {'bounded': 1, 'ent:x.ent': 'X'}))
    docs.append(('bomb-external-leaf', ['sax2', 'sax1', 'dom'], bomb(5, 8, 'l&x;l'), {'bounded': 1, 'ent:x.ent': 'X'}))
    docs.append(('bomb-external-mid', ['sax2', 'sax1', 'dom'], bomb(5, 8, 'lol', mid_ext=2), {'bounded': 1, 'ent:x.ent': '<i>X</i>'}))
    docs.append(('bomb-external-nested', ['sax2', 'dom'], bomb(4, 9, '&x;'), {'bounded': 1, 'ent:x.ent': 'text &#38;amp; more'}))
    return docs

def work_of(resp):
    """events + characters delivered, from the canonical event dump (character count from the escaped text: an under-estimate)"""
    n = 0
    for l in resp.split('\n'):
        if not l: continue
        n += 1
        if l.startswith(('T\t', 'IW\t')): n += len(l) - 2
    return n

def hostile_lane(ctx):
    S = ctx.stats; ex = ctx.executor('xvexec')
    for name, apis, text, opt in hostile_docs(ctx.tier):
        for api in apis:
            for scanner in (['IG', 'DG'] if '<!DOCTYPE' in text else ['IG', 'WF', 'SG']):
                feat = 'ns=1;scanner=%s;val=%d;schema=%d;fullcheck=%d;secmgr=100' % (scanner, opt.get('val', 0), opt.get('schema', 0), opt.get('fullcheck', 0))
                req = {'kind': 'parse', 'api': api, 'feat': feat, 'doc': text.encode('utf-8')}
                for k, v in opt.items():
                    if k.startswith('ent:'): req[k] = v.encode()
                S.evaluations += 1; S.labels['hostile:' + name] += 1; S.nontrivial.add('hostile:%s:%s:%s' % (name, api, scanner))
                try:
                    resp = ex.request(req, timeout=90)
                    if xv.has_foreign(resp):
                        S.failures.append({'case': {'hostile': name, 'api': api, 'feat': feat, 'tier': ctx.tier}, 'detail': 'foreign exception from parse() on hostile document %s' % name})
                    if opt.get('bounded') and work_of(resp) > 102 * (len(text) + 64):
                        S.failures.append({'case': {'hostile': name, 'api': api, 'feat': feat, 'tier': ctx.tier}, 'detail': 'bounded-work: %d events+characters delivered for a %d-byte document under an entity-expansion limit of 100 (bound %d)' % (work_of(resp), len(text), 102 * (len(text) + 64))})
                except xv.ExecutorDied as e:
                    if e.rc in (-9,) and 'ERROR' not in e.stderr: S.inconclusive += 1; S.labels['hostile-watchdog:' + name] += 1; continue
                    S.failures.append({'case': {'hostile': name, 'api': api, 'feat': feat, 'tier': ctx.tier}, 'detail': 'executor died rc=%s on hostile document %s\n%s' % (e.rc, name, e.stderr[-3000:])})

def worker(ctx):
    S = ctx.stats
    if ctx.worker == 0:
        try: hostile_lane(ctx)
        finally: ctx.close()
    target = ASSIGN[ctx.worker % len(ASSIGN)]
    if ctx.nworkers < len(ASSIGN):
        target = ['fz_parse', 'fz_xsd', 'fz_dtd', 'fz_parse', 'fz_regex', 'fz_xsvalue', 'fz_parse', 'fz_parse'][ctx.worker % 8]
    base = tempfile.mkdtemp(prefix='verif.c01.')
    try:
        corpus = make_seed_corpus(target, os.path.join(base, 'corpus')); art = os.path.join(base, 'art'); os.makedirs(art)
        log = os.path.join(base, 'log')
        execs, rounds = run_fuzz(target, corpus, art, ctx.budget, ctx.seed * 1000 + ctx.worker + 1, log)
        S.evaluations += execs
        S.labels['execs:' + target] += execs; S.labels['processes:' + target] += 1; S.labels['restarts_after_crash'] += max(0, rounds - 1)
        n, hist, hashes = classify_corpus(target, corpus)
        for h in hashes: S.nontrivial.add(target + ':' + h)
        for k, v in hist.items(): S.labels[k] += v
        files = sorted(glob.glob(os.path.join(corpus, '*')))
        for f in files[-2:]:
            S.sample({'target': target, 'input_tail': repr(open(f, 'rb').read()[-160:])}, limit=2)
        seen = set()
        for a in sorted(glob.glob(os.path.join(art, '*'))):
            name = os.path.basename(a); data = open(a, 'rb').read()
            kind = name.split('-')[0]
            if kind in ('slow', 'oom'):
                S.inconclusive += 1; S.labels['artifact:' + kind] += 1; continue
            case = {'target': target, 'input_b64': base64.b64encode(data).decode(), 'artifact': kind}
            if kind == 'timeout':
                case['hang'] = True
            ok, detail, rkind = replay_input(target, data)
            if ok or (rkind in ('timeout', 'oom') and kind != 'timeout'):
                S.inconclusive += 1; S.labels['artifact-not-reproduced:' + kind] += 1; continue
            sig = detail.split('\n')[0][:200]
            if sig in seen: S.labels['duplicate-bucket'] += 1; continue
            seen.add(sig)
            S.failures.append({'case': case, 'detail': 'libFuzzer artefact %s (%d bytes): %s' % (name, len(data), detail)})
    finally:
        shutil.rmtree(base, ignore_errors=True)

def replay(case, ctx):
    if 'hostile' in case:
        ex = ctx.executor('xvexec')
        for name, apis, text, opt in hostile_docs(case.get('tier', 'quick')):
            if name != case['hostile']: continue
            req = {'kind': 'parse', 'api': case['api'], 'feat': case['feat'], 'doc': text.encode('utf-8')}
            for k, v in opt.items():
                if k.startswith('ent:'): req[k] = v.encode()
            try:
                resp = ex.request(req, timeout=480)
                if opt.get('bounded') and work_of(resp) > 102 * (len(text) + 64): return False, 'bounded-work: %d events+characters for %d bytes' % (work_of(resp), len(text))
                return (not xv.has_foreign(resp)), 'foreign exception' if xv.has_foreign(resp) else 'ok'
            except xv.ExecutorDied as e:
                if e.rc == -9 and 'ERROR' not in e.stderr: return True, 'inconclusive: watchdog'
                return False, 'executor died rc=%s\n%s' % (e.rc, e.stderr[-3000:])
        return True, 'unknown hostile document'
    if 'doc_file' in case:      # raw regression document (no configuration bytes): run it under a spread of configurations
        data = open(os.path.join(xv.VERIF, case['doc_file']), 'rb').read()
        tgt = case.get('target', 'fz_parse')
        for i in range(0, 24, 1 if tgt == 'fz_parse' else 6):
            body = data + (SEP + b'' + SEP + b'' + SEP + b'' if tgt == 'fz_parse' else b'') + cfg_suffix(i)
            ok, detail, kind = replay_input(tgt, body)
            if not ok and kind == 'crash': return False, 'config %d: %s' % (i, detail)
        return True, 'ok'
    data = base64.b64decode(case['input_b64'])
    ok, detail, kind = replay_input(case['target'], data, strict=bool(case.get('known')), **({'timeout': case['timeout_s'] + 20, 'libfuzzer_timeout': case['timeout_s']} if case.get('timeout_s') else {}))
    if ok: return True, 'ok'
    if kind in ('timeout', 'oom') and not case.get('hang'): return True, 'inconclusive: ' + kind
    if kind == 'oom': return True, 'inconclusive: oom'
    return False, detail

def nongreedy_nullable(pat):
    """mirror of the input filter in harness/fz_regex.cpp: a non-greedy closure whose operand is not a plain character, '.', or a class"""
    for m in re.finditer(rb'(\*|\+|\{[^{}]*\})\?', pat):
        k = m.start()
        if k == 0: return True
        o = pat[k - 1]
        simple = (chr(o).isalnum() or o in b'.]' or o >= 0x80) and not (k >= 2 and pat[k - 2] == 0x5C)
        if not simple: return True
    return False

def classify(case, detail):
    for fid, rx in KNOWN.items():
        if re.search(rx, detail):
            if fid == 'C01-regex-counted-quantifier-unrolling':
                if not re.search(rb'\{[^{}]*\d{4,}[^{}]*\}', base64.b64decode(case.get('input_b64', ''))): continue
                return fid
            if fid == 'C01-regex-nongreedy-zero-width-loop':
                body = base64.b64decode(case.get('input_b64', ''))[:-2]
                if case.get('target') != 'fz_regex' or not nongreedy_nullable(body.split(b'\n')[0]): continue
            return fid
    return None

def known_witnesses():
    out = []
    for fid in KNOWN:
        p = os.path.join(xv.VERIF, 'regress-known', 'C01', fid + '.json')
        if os.path.exists(p): out.append((fid, json.load(open(p))['case']))
    return out

def bucket(case, detail):
    """one bucket per (target, report head + top Xerces frames): the first line of the detail carries exactly that"""
    m = re.search(r'(==XV-ORACLE==[^\n]*|ERROR: [A-Za-z]+Sanitizer[^\n@]*|runtime error:[^\n@]*|ERROR: libFuzzer[^\n@]*)(@[^\n]*)?', detail)
    head = (re.sub(r'0x[0-9a-f]+', 'ADDR', m.group(1)) + (m.group(2) or '')) if m else detail[:120]
    return 'bucket:' + case.get('target', case.get('hostile', '?')) + ':' + head[:300]
