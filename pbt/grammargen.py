"""grammargen.py -- modest generator of XML Schema and DTD grammars plus instance documents (valid and deliberately invalid) for C16.

A schema is assembled from *feature modules*.  Every module contributes global declarations, one particle of the root element's
content model (element m<i>), optionally attributes of the root element, and instance fragments: valid ones and invalid ones, each
invalid fragment labelled with the component kind it violates.  Validity is known by construction for the fragments; the C16 oracle is
differential (pool A vs restored pools), so the labels are only used to *measure* non-triviality (an instance aimed at component kind K
that the original pool indeed rejects).

Everything random comes from Hypothesis `draw`.
"""
from hypothesis import strategies as st

XS = 'http://www.w3.org/2001/XMLSchema'
XSI = 'http://www.w3.org/2001/XMLSchema-instance'

def S(draw, seq): return draw(st.sampled_from(list(seq)))
def I(draw, a, b): return draw(st.integers(a, b))
def B(draw): return draw(st.booleans())

def xa(s):
    return s.replace('&', '&amp;').replace('<', '&lt;').replace('"', '&quot;')

# -------------------------------------------------------------------------------------------------
# simple type templates: -> dict(body=xsd content of <xs:simpleType>, valid=[...], invalid=[...], kinds={...})
# -------------------------------------------------------------------------------------------------
def annot(draw, p=4):
    if I(draw, 0, p) != 0: return ''
    return '<xs:annotation><xs:documentation xml:lang="en">doc %d &amp; more</xs:documentation><xs:appinfo source="urn:app"><x y="1">i</x></xs:appinfo></xs:annotation>' % I(draw, 0, 99)

def st_templates(draw, tp):
    """tp: prefix for references to the target namespace ('t:' or '')"""
    k = I(draw, 0, 17)
    fx = ' fixed="true"' if I(draw, 0, 3) == 0 else ''
    if k == 0:
        n = I(draw, 1, 4)
        return dict(body='<xs:restriction base="xs:string"><xs:length value="%d"%s/></xs:restriction>' % (n, fx), valid=['x' * n, ' ' * n], invalid=['x' * (n + 1), ''], kinds={'facet:length'})
    if k == 1:
        a = I(draw, 0, 2); b = a + I(draw, 0, 3)
        return dict(body='<xs:restriction base="xs:string"><xs:minLength value="%d"/><xs:maxLength value="%d"%s/></xs:restriction>' % (a, b, fx),
                    valid=['y' * a, 'y' * b], invalid=['y' * (b + 1)] + (['y' * (a - 1)] if a else []), kinds={'facet:minLength', 'facet:maxLength'})
    if k == 2:
        pat, good, bad = S(draw, [('[a-c]{2,3}\\d?', ['abc', 'ab1'], ['abcd1', 'x']), ('\\p{Lu}[a-z]*', ['Abc', 'Z'], ['abc', 'AB']),
                                  ('(ab|cd)+', ['abcd', 'cd'], ['abc', '']), ('[^0-9]{1,3}', ['a-b', 'x'], ['a1', 'abcd']),
                                  ('\\d{3}-\\d{2}', ['123-45'], ['12-345', '123-4x']), ('[\\i-[:]][\\c-[:]]*', ['a.b', '_x1'], ['1a', 'a:b'])])
        two = I(draw, 0, 3) == 0
        return dict(body='<xs:restriction base="xs:token"><xs:pattern value="%s"/>%s</xs:restriction>' % (xa(pat), '<xs:pattern value="zz"/>' if two else ''),
                    valid=good + (['zz'] if two else []), invalid=bad, kinds={'facet:pattern'})
    if k == 3:
        vals = S(draw, [['red', 'green', 'dark blue'], ['a', 'b'], ['1', '02', '3']])
        base = 'xs:string'
        return dict(body='<xs:restriction base="%s">%s%s</xs:restriction>' % (base, annot(draw), ''.join('<xs:enumeration value="%s"/>' % v for v in vals)),
                    valid=vals[:2], invalid=['blue', vals[0] + ' '], kinds={'facet:enumeration'})
    if k == 4:
        ws = S(draw, ['collapse', 'replace'])
        if ws == 'collapse':
            return dict(body='<xs:restriction base="xs:normalizedString"><xs:whiteSpace value="collapse"/><xs:length value="3"/></xs:restriction>',
                        valid=['  a b  ', 'abc', 'a\n\tb'], invalid=['a  bc', 'ab'], kinds={'facet:whiteSpace', 'facet:length'})
        return dict(body='<xs:restriction base="xs:string"><xs:whiteSpace value="replace"/><xs:pattern value="a b"/></xs:restriction>',
                    valid=['a b', 'a\tb', 'a\nb'], invalid=['a  b', 'ab'], kinds={'facet:whiteSpace', 'facet:pattern'})
    if k == 5:
        lo = I(draw, -5, 5); hi = lo + I(draw, 0, 10); base = S(draw, ['xs:integer', 'xs:int', 'xs:long', 'xs:short', 'xs:decimal'])
        return dict(body='<xs:restriction base="%s"><xs:minInclusive value="%d"%s/><xs:maxInclusive value="%d"/></xs:restriction>' % (base, lo, fx, hi),
                    valid=[str(lo), str(hi), ' %d ' % lo], invalid=[str(lo - 1), str(hi + 1), 'x'], kinds={'facet:minInclusive', 'facet:maxInclusive'})
    if k == 6:
        lo = I(draw, -3, 3); hi = lo + I(draw, 2, 6)
        return dict(body='<xs:restriction base="xs:decimal"><xs:minExclusive value="%d"/><xs:maxExclusive value="%d.5"/><xs:totalDigits value="4"/><xs:fractionDigits value="2"%s/></xs:restriction>' % (lo, hi, fx),
                    valid=['%d.25' % (lo + 1), '%d' % hi, '+%d.0' % (lo + 1)], invalid=[str(lo), '%d.5' % hi, '%d.125' % (lo + 1)],
                    kinds={'facet:minExclusive', 'facet:maxExclusive', 'facet:totalDigits', 'facet:fractionDigits'})
    if k == 7:
        typ, lo, hi, good, bad = S(draw, [('xs:date', '2001-01-01', '2010-12-31', ['2001-01-01', '2005-06-15', '2010-12-30'], ['2000-12-31', '2010-12-31', '2005-13-01']),
                                          ('xs:dateTime', '2001-01-01T00:00:00Z', '2002-01-01T00:00:00Z', ['2001-06-01T12:30:00Z', '2001-01-01T01:00:00+01:00'], ['2002-01-01T00:00:00Z', '2001-06-01']),
                                          ('xs:time', '08:00:00', '17:00:00', ['08:00:00', '12:30:15.5'], ['17:00:00', '7:00:00']),
                                          ('xs:gYear', '1990', '2000', ['1990', '1999'], ['2000', '99']),
                                          ('xs:duration', 'P1D', 'P1Y', ['P1D', 'P2M', 'PT36H'], ['P1Y', 'PT1H', '1D']),
                                          ('xs:gYearMonth', '2001-01', '2001-12', ['2001-01', '2001-11'], ['2001-12', '2001-1'])])
        return dict(body='<xs:restriction base="%s"><xs:minInclusive value="%s"/><xs:maxExclusive value="%s"/></xs:restriction>' % (typ, lo, hi), valid=good, invalid=bad,
                    kinds={'facet:minInclusive', 'facet:maxExclusive', 'dv:' + typ[3:]})
    if k == 8:
        typ = S(draw, ['xs:double', 'xs:float'])
        return dict(body='<xs:restriction base="%s"><xs:maxInclusive value="1.0E2"/><xs:minExclusive value="-1"/></xs:restriction>' % typ,
                    valid=['1.5', '100', '1e2', '-0.5'], invalid=['100.5', '-1', 'abc', 'INF'], kinds={'facet:maxInclusive', 'facet:minExclusive', 'dv:' + typ[3:]})
    if k == 9:
        if B(draw):
            return dict(body='<xs:restriction base="xs:hexBinary"><xs:length value="2"/></xs:restriction>', valid=['0aFF', '0000'], invalid=['0a', '0g11', '0aFF00'], kinds={'facet:length', 'dv:hexBinary'})
        return dict(body='<xs:restriction base="xs:base64Binary"><xs:maxLength value="3"/></xs:restriction>', valid=['YWJj', 'YQ=='], invalid=['YWJjZA==', '!!'], kinds={'facet:maxLength', 'dv:base64Binary'})
    if k == 10:
        return dict(body='<xs:restriction base="xs:boolean"><xs:pattern value="[01]"/></xs:restriction>', valid=['1', '0'], invalid=['true', '2'], kinds={'facet:pattern', 'dv:boolean'})
    if k == 11:
        typ, good, bad = S(draw, [('xs:anyURI', ['http://a/b', 'urn:x'], ['other']), ('xs:language', ['en', 'en-US'], ['fr']), ('xs:NMTOKEN', ['a.b', '1x'], ['zz']), ('xs:NCName', ['a', '_b'], ['c'])])
        return dict(body='<xs:restriction base="%s">%s</xs:restriction>' % (typ, ''.join('<xs:enumeration value="%s"/>' % v for v in good)), valid=good, invalid=bad + ['a b'], kinds={'facet:enumeration', 'dv:' + typ[3:]})
    if k == 12:
        n = I(draw, 1, 3); item = S(draw, ['xs:int', 'xs:NMTOKEN', 'xs:date'])
        one = {'xs:int': '7', 'xs:NMTOKEN': 'tok', 'xs:date': '2001-01-01'}[item]
        return dict(body='<xs:restriction><xs:simpleType><xs:list itemType="%s"/></xs:simpleType><xs:length value="%d"/></xs:restriction>' % (item, n),
                    valid=[' '.join([one] * n), '  ' + '  '.join([one] * n)], invalid=[' '.join([one] * (n + 1)), ' '.join(['@@'] * n)], kinds={'list', 'facet:length'})
    if k == 13:
        return dict(body='<xs:list><xs:simpleType><xs:restriction base="xs:integer"><xs:maxInclusive value="9"/></xs:restriction></xs:simpleType></xs:list>',
                    valid=['1 2 3', '', '9'], invalid=['1 10', 'a'], kinds={'list', 'facet:maxInclusive'})
    if k == 14:
        return dict(body='<xs:union memberTypes="xs:int xs:date"><xs:simpleType><xs:restriction base="xs:string"><xs:enumeration value="none"/></xs:restriction></xs:simpleType></xs:union>',
                    valid=['42', '2001-01-01', 'none'], invalid=['some', '4.2'], kinds={'union', 'facet:enumeration'})
    if k == 15:
        return dict(body='<xs:restriction><xs:simpleType><xs:union memberTypes="xs:int xs:boolean"/></xs:simpleType><xs:enumeration value="1"/><xs:enumeration value="true"/><xs:pattern value="[a-z0-9]+"/></xs:restriction>',
                    valid=['1', 'true'], invalid=['2', 'false'], kinds={'union', 'facet:enumeration', 'facet:pattern'})
    if k == 16:
        return dict(body='<xs:restriction base="xs:QName"><xs:enumeration value="xs:int"/><xs:enumeration value="xs:date"/></xs:restriction>', valid=['xs:int', 'xs:date'], invalid=['xs:long', 'int'],
                    kinds={'facet:enumeration', 'dv:QName'}, needs_xs=True)
    return dict(body='<xs:restriction base="xs:unsignedByte"><xs:totalDigits value="2"/></xs:restriction>', valid=['0', '99'], invalid=['100', '-1'], kinds={'facet:totalDigits', 'dv:unsignedByte'})

# -------------------------------------------------------------------------------------------------
# feature modules.  ctx: dict(tp: prefix for tns refs, i: module index).  el(name) -> instance element name (default namespace = tns)
# Every module returns dict(decls, particle, rootattrs='', rootattr_inst_valid='', valid=[frag], invalid=[(kind, frag)], kinds=set())
# -------------------------------------------------------------------------------------------------
def occurs(draw, allow_zero=True):
    lo = I(draw, 0 if allow_zero else 1, 2); hi = S(draw, [lo, lo + 1, lo + 3, 'unbounded'])
    if hi == 0: hi = 1
    s = ''
    if lo != 1: s += ' minOccurs="%d"' % lo
    if hi != 1: s += ' maxOccurs="%s"' % hi
    return lo, hi, s

def mod_simple(draw, c):
    i = c['i']; t = st_templates(draw, c['tp']); name = 'st%d' % i
    decls = '<xs:simpleType name="%s">%s%s</xs:simpleType>' % (name, annot(draw), t['body'])
    kinds = set(t['kinds'])
    use_attr = B(draw)
    if I(draw, 0, 3) == 0:      # second derivation step from the user type
        decls += '<xs:simpleType name="%sd"><xs:restriction base="%s%s"/></xs:simpleType>' % (name, c['tp'], name); name += 'd'; kinds.add('derived-simple')
    lo, hi, occ = occurs(draw)
    if use_attr:
        part = '<xs:element name="m%d"%s><xs:complexType><xs:attribute name="v" type="%s%s" use="required"/></xs:complexType></xs:element>' % (i, occ, c['tp'], name)
        mk = lambda v: '<m%d v="%s"/>' % (i, xa(v).replace('\n', '&#10;').replace('\t', '&#9;'))
    else:
        part = '<xs:element name="m%d" type="%s%s"%s/>' % (i, c['tp'], name, occ)
        mk = lambda v: '<m%d>%s</m%d>' % (i, xa(v), i)
    n = max(lo, 1)
    valid = [''.join(mk(v) for _ in range(n)) for v in t['valid']]
    if lo == 0: valid.append('')
    invalid = [(sorted(t['kinds'])[0], ''.join(mk(v) for _ in range(n))) for v in t['invalid']]
    if hi != 'unbounded': invalid.append(('occurs', mk(t['valid'][0]) * (hi + 1)))
    return dict(decls=decls, particle=part, valid=valid, invalid=invalid, kinds=kinds | {'occurs'} if (lo, hi) != (1, 1) else kinds, needs_xs=t.get('needs_xs', False))

def mod_attrs(draw, c):
    i = c['i']; tp = c['tp']
    d = ('<xs:attributeGroup name="ag%d">%s<xs:attribute name="g%da" type="xs:int" default="7"/><xs:attribute name="g%db" type="xs:token" fixed="fx"/>%s</xs:attributeGroup>'
         % (i, annot(draw), i, i, '<xs:anyAttribute namespace="##other" processContents="lax"/>' if B(draw) else ''))
    use = S(draw, ['required', 'optional'])
    part = ('<xs:element name="m%d"><xs:complexType><xs:attribute name="a" type="xs:date" use="%s"/><xs:attribute name="b" type="xs:string" default="d&amp;q"/>'
            '<xs:attribute name="c" use="prohibited"/><xs:attributeGroup ref="%sag%d"/></xs:complexType></xs:element>' % (i, use, tp, i))
    valid = ['<m%d a="2001-01-01"/>' % i, '<m%d a="2001-01-01" g%da="8" g%db="fx" b=""/>' % (i, i, i)]
    if use == 'optional': valid.append('<m%d/>' % i)
    invalid = [('fixed', '<m%d a="2001-01-01" g%db="other"/>' % (i, i)), ('attribute', '<m%d a="2001-01-01" zz="1"/>' % i), ('attribute', '<m%d a="nodate"/>' % i),
               ('prohibited', '<m%d a="2001-01-01" c="1"/>' % i)]
    if use == 'required': invalid.append(('required', '<m%d/>' % i))
    return dict(decls=d, particle=part, valid=valid, invalid=invalid, kinds={'attributeGroup', 'fixed', 'default', 'prohibited', 'anyAttribute' if 'anyAttribute' in d else 'attributeGroup'})

def mod_group(draw, c):
    i = c['i']; tp = c['tp']
    lo, hi, occ = occurs(draw, allow_zero=False)
    d = ('<xs:group name="gr%d">%s<xs:choice><xs:element name="ga" type="xs:int"/><xs:sequence><xs:element name="gb" type="xs:string"/><xs:element name="gc" type="xs:boolean" minOccurs="0"/></xs:sequence></xs:choice></xs:group>'
         % (i, annot(draw)))
    part = '<xs:element name="m%d"><xs:complexType><xs:sequence><xs:group ref="%sgr%d"%s/><xs:element name="end" type="xs:string" minOccurs="0"/></xs:sequence></xs:complexType></xs:element>' % (i, tp, i, occ)
    one = ['<ga>1</ga>', '<gb>s</gb>', '<gb>s</gb><gc>true</gc>']
    valid = ['<m%d>%s</m%d>' % (i, ''.join([o] * lo), i) for o in one] + ['<m%d>%s<end/></m%d>' % (i, one[2] * lo, i)]
    invalid = [('group', '<m%d><gc>true</gc></m%d>' % (i, i)), ('group', '<m%d>%s<ga>x</ga></m%d>' % (i, one[0] * lo, i)), ('group', '<m%d><end/>%s</m%d>' % (i, one[0] * lo, i))]
    if hi != 'unbounded': invalid.append(('occurs', '<m%d>%s</m%d>' % (i, one[0] * (hi + 1), i)))
    return dict(decls=d, particle=part, valid=valid, invalid=invalid, kinds={'group', 'choice', 'occurs'})

def mod_all(draw, c):
    i = c['i']
    opt = B(draw)
    part = ('<xs:element name="m%d"><xs:complexType><xs:all%s><xs:element name="p" type="xs:int"/><xs:element name="q" type="xs:string" minOccurs="0"/><xs:element name="r" type="xs:date"/></xs:all></xs:complexType></xs:element>'
            % (i, ' minOccurs="0"' if opt else ''))
    valid = ['<m%d><r>2001-01-01</r><p>1</p></m%d>' % (i, i), '<m%d><p>1</p><q>x</q><r>2001-01-01</r></m%d>' % (i, i)] + (['<m%d/>' % i] if opt else [])
    invalid = [('all', '<m%d><p>1</p></m%d>' % (i, i)), ('all', '<m%d><p>1</p><r>2001-01-01</r><p>2</p></m%d>' % (i, i)), ('all', '<m%d><p>1</p><r>2001-01-01</r><z/></m%d>' % (i, i))]
    return dict(decls='', particle=part, valid=valid, invalid=invalid, kinds={'all'})

def mod_wild(draw, c):
    i = c['i']
    ns, pc = S(draw, [('##any', 'skip'), ('##other', 'lax'), ('##other', 'skip'), ('urn:w1 urn:w2', 'lax'), ('##local', 'skip'), ('##targetNamespace urn:w1', 'strict')])
    lo, hi, occ = occurs(draw)
    part = '<xs:element name="m%d"><xs:complexType><xs:sequence><xs:element name="h" type="xs:string"/><xs:any namespace="%s" processContents="%s"%s/></xs:sequence><xs:anyAttribute namespace="urn:w1" processContents="skip"/></xs:complexType></xs:element>' % (i, ns, pc, occ)
    n = max(lo, 1)
    w1 = '<w:x xmlns:w="urn:w1">t</w:x>'; loc = '<loc xmlns="">t</loc>'; tn = '<h>z</h>'
    ok = {'##any': [w1, loc], '##other': [w1], 'urn:w1 urn:w2': [w1], '##local': [loc], '##targetNamespace urn:w1': [w1] + ([tn] if c['tns'] else [])}[ns]
    bad = {'##any': [], '##other': [tn] if c['tns'] else [loc], 'urn:w1 urn:w2': [loc, '<w:x xmlns:w="urn:w3"/>'], '##local': [w1], '##targetNamespace urn:w1': ['<w:x xmlns:w="urn:w3"/>']}[ns]
    valid = ['<m%d><h>a</h>%s</m%d>' % (i, o * n, i) for o in ok] + ['<m%d xmlns:w="urn:w1" w:any="1"><h>a</h>%s</m%d>' % (i, ok[0] * n, i)]
    invalid = [('wildcard', '<m%d><h>a</h>%s</m%d>' % (i, b_ * n, i)) for b_ in bad] + [('anyAttribute', '<m%d xmlns:w="urn:w3" w:any="1"><h>a</h>%s</m%d>' % (i, ok[0] * n, i))]
    if lo > 0: invalid.append(('wildcard', '<m%d><h>a</h></m%d>' % (i, i)))
    return dict(decls='', particle=part, valid=valid, invalid=invalid, kinds={'wildcard', 'anyAttribute'})

def mod_ext(draw, c):
    i = c['i']; tp = c['tp']
    abstract = B(draw); blk = S(draw, ['', '', ' block="extension"', ' block="restriction"'])
    d = ('<xs:complexType name="base%d"%s%s>%s<xs:sequence><xs:element name="b1" type="xs:string"/></xs:sequence><xs:attribute name="ba" type="xs:int"/></xs:complexType>'
         '<xs:complexType name="ext%d"><xs:complexContent><xs:extension base="%sbase%d"><xs:sequence><xs:element name="e1" type="xs:int" maxOccurs="2"/></xs:sequence><xs:attribute name="ea" type="xs:boolean" use="required"/></xs:extension></xs:complexContent></xs:complexType>'
         '<xs:complexType name="rst%d"><xs:complexContent><xs:restriction base="%sbase%d"><xs:sequence><xs:element name="b1" type="xs:string" fixed="only"/></xs:sequence><xs:attribute name="ba" type="xs:int" use="required"/></xs:restriction></xs:complexContent></xs:complexType>'
         % (i, ' abstract="true"' if abstract else '', blk, annot(draw), i, tp, i, i, tp, i))
    part = '<xs:element name="m%d" type="%sbase%d"/>' % (i, tp, i)
    T = (tp or '')
    ext = '<m%d xsi:type="%sext%d" ea="true" ba="3"><b1>s</b1><e1>1</e1><e1>2</e1></m%d>' % (i, T, i, i)
    rst = '<m%d xsi:type="%srst%d" ba="3"><b1>only</b1></m%d>' % (i, T, i, i)
    valid = ([rst] if 'restriction' not in blk else []) + ([ext] if 'extension' not in blk else [])
    if not abstract: valid.append('<m%d><b1>s</b1></m%d>' % (i, i))
    invalid = [('extension', '<m%d xsi:type="%sext%d" ba="3"><b1>s</b1><e1>1</e1></m%d>' % (i, T, i, i)), ('restriction', '<m%d xsi:type="%srst%d" ba="3"><b1>other</b1></m%d>' % (i, T, i, i)),
               ('restriction', '<m%d xsi:type="%srst%d"><b1>only</b1></m%d>' % (i, T, i, i)), ('xsi:type', '<m%d xsi:type="xs:int">5</m%d>' % (i, i))]
    if abstract: invalid.append(('abstract', '<m%d><b1>s</b1></m%d>' % (i, i)))
    if 'extension' in blk: invalid.append(('block', ext))
    if 'restriction' in blk: invalid.append(('block', rst))
    return dict(decls=d, particle=part, valid=valid, invalid=invalid, kinds={'extension', 'restriction', 'xsi:type'} | ({'abstract'} if abstract else set()) | ({'block'} if blk else set()), needs_xs=True)

def mod_simplecontent(draw, c):
    i = c['i']; tp = c['tp']
    d = ('<xs:complexType name="sc%d"><xs:simpleContent><xs:extension base="xs:decimal"><xs:attribute name="cur" type="xs:NMTOKEN" default="EUR"/></xs:extension></xs:simpleContent></xs:complexType>'
         '<xs:complexType name="scr%d"><xs:simpleContent><xs:restriction base="%ssc%d"><xs:maxInclusive value="100"/><xs:attribute name="cur" type="xs:NMTOKEN" fixed="USD"/></xs:restriction></xs:simpleContent></xs:complexType>' % (i, i, tp, i))
    which = S(draw, ['sc', 'scr'])
    part = '<xs:element name="m%d" type="%s%s%d" nillable="true"/>' % (i, tp, which, i)
    valid = ['<m%d>12.5</m%d>' % (i, i), '<m%d cur="USD">1</m%d>' % (i, i), '<m%d xsi:nil="true"/>' % i]
    invalid = [('simpleContent', '<m%d>abc</m%d>' % (i, i)), ('simpleContent', '<m%d><x/></m%d>' % (i, i)), ('nillable', '<m%d xsi:nil="true">1</m%d>' % (i, i))]
    if which == 'scr': invalid += [('facet:maxInclusive', '<m%d>100.5</m%d>' % (i, i)), ('fixed', '<m%d cur="EUR">1</m%d>' % (i, i))]
    else: valid.append('<m%d cur="EUR">1000</m%d>' % (i, i))
    return dict(decls=d, particle=part, valid=valid, invalid=invalid, kinds={'simpleContent', 'nillable', 'default'} | ({'fixed', 'restriction'} if which == 'scr' else set()))

def mod_mixed_empty(draw, c):
    i = c['i']
    if B(draw):
        part = '<xs:element name="m%d"><xs:complexType mixed="true"><xs:choice minOccurs="0" maxOccurs="unbounded"><xs:element name="em" type="xs:string"/><xs:element name="br"><xs:complexType/></xs:element></xs:choice></xs:complexType></xs:element>' % i
        valid = ['<m%d>text <em>x</em> more<br/> end</m%d>' % (i, i), '<m%d/>' % i]
        invalid = [('mixed', '<m%d>text <zz/></m%d>' % (i, i)), ('empty', '<m%d><br>x</br></m%d>' % (i, i))]
        return dict(decls='', particle=part, valid=valid, invalid=invalid, kinds={'mixed', 'empty', 'choice'})
    part = '<xs:element name="m%d"><xs:complexType><xs:attribute name="k" type="xs:int"/></xs:complexType></xs:element>' % i
    return dict(decls='', particle=part, valid=['<m%d/>' % i, '<m%d k="1"></m%d>' % (i, i)], invalid=[('empty', '<m%d>x</m%d>' % (i, i)), ('empty', '<m%d><a/></m%d>' % (i, i))], kinds={'empty'})

def mod_subst(draw, c):
    i = c['i']; tp = c['tp']
    abstract = B(draw); blk = S(draw, ['', '', ' block="substitution"'])
    d = ('<xs:element name="head%d" type="xs:decimal"%s%s/>%s<xs:element name="mem%da" type="xs:integer" substitutionGroup="%shead%d"/><xs:element name="mem%db" substitutionGroup="%shead%d"/>'
         % (i, ' abstract="true"' if abstract else '', blk, annot(draw), i, tp, i, i, tp, i))
    lo, hi, occ = occurs(draw)
    part = '<xs:element name="m%d"><xs:complexType><xs:sequence><xs:element ref="%shead%d"%s/></xs:sequence></xs:complexType></xs:element>' % (i, tp, i, occ)
    n = max(lo, 1)
    valid = []
    if not blk: valid += ['<m%d>%s</m%d>' % (i, ('<mem%da>5</mem%da>' % (i, i)) * n, i), '<m%d>%s</m%d>' % (i, ('<mem%db>5.5</mem%db>' % (i, i)) * n, i)]
    if not abstract: valid.append('<m%d>%s</m%d>' % (i, ('<head%d>1.5</head%d>' % (i, i)) * n, i))
    if lo == 0: valid.append('<m%d/>' % i)
    invalid = [('substitution', '<m%d>%s</m%d>' % (i, ('<mem%da>5.5</mem%da>' % (i, i)) * n, i)), ('substitution', '<m%d><other/></m%d>' % (i, i))]
    if abstract: invalid.append(('abstract', '<m%d>%s</m%d>' % (i, ('<head%d>1</head%d>' % (i, i)) * n, i)))
    if blk: invalid.append(('block', '<m%d>%s</m%d>' % (i, ('<mem%da>5</mem%da>' % (i, i)) * n, i)))
    if not valid: valid.append('')
    return dict(decls=d, particle=part, valid=valid, invalid=invalid, kinds={'substitution', 'occurs'} | ({'abstract'} if abstract else set()) | ({'block'} if blk else set()), optional_root=not [v for v in valid if v])

def mod_values(draw, c):
    i = c['i']
    part = ('<xs:element name="m%d"><xs:complexType><xs:sequence><xs:element name="f" type="xs:int" fixed="42"/><xs:element name="d" type="xs:token" default="dflt" minOccurs="0"/>'
            '<xs:element name="n" type="xs:date" nillable="true"/></xs:sequence></xs:complexType></xs:element>' % i)
    valid = ['<m%d><f>42</f><d/><n xsi:nil="true"/></m%d>' % (i, i), '<m%d><f> 42 </f><n>2001-01-01</n></m%d>' % (i, i), '<m%d><f/><d>x</d><n xsi:nil="1"/></m%d>' % (i, i)]
    invalid = [('fixed', '<m%d><f>43</f><n xsi:nil="true"/></m%d>' % (i, i)), ('nillable', '<m%d><f>42</f><n/></m%d>' % (i, i)), ('nillable', '<m%d><f xsi:nil="true"/><n xsi:nil="true"/></m%d>' % (i, i))]
    return dict(decls='', particle=part, valid=valid, invalid=invalid, kinds={'fixed', 'default', 'nillable'})

def mod_idc(draw, c):
    i = c['i']; tp = c['tp']
    kind = S(draw, ['unique', 'key', 'keyref'])
    field = S(draw, ['@id', tp + 'code'])
    sel = S(draw, [tp + 'item', './/' + tp + 'item', tp + 'item|' + tp + 'alt'])
    idc = '<xs:%s name="k%d">%s<xs:selector xpath="%s"/><xs:field xpath="%s"/></xs:%s>' % ('key' if kind == 'keyref' else kind, i, annot(draw), sel, field, 'key' if kind == 'keyref' else kind)
    if kind == 'keyref': idc += '<xs:keyref name="kr%d" refer="%sk%d"><xs:selector xpath="%sref"/><xs:field xpath="@to"/></xs:keyref>' % (i, tp, i, tp)
    item_t = '<xs:complexType><xs:sequence><xs:element name="code" type="xs:int" minOccurs="0"/></xs:sequence><xs:attribute name="id" type="xs:decimal"/></xs:complexType>'
    part = ('<xs:element name="m%d"><xs:complexType><xs:sequence><xs:element name="item" maxOccurs="unbounded">%s</xs:element><xs:element name="alt" minOccurs="0">%s</xs:element>'
            '<xs:element name="ref" minOccurs="0" maxOccurs="unbounded"><xs:complexType><xs:attribute name="to" type="xs:decimal"/></xs:complexType></xs:element></xs:sequence></xs:complexType>%s</xs:element>' % (i, item_t, item_t, idc))
    def item(v): return '<item id="%s"><code>%s</code></item>' % (v, v.split('.')[0])
    valid = ['<m%d>%s%s</m%d>' % (i, item('1'), item('2'), i), '<m%d>%s%s<ref to="2.0"/></m%d>' % (i, item('1'), item('2'), i)]
    invalid = [('idc-' + kind if kind != 'keyref' else 'idc-key', '<m%d>%s%s</m%d>' % (i, item('1'), item('1.0') if field == '@id' else item('1'), i))]
    if kind == 'keyref': invalid.append(('idc-keyref', '<m%d>%s<ref to="9"/></m%d>' % (i, item('1'), i)))
    if kind in ('key', 'keyref'): invalid.append(('idc-key', '<m%d><item/>%s</m%d>' % (i, item('2'), i)))
    else: valid.append('<m%d><item/>%s</m%d>' % (i, item('2'), i))
    return dict(decls='', particle=part, valid=valid, invalid=invalid, kinds={'idc-' + kind, 'idc-key' if kind == 'keyref' else 'idc-' + kind})

def mod_notation(draw, c):
    i = c['i']; tp = c['tp']
    d = ('<xs:notation name="gif%d" public="image/gif" system="viewer.exe"/><xs:notation name="png%d" public="image/png"/>'
         '<xs:simpleType name="nt%d"><xs:restriction base="xs:NOTATION"><xs:enumeration value="%sgif%d"/><xs:enumeration value="%spng%d"/></xs:restriction></xs:simpleType>' % (i, i, i, tp, i, tp, i))
    part = '<xs:element name="m%d"><xs:complexType><xs:attribute name="fmt" type="%snt%d"/></xs:complexType></xs:element>' % (i, tp, i)
    return dict(decls=d, particle=part, valid=['<m%d fmt="%sgif%d"/>' % (i, tp, i), '<m%d/>' % i], invalid=[('notation', '<m%d fmt="%sjpg"/>' % (i, tp))], kinds={'notation', 'facet:enumeration'})

def mod_recursive(draw, c):
    i = c['i']; tp = c['tp']
    d = '<xs:complexType name="rec%d"><xs:sequence><xs:element name="val" type="xs:int"/><xs:element name="sub" type="%srec%d" minOccurs="0" maxOccurs="2"/></xs:sequence></xs:complexType>' % (i, tp, i)
    part = '<xs:element name="m%d" type="%srec%d"/>' % (i, tp, i)
    return dict(decls=d, particle=part, valid=['<m%d><val>1</val><sub><val>2</val><sub><val>3</val></sub></sub><sub><val>4</val></sub></m%d>' % (i, i), '<m%d><val>1</val></m%d>' % (i, i)],
                invalid=[('recursive', '<m%d><val>1</val><sub><val>2</val><sub/></sub></m%d>' % (i, i)), ('occurs', '<m%d><val>1</val>%s</m%d>' % (i, '<sub><val>2</val></sub>' * 3, i))], kinds={'recursive', 'occurs'})

def mod_counting(draw, c):
    i = c['i']
    lo = I(draw, 2, 3); hi = lo + I(draw, 0, 3)
    part = ('<xs:element name="m%d"><xs:complexType><xs:sequence minOccurs="%d" maxOccurs="%d"><xs:element name="x" type="xs:int"/><xs:element name="y" type="xs:int" minOccurs="0"/></xs:sequence></xs:complexType></xs:element>' % (i, lo, hi))
    valid = ['<m%d>%s</m%d>' % (i, '<x>1</x>' * lo, i), '<m%d>%s</m%d>' % (i, '<x>1</x><y>2</y>' * hi, i)]
    invalid = [('occurs', '<m%d>%s</m%d>' % (i, '<x>1</x>' * (lo - 1), i)), ('occurs', '<m%d>%s</m%d>' % (i, '<x>1</x>' * (hi + 1), i)), ('occurs', '<m%d>%s<y>1</y><y>2</y></m%d>' % (i, '<x>1</x>' * lo, i))]
    return dict(decls='', particle=part, valid=valid, invalid=invalid, kinds={'occurs'})

def mod_import(draw, c):
    """element and type taken from a second namespace (separate schema document, imported)"""
    i = c['i']
    imp = ('<xs:schema xmlns:xs="%s" targetNamespace="urn:imp" xmlns:i="urn:imp" elementFormDefault="qualified" attributeFormDefault="qualified">%s'
           '<xs:simpleType name="code"><xs:restriction base="xs:string"><xs:pattern value="[A-Z]{2}"/></xs:restriction></xs:simpleType>'
           '<xs:element name="ie" type="i:code"/><xs:attribute name="ia" type="i:code"/>'
           '<xs:complexType name="ict"><xs:sequence><xs:element name="in" type="xs:int"/></xs:sequence><xs:attribute ref="i:ia"/></xs:complexType></xs:schema>' % (XS, annot(draw)))
    part = '<xs:element name="m%d"><xs:complexType><xs:sequence><xs:element ref="i:ie"/><xs:element name="w" type="i:ict"/></xs:sequence></xs:complexType></xs:element>' % i
    valid = ['<m%d><i:ie>AB</i:ie><w i:ia="CD"><i:in>1</i:in></w></m%d>' % (i, i)]
    invalid = [('import', '<m%d><i:ie>abc</i:ie><w><i:in>1</i:in></w></m%d>' % (i, i)), ('import', '<m%d><i:ie>AB</i:ie><w i:ia="x"><i:in>1</i:in></w></m%d>' % (i, i)), ('import', '<m%d><ie>AB</ie><w><i:in>1</i:in></w></m%d>' % (i, i))]
    return dict(decls='', particle=part, valid=valid, invalid=invalid, kinds={'import', 'facet:pattern'}, imported=imp)

# ---- long strings: values that straddle and exceed the 8192-byte buffer of XSerializeEngine (a string of n UTF-16 units is written
# as 2n bytes in one write(const XMLByte*, size) call) -- documentation, enumeration, default / fixed, pattern, notation identifiers
LONG_UNITS = [9000, 4500, 13000, 6000, 4097, 8192, 3000, 20000]        # (Hypothesis favours the first entries)
LONG_PATTERN_ODDS = 11      # 1 in (n+1) long-string modules gets a long pattern (regex compilation of a 4500-char pattern costs seconds under ASan); C16 lowers it for the thorough tier
def longstr(units, cls, salt):
    """deterministic non-periodic string of exactly `units` UTF-16 code units; no markup characters, no white space"""
    out = []; k = 0; i = 0
    while k < units:
        t = '%x.' % (i * i + salt * 7919 + 13 * i)
        if cls == 'mixed' and i % 3 == 1: t += chr(0x4E00 + (i * 37 + salt) % 4000)
        if cls == 'mixed' and i % 5 == 2 and k + len(t) + 2 <= units: t += chr(0x10000 + (i * 11 + salt) % 3000); k += 1
        out.append(t); k += len(t); i += 1
    r = ''.join(out)
    # cut to the exact number of units without splitting a surrogate pair
    n = 0; j = 0
    while j < len(r) and n + (2 if ord(r[j]) > 0xFFFF else 1) <= units:
        n += 2 if ord(r[j]) > 0xFFFF else 1; j += 1
    r = r[:j]
    return r + 'z' * (units - n)

def mod_long(draw, c):
    i = c['i']; tp = c['tp']
    which = set(draw(st.lists(st.integers(1, 6), min_size=2, max_size=3, unique=True)))     # two or three of the six positions are long
    def L(salt, ascii_only=False):
        if salt not in which: return 'v%d_%d' % (salt, i)
        return longstr(S(draw, LONG_UNITS), 'ascii' if ascii_only else S(draw, ['mixed', 'ascii']), salt + 10 * i)
    doc = L(1); e1 = L(2); dflt = L(3); fixed = L(4); pub = L(5, True); sysid = L(6)
    # long pattern (costly to compile under ASan: one case in three): the short alternative comes first so that instances never
    # have to be matched against the long literal; the pattern text itself is compared through the model dump
    lit = longstr(4500, 'ascii', 7 + i).replace('.', '_') if I(draw, 0, LONG_PATTERN_ODDS) == LONG_PATTERN_ODDS else 'lit_%d' % i
    pat = 'short[0-9]?|' + lit
    d = ('<xs:simpleType name="le%d"><xs:annotation><xs:documentation>%s</xs:documentation></xs:annotation><xs:restriction base="xs:string">'
         '<xs:enumeration value="%s"/><xs:enumeration value="short"/></xs:restriction></xs:simpleType>'
         '<xs:simpleType name="lp%d"><xs:restriction base="xs:string"><xs:pattern value="%s"/></xs:restriction></xs:simpleType>'
         '<xs:notation name="ln%d" public="%s" system="%s"/>' % (i, doc, e1, i, pat, i, pub, sysid))
    part = ('<xs:element name="m%d"><xs:complexType><xs:attribute name="d" type="xs:string" default="%s"/><xs:attribute name="f" type="xs:string" fixed="%s"/>'
            '<xs:attribute name="e" type="%sle%d"/><xs:attribute name="p" type="%slp%d"/></xs:complexType></xs:element>' % (i, dflt, fixed, tp, i, tp, i))
    valid = ['<m%d/>' % i, '<m%d e="%s"/>' % (i, e1), '<m%d f="%s" p="short"/>' % (i, fixed), '<m%d e="short" p="short7"/>' % i]
    invalid = [('facet:enumeration', '<m%d e="%sQ"/>' % (i, e1[:-1])), ('fixed', '<m%d f="%sQ"/>' % (i, fixed[:-1])), ('facet:pattern', '<m%d p="zz"/>' % i)]
    return dict(decls=d, particle=part, valid=valid, invalid=invalid, kinds={'long-string', 'facet:enumeration', 'facet:pattern', 'fixed', 'default', 'notation', 'annotation'})

MODULES = [mod_long, mod_simple, mod_simple, mod_simple, mod_attrs, mod_group, mod_all, mod_wild, mod_ext, mod_simplecontent, mod_mixed_empty, mod_subst, mod_values, mod_idc, mod_idc,
           mod_notation, mod_recursive, mod_counting, mod_import]
PLAIN_KINDS = {'occurs'}       # everything else is "beyond plain elements/attributes"

@st.composite
def gen_schema(draw, tns_choices=('urn:a', 'urn:b', ''), idx=0):
    """-> dict(text, sysid, files{sysid: text}, tns, kinds, mods, root)"""
    tns = S(draw, tns_choices)
    tp = 't:' if tns else ''
    nmods = I(draw, 2, 7)
    picks = [S(draw, MODULES) for _ in range(nmods)]
    mods = []; has_import = False
    for i, f in enumerate(picks):
        if f is mod_import:
            if has_import: f = mod_counting
            has_import = True
        mods.append(f(draw, dict(i=i, tp=tp, tns=tns)))
    files = {}
    head = '<xs:schema xmlns:xs="%s"' % XS
    if tns: head += ' targetNamespace="%s" xmlns:t="%s"' % (tns, tns)
    head += ' elementFormDefault="qualified"'
    if has_import: head += ' xmlns:i="urn:imp"'
    if I(draw, 0, 4) == 0: head += ' blockDefault="%s"' % S(draw, ['restriction', '#all'][:1])
    head += '>' + annot(draw, 2)
    if has_import:
        head += '<xs:import namespace="urn:imp" schemaLocation="imp%d.xsd"/>' % idx
        files['imp%d.xsd' % idx] = [m for m in mods if 'imported' in m][0]['imported']
    compositor = S(draw, ['sequence', 'sequence', 'sequence', 'choice-star'])
    body = ''.join(m['decls'] for m in mods)
    parts = ''.join(m['particle'] for m in mods)
    rootattrs = '<xs:attribute name="ver" type="xs:decimal" default="1.0"/>'
    if compositor == 'sequence':
        root = '<xs:element name="root"><xs:complexType>%s<xs:sequence>%s</xs:sequence>%s</xs:complexType></xs:element>' % (annot(draw), parts, rootattrs)
    else:
        root = '<xs:element name="root"><xs:complexType><xs:choice minOccurs="0" maxOccurs="unbounded">%s</xs:choice>%s</xs:complexType></xs:element>' % (parts, rootattrs)
    text = head + body + root + '</xs:schema>'
    kinds = set()
    for m in mods: kinds |= m['kinds']
    if 'annotation' in text: kinds.add('annotation')
    if tns: kinds.add('targetNamespace')
    return dict(type='xsd', text=text, sysid='mem:/g%d.xsd' % idx, files=files, tns=tns, kinds=kinds, mods=mods, compositor=compositor, has_import=has_import)

@st.composite
def gen_schema_instance(draw, g):
    """-> dict(doc, aimed=[kinds violated deliberately])"""
    aimed = []
    frags = []
    for m in g['mods']:
        if m['invalid'] and I(draw, 0, 3) == 0:
            kind, f = S(draw, m['invalid']); aimed.append(kind); frags.append(f)
        else:
            frags.append(S(draw, m['valid']))
    if g['compositor'] != 'sequence' and len(frags) > 1 and B(draw):
        k = I(draw, 0, len(frags) - 1); frags = frags[k:] + frags[:k]
    elif g['compositor'] == 'sequence' and len(frags) > 1 and I(draw, 0, 9) == 0:
        frags = frags[1:] + frags[:1]; aimed.append('order')
    attrs = ''
    if g['tns']: attrs += ' xmlns="%s" xmlns:t="%s"' % (g['tns'], g['tns'])
    attrs += ' xmlns:xsi="%s" xmlns:xs="%s"' % (XSI, XS)
    if g['has_import']: attrs += ' xmlns:i="urn:imp"'
    if I(draw, 0, 5) == 0: attrs += ' ver="%s"' % S(draw, ['2.5', 'x'])
    return dict(doc='<root%s>%s</root>' % (attrs, ''.join(frags)), aimed=aimed)

# -------------------------------------------------------------------------------------------------
# DTD
# -------------------------------------------------------------------------------------------------
DTD_NAMES = ['a', 'b', 'c', 'd', 'e']

@st.composite
def gen_cm(draw, depth=0):
    """content model AST: ('name', n) | ('seq'|'choice', [items]) each wrapped with an occurrence suffix"""
    if depth >= 2 or I(draw, 0, 2) == 0:
        node = ('name', S(draw, DTD_NAMES))
    else:
        kind = S(draw, ['seq', 'choice'])
        items = [draw(gen_cm(depth + 1)) for _ in range(I(draw, 1, 3))]
        if kind == 'choice':
            # DTD validity requires nothing about determinism for Xerces to load it, but keep the names of a choice distinct
            seen = set(); it2 = []
            for x in items:
                key = repr(x)
                if key not in seen: seen.add(key); it2.append(x)
            items = it2
        node = (kind, items)
    return (node, S(draw, ['', '', '?', '*', '+']))

def cm_str(cm, top=True):
    node, occ = cm
    if node[0] == 'name':
        return ('(%s)%s' % (node[1], occ)) if top else node[1] + occ
    sep = ',' if node[0] == 'seq' else '|'
    return '(' + sep.join(cm_str(x, False) for x in node[1]) + ')' + occ

def cm_sample(draw, cm, depth=0):
    """a sequence of names matching the model (small)"""
    node, occ = cm
    reps = {'': 1, '?': I(draw, 0, 1), '*': I(draw, 0, 2), '+': I(draw, 1, 2)}[occ]
    out = []
    for _ in range(reps):
        if node[0] == 'name': out.append(node[1])
        elif node[0] == 'seq':
            for x in node[1]: out += cm_sample(draw, x, depth + 1)
        else: out += cm_sample(draw, S(draw, node[1]), depth + 1)
    return out

@st.composite
def gen_dtd(draw, idx=0):
    decls = []
    models = {}
    kinds = set()
    for n in DTD_NAMES:
        k = I(draw, 0, 5)
        if n == 'a': k = S(draw, [3, 3, 4])
        if k == 0: models[n] = ('EMPTY',); decls.append('<!ELEMENT %s EMPTY>' % n); kinds.add('dtd:EMPTY')
        elif k == 1: models[n] = ('ANY',); decls.append('<!ELEMENT %s ANY>' % n); kinds.add('dtd:ANY')
        elif k == 2: models[n] = ('PCDATA',); decls.append('<!ELEMENT %s (#PCDATA)>' % n); kinds.add('dtd:PCDATA')
        elif k == 3:
            names = sorted(set(S(draw, DTD_NAMES[1:]) for _ in range(I(draw, 1, 3))))
            models[n] = ('mixed', names); decls.append('<!ELEMENT %s (#PCDATA|%s)*>' % (n, '|'.join(names))); kinds.add('dtd:mixed')
        else:
            cm = draw(gen_cm(0 if n != 'a' else 0))
            models[n] = ('children', cm); decls.append('<!ELEMENT %s %s>' % (n, cm_str(cm))); kinds.add('dtd:children')
    atts = {}
    if B(draw):
        decls.append('<!NOTATION gif SYSTEM "gif.exe"><!NOTATION png PUBLIC "-//png//" "png.exe"><!NOTATION pub PUBLIC "-//only//">'); kinds.add('dtd:notation')
        decls.append('<!ENTITY pic SYSTEM "pic.gif" NDATA gif>'); kinds.add('dtd:unparsed-entity')
        has_not = True
    else: has_not = False
    if B(draw):
        decls.append('<!ENTITY %% pe "%s">' % S(draw, ['CDATA', 'NMTOKEN'])); kinds.add('dtd:parameter-entity'); pe = True
    else: pe = False
    for n in DTD_NAMES:
        lst = []
        for j in range(I(draw, 0, 3)):
            an = 'x%d' % j
            typ = S(draw, ['CDATA', 'NMTOKEN', 'NMTOKENS', 'ID', 'IDREF', 'IDREFS', '(u|v|w)', 'ENTITY', 'ENTITIES', 'NOTATION (gif|png)'] + (['%pe;'] if pe else []))
            if typ == 'ID' and any(t == 'ID' for _, t, _, _ in lst): typ = 'CDATA'
            if ('ENTIT' in typ or 'NOTATION' in typ) and not has_not: typ = 'CDATA'
            if 'NOTATION' in typ and (models[n][0] == 'EMPTY' or any('NOTATION' in t for _, t, _, _ in lst)): typ = 'NMTOKEN'
            dflt = S(draw, ['#IMPLIED', '#REQUIRED', 'default', '#FIXED']) if typ not in ('ID',) else S(draw, ['#IMPLIED', '#REQUIRED'])
            val = {'CDATA': 'a &amp; b', 'NMTOKEN': 'tok', 'NMTOKENS': 'a  b', 'IDREF': 'i1', 'IDREFS': 'i1 i1', '(u|v|w)': 'v', 'ENTITY': 'pic', 'ENTITIES': 'pic pic', 'NOTATION (gif|png)': 'png', '%pe;': 'tok'}.get(typ)
            d = dflt if dflt.startswith('#') and dflt != '#FIXED' else (('#FIXED ' if dflt == '#FIXED' else '') + '"%s"' % val)
            lst.append((an, typ, dflt, val))
            decls.append('<!ATTLIST %s %s %s %s>' % (n, an, typ, d)); kinds.add('dtd:att:' + typ.split(' ')[0].split('(')[0].strip('%;') if not typ.startswith('(') else 'dtd:att:enum')
        atts[n] = lst
    decls.append('<!ENTITY ent "replacement &lt;text&gt;"><!ENTITY ent2 "<c>in &ent; ent</c>">'); kinds.add('dtd:entity')
    if B(draw):
        decls.append('<!ENTITY ext SYSTEM "ext%d.ent">' % idx); kinds.add('dtd:external-entity')
    if pe and B(draw):
        decls.append('<![INCLUDE[<!ATTLIST a inc CDATA "1">]]><![IGNORE[<!ELEMENT zz ANY>]]>'); kinds.add('dtd:conditional')
    if I(draw, 0, 3) == 0:
        cls = S(draw, ['mixed', 'ascii'])
        which = set(draw(st.lists(st.integers(1, 4), min_size=2, max_size=2, unique=True)))
        def DL(k, c): return longstr(S(draw, LONG_UNITS), c, 20 + k + idx) if k in which else 'dv%d' % k
        decls.append('<!ENTITY big "%s"><!ATTLIST a bigd CDATA "%s"><!NOTATION bign PUBLIC "%s" "%s">' % (DL(1, cls), DL(2, cls), DL(3, 'ascii'), DL(4, cls)))
        kinds.add('dtd:long-string')
    decls.append('<!-- comment --><?pi in dtd?>')
    return dict(type='dtd', text='\n'.join(decls), sysid='mem:/g%d.dtd' % idx, files={'ext%d.ent' % idx: '<?xml version="1.0" encoding="UTF-8"?>ext text<b/>'}, models=models, atts=atts, kinds=kinds, has_not=has_not)

@st.composite
def gen_dtd_instance(draw, g):
    aimed = []
    ids = [0]
    def attrs(n):
        s = ''
        for an, typ, dflt, val in g['atts'][n]:
            write = dflt == '#REQUIRED' or I(draw, 0, 2) == 0
            if dflt == '#REQUIRED' and I(draw, 0, 9) == 0: write = False; aimed.append('dtd:required')
            if not write: continue
            if typ == 'ID': ids[0] += 1; v = 'i%d' % ids[0]
            elif dflt == '#FIXED': v = val if I(draw, 0, 5) else 'other'
            elif I(draw, 0, 6) == 0: v = S(draw, ['zz zz', 'q', '1 2', 'nope']); aimed.append('dtd:attvalue')
            else: v = val if val is not None else {'CDATA': 'c', 'NMTOKEN': 't', 'NMTOKENS': 't u', 'IDREF': 'i1', 'IDREFS': 'i1', '(u|v|w)': 'u', 'ENTITY': 'pic', 'ENTITIES': 'pic', 'NOTATION (gif|png)': 'gif', '%pe;': 't'}[typ]
            s += ' %s="%s"' % (an, v)
        return s
    def el(n, depth):
        m = g['models'][n]
        if depth > 3 or m[0] == 'EMPTY':
            return '<%s%s/>' % (n, attrs(n)) if m[0] in ('EMPTY', 'ANY', 'mixed', 'PCDATA') or depth > 3 else '<%s%s></%s>' % (n, attrs(n), n)
        if m[0] == 'PCDATA': body = S(draw, ['', 'text', 'a &ent; b', '<![CDATA[cd]]>'])
        elif m[0] == 'ANY': body = S(draw, ['', 'any <b/>' if g['models']['b'][0] == 'EMPTY' else 'any', '&ent2;'])
        elif m[0] == 'mixed': body = ''.join(S(draw, ['t ', el(S(draw, m[1]), depth + 1), '&ent;']) for _ in range(I(draw, 0, 3)))
        else:
            seq = cm_sample(draw, m[1])
            if I(draw, 0, 5) == 0:
                aimed.append('dtd:content')
                seq = seq + [S(draw, DTD_NAMES)] if B(draw) else seq[1:]
            body = ''.join(el(x, depth + 1) for x in seq)
            if I(draw, 0, 3) == 0: body = ' ' + body.replace('><', '>\n<')
        return '<%s%s>%s</%s>' % (n, attrs(n), body, n)
    body = el('a', 0)
    if I(draw, 0, 9) == 0: aimed.append('dtd:undeclared'); body = body.replace('</a>', '<undeclared/></a>')
    return dict(doc='<!DOCTYPE a SYSTEM "%s">%s' % (g['sysid'], body), aimed=aimed)
