"""regexmodel.py -- M6: regular-expression model for property C11.

* regex AST (plain tuples, JSON-able)
* renderer to the XML Schema Part 2 (Appendix F) syntax and to the Xerces non-schema ("XPath flavoured") dialect
* set semantics of every atom over a CURATED ALPHABET whose general category, block and XML name class are written down
  by hand (stable in every Unicode version since 3.0; cross-checked against unicodedata in selftest()); membership that the
  specifications do not pin down (supplementary characters in category escapes, characters on which XML 1.0 2e / XML 1.1
  name classes disagree) is `None` = "not asserted": such characters are kept out of the subjects of that pattern
* Thompson NFA + bit-set simulation (no backtracking) for membership, prefix acceptance, leftmost match start
* translation to Python `re` (second witness) with every atom turned into an explicit character set over the alphabet
* malformed-pattern mutators (suffix/prefix mutations only, so that the result is malformed whatever the seed pattern was)

AST nodes
  ('lit', ch, esc)            literal; esc: render in escaped form where the syntax makes the escape optional
  ('dot',)
  ('esc', x)                  multi-character escape  x in s S i I c C d D w W
  ('prop', name, neg)         \\p{name} / \\P{name}; name = category (L, Lu, Nd ...) or block (IsGreek ...)
  ('cls', neg, items, sub)    items: ('c', ch, esc) | ('r', lo, hi) | ('esc', x) | ('prop', name, neg); sub: None | cls node
  ('grp', node)               parenthesised
  ('alt', [nodes]) ('seq', [nodes]) ('empty',)
  ('rep', node, min, max, form, lazy)   max None = unbounded; form in ? * + n n, n,m ; node is an atom or a grp
  ('bol',) ('eol',)           anchors (non-schema dialect only)
"""
import re, unicodedata
from hypothesis import strategies as st

SUPP1 = '\U00010000'      # assigned only since Unicode 4.0: category NOT asserted
SUPP2 = '\U0001D7D8'      # Nd since 3.1, but Xerces' tables stop at the BMP: category NOT asserted (see report)

# general category of the curated alphabet (hand-written)
GC = {
    'a': 'Ll', 'b': 'Ll', 'c': 'Ll', 'z': 'Ll', 'A': 'Lu', 'Z': 'Lu', '0': 'Nd', '9': 'Nd', '_': 'Pc', '-': 'Pd', '.': 'Po', ':': 'Po',
    ' ': 'Zs', '\t': 'Cc', '\n': 'Cc', '\r': 'Cc', ',': 'Po', ';': 'Po', '#': 'Po',
    'é': 'Ll', 'Σ': 'Lu', 'я': 'Ll', '中': 'Lo', '٣': 'Nd', '€': 'Sc',
    '(': 'Ps', ')': 'Pe', '[': 'Ps', ']': 'Pe', '{': 'Ps', '}': 'Pe', '*': 'Po', '+': 'Sm', '?': 'Po', '|': 'Sm', '\\': 'Po', '^': 'Sk', '$': 'Sc',
    SUPP1: None, SUPP2: None,
}
UNIVERSE = list(GC.keys())
UNIVERSE_SET = frozenset(UNIVERSE)
LETTERS = 'abczAZéΣя中'
# \i : XML 1.0 (2e) Letter | '_' | ':' ; XSD 1.1 uses NameStartChar.  None where the two disagree (or supplementary).
NAME_START = {ch: (True if (ch in LETTERS or ch in '_:') else False) for ch in UNIVERSE}
NAME_CHAR = {ch: (True if (ch in LETTERS or ch in '_:.-09٣') else False) for ch in UNIVERSE}
for _ch in ('٣', '€', SUPP1, SUPP2): NAME_START[_ch] = None
for _ch in ('€', SUPP1, SUPP2): NAME_CHAR[_ch] = None

CATEGORIES = ['L', 'Lu', 'Ll', 'Lt', 'Lm', 'Lo', 'M', 'Mn', 'Mc', 'Me', 'N', 'Nd', 'Nl', 'No', 'P', 'Pc', 'Pd', 'Ps', 'Pe', 'Pi', 'Pf', 'Po',
              'Z', 'Zs', 'Zl', 'Zp', 'S', 'Sm', 'Sc', 'Sk', 'So', 'C', 'Cc', 'Cf', 'Co', 'Cn']
# blocks: XSD 1.0 names with their (Unicode 3.1, unchanged since) ranges -- all inside the BMP, so membership is definite for every character
BLOCKS = {'IsBasicLatin': (0x0000, 0x007F), 'IsLatin-1Supplement': (0x0080, 0x00FF), 'IsLatinExtended-A': (0x0100, 0x017F),
          'IsGreek': (0x0370, 0x03FF), 'IsCyrillic': (0x0400, 0x04FF), 'IsHebrew': (0x0590, 0x05FF), 'IsArabic': (0x0600, 0x06FF),
          'IsThai': (0x0E00, 0x0E7F), 'IsGeneralPunctuation': (0x2000, 0x206F), 'IsCurrencySymbols': (0x20A0, 0x20CF),
          'IsCJKUnifiedIdeographs': (0x4E00, 0x9FFF)}
MULTI = 'sSiIcCdDwW'

class TooBig(Exception): pass

# ------------------------------------------------------------------------------------------------
# three-valued set semantics of atoms over the universe
# ------------------------------------------------------------------------------------------------
def _not3(a): return None if a is None else (not a)
def _or3(a, b):
    if a is True or b is True: return True
    if a is None or b is None: return None
    return False
def _and3(a, b):
    if a is False or b is False: return False
    if a is None or b is None: return None
    return True

def _prop_member(name, ch):
    if name.startswith('Is'):
        lo, hi = BLOCKS[name]; return lo <= ord(ch) <= hi
    g = GC[ch]
    if g is None: return None
    return g == name if len(name) == 2 else g[0] == name

def _esc_member(x, ch):
    lx = x.lower()
    if lx == 's': v = ch in ' \t\n\r'
    elif lx == 'i': v = NAME_START[ch]
    elif lx == 'c': v = NAME_CHAR[ch]
    elif lx == 'd': v = _prop_member('Nd', ch)
    else:   # w = [^\p{P}\p{Z}\p{C}]
        g = GC[ch]; v = None if g is None else (g[0] not in 'PZC')
    return _not3(v) if x.isupper() else v

def atom_member(atom, ch, dotall=False):
    k = atom[0]
    if k == 'lit': return ch == atom[1]
    if k == 'dot': return True if dotall else ch not in '\n\r'
    if k == 'esc': return _esc_member(atom[1], ch)
    if k == 'prop':
        v = _prop_member(atom[1], ch); return _not3(v) if atom[2] else v
    if k == 'cls':
        v = False
        for it in atom[2]:
            if it[0] == 'c': w = (ch == it[1])
            elif it[0] == 'r': w = ord(it[1]) <= ord(ch) <= ord(it[2])
            else: w = atom_member(it, ch)
            v = _or3(v, w)
        if atom[1]: v = _not3(v)
        if atom[3] is not None: v = _and3(v, _not3(atom_member(atom[3], ch)))
        return v
    raise ValueError(atom)

ATOMS = ('lit', 'dot', 'esc', 'prop', 'cls')

def walk(node):
    yield node
    k = node[0]
    if k == 'grp': yield from walk(node[1])
    elif k in ('alt', 'seq'):
        for c in node[1]: yield from walk(c)
    elif k == 'rep': yield from walk(node[1])

def unsafe_chars(ast, dotall=False):
    """characters of the universe whose membership in some atom of the pattern is not asserted"""
    bad = set()
    for n in walk(ast):
        if n[0] in ATOMS:
            for ch in UNIVERSE:
                if atom_member(n, ch, dotall) is None: bad.add(ch)
    return bad

# ------------------------------------------------------------------------------------------------
# NFA (Thompson construction, counted quantifiers expanded) + bit-set simulation
# ------------------------------------------------------------------------------------------------
class Lang:
    LIMIT = 1500
    def __init__(self, ast, dotall=False):
        self.ast = ast; self.dotall = dotall
        self.eps = []; self.tr = []; self.sets = []; self._setidx = {}
        self.unsafe = unsafe_chars(ast, dotall)
        s, e = self._build(ast)
        self.s0 = s; self.final = e
        n = len(self.eps)
        self.clo = [0] * n
        for i in range(n):
            seen = 1 << i; stack = [i]
            while stack:
                x = stack.pop()
                for y in self.eps[x]:
                    if not (seen >> y) & 1: seen |= 1 << y; stack.append(y)
            self.clo[i] = seen
        self.fbit = 1 << e
        self._memo = {}
        self.start = self.clo[s]
    def _new(self):
        if len(self.eps) >= self.LIMIT: raise TooBig()
        self.eps.append([]); self.tr.append(None); return len(self.eps) - 1
    def _set_of(self, atom):
        key = repr(atom)
        if key not in self._setidx:
            self._setidx[key] = len(self.sets)
            self.sets.append(frozenset(ch for ch in UNIVERSE if atom_member(atom, ch, self.dotall) is True))
        return self._setidx[key]
    def _build(self, node):
        k = node[0]
        if k in ATOMS:
            s = self._new(); e = self._new(); self.tr[s] = (self._set_of(node), e); return s, e
        if k == 'empty':
            s = self._new(); e = self._new(); self.eps[s].append(e); return s, e
        if k == 'grp': return self._build(node[1])
        if k == 'seq':
            s = self._new(); cur = s
            for c in node[1]:
                a, b = self._build(c); self.eps[cur].append(a); cur = b
            return s, cur
        if k == 'alt':
            s = self._new(); e = self._new()
            for c in node[1]:
                a, b = self._build(c); self.eps[s].append(a); self.eps[b].append(e)
            return s, e
        if k == 'rep':
            child, mn, mx = node[1], node[2], node[3]
            s = self._new(); cur = s
            for _ in range(mn):
                a, b = self._build(child); self.eps[cur].append(a); cur = b
            if mx is None:
                a, b = self._build(child); e = self._new()
                self.eps[cur].append(a); self.eps[cur].append(e); self.eps[b].append(a); self.eps[b].append(e)
                return s, e
            e = self._new()
            for _ in range(mx - mn):
                a, b = self._build(child); self.eps[cur].append(a); self.eps[cur].append(e); cur = b
            self.eps[cur].append(e)
            return s, e
        raise ValueError('node %r not in the regular fragment' % (node,))
    def step(self, mask, ch):
        key = (mask, ch)
        r = self._memo.get(key)
        if r is None:
            r = 0; m = mask
            while m:
                low = m & -m; i = low.bit_length() - 1; m ^= low
                t = self.tr[i]
                if t is not None and ch in self.sets[t[0]]: r |= self.clo[t[1]]
            if len(self._memo) < 200000: self._memo[key] = r
        return r
    def accepting(self, mask): return bool(mask & self.fbit)
    def member(self, s):
        m = self.start
        for ch in s:
            m = self.step(m, ch)
            if not m: return False
        return self.accepting(m)
    def prefix_accepts(self, s):
        """list a[0..len(s)]: a[i] == (s[:i] in L)"""
        m = self.start; out = [self.accepting(m)]
        for ch in s:
            m = self.step(m, ch) if m else 0
            out.append(self.accepting(m))
        return out
    def find_leftmost(self, s):
        """(start, set of possible ends) of the leftmost occurrence of a member of L as a substring of s, or None"""
        for i in range(len(s) + 1):
            m = self.start; ends = set()
            if self.accepting(m): ends.add(i)
            for j in range(i, len(s)):
                m = self.step(m, s[j])
                if not m: break
                if self.accepting(m): ends.add(j + 1)
            if ends: return i, ends
        return None
    def moves(self, mask):
        """symbols of the universe that lead to a non-empty state set"""
        return [ch for ch in UNIVERSE if ch not in self.unsafe and self.step(mask, ch)]
    def coaccessible(self):
        """mask of states from which the final state is reachable (to steer member generation)"""
        n = len(self.eps); rev = [[] for _ in range(n)]
        for i in range(n):
            for y in self.eps[i]: rev[y].append(i)
            if self.tr[i] is not None and self.sets[self.tr[i][0]]: rev[self.tr[i][1]].append(i)
        seen = self.fbit; stack = [self.final]
        while stack:
            x = stack.pop()
            for y in rev[x]:
                if not (seen >> y) & 1: seen |= 1 << y; stack.append(y)
        return seen

def sample_member(lang, tape, maxlen, alphabet=None):
    """walk the NFA along a tape of integers; returns a member of L (or None when the walk does not end in an accepting set)"""
    co = lang.coaccessible()
    m = lang.start & co; out = []; t = 0
    if not m: return None
    for _ in range(maxlen):
        x = tape[t % len(tape)] if tape else 0; t += 1
        if lang.accepting(m) and x % 4 == 0: break
        cand = []
        for ch in (alphabet or UNIVERSE):
            if ch in lang.unsafe: continue
            n = lang.step(m, ch) & co
            if n: cand.append((ch, n))
        if not cand: break
        ch, m = cand[(x // 4) % len(cand)]
        out.append(ch)
    # finish greedily towards acceptance
    guard = 0
    while not lang.accepting(m) and guard < 60:
        guard += 1; nxt = None
        for ch in (alphabet or UNIVERSE):
            if ch in lang.unsafe: continue
            n = lang.step(m, ch) & co
            if n and (nxt is None or lang.accepting(n)): nxt = (ch, n)
            if n and lang.accepting(n): break
        if nxt is None: return None
        out.append(nxt[0]); m = nxt[1]
    return ''.join(out) if lang.accepting(m) else None

# ------------------------------------------------------------------------------------------------
# structural predicates
# ------------------------------------------------------------------------------------------------
def has_quant_or_classop(ast):
    for n in walk(ast):
        if n[0] == 'rep': return True
        if n[0] == 'cls' and (n[1] or n[3] is not None or any(it[0] != 'c' for it in n[2])): return True
    return False

def features(ast):
    F = set()
    for n in walk(ast):
        k = n[0]
        if k == 'rep': F.add('q:' + n[4] + ('?' if len(n) > 5 and n[5] else ''))
        elif k == 'cls':
            F.add('class-neg' if n[1] else 'class')
            if n[3] is not None: F.add('class-sub'); F.add('class-sub-nested') if n[3][3] is not None else None
            for it in n[2]:
                F.add({'c': 'cls-char', 'r': 'cls-range', 'esc': 'cls-esc', 'prop': 'cls-prop'}[it[0]])
        elif k == 'esc': F.add('esc:' + n[1])
        elif k == 'prop': F.add('block' if n[1].startswith('Is') else 'category'); F.add('negprop') if n[2] else None
        elif k == 'alt':
            F.add('alt'); F.add('alt-empty-branch') if any(c[0] == 'empty' for c in n[1]) else None
        elif k in ('dot', 'grp', 'bol', 'eol'): F.add(k)
        elif k == 'lit' and n[1] in (SUPP1, SUPP2): F.add('lit-supplementary')
    F.discard(None)
    d = quant_depth(ast)
    if d >= 2: F.add('nested-quant')
    ov = closure_overlap_kind(ast)
    if ov: F.update(ov)
    return F

def closure_overlap_kind(ast):
    """labels 'closure-next-overlap:<0|1|n>' for every variable quantifier over a bare atom that is directly followed, in a sequence,
    by another atom; the number counts the alphabet characters both can match"""
    out = set()
    for n in walk(ast):
        if n[0] != 'seq': continue
        for a, b in zip(n[1], n[1][1:]):
            if a[0] == 'rep' and a[1][0] in ATOMS and (a[3] is None or a[3] != a[2]) and b[0] in ATOMS:
                sh = sum(1 for ch in UNIVERSE if atom_member(a[1], ch) is True and atom_member(b, ch) is True)
                out.add('closure-next-overlap:%s' % ('0' if sh == 0 else '1' if sh == 1 else 'n'))
    return out

def quant_depth(node):
    k = node[0]
    if k == 'rep': return 1 + quant_depth(node[1])
    if k == 'grp': return quant_depth(node[1])
    if k in ('alt', 'seq'): return max([quant_depth(c) for c in node[1]] or [0])
    return 0

def is_risky(ast):
    """may backtrack exponentially in a backtracking matcher: a variable quantifier over something that is not a single-character
    atom, or nested variable quantifiers"""
    def var(n): return n[0] == 'rep' and (n[3] is None or n[3] != n[2])
    def inner(n):
        k = n[0]
        if k == 'grp': return inner(n[1])
        return n
    for n in walk(ast):
        if var(n):
            b = inner(n[1])
            if b[0] not in ATOMS: return True
    return False

def nullable(n):
    k = n[0]
    if k in ATOMS: return False
    if k in ('empty', 'bol', 'eol'): return True
    if k == 'grp': return nullable(n[1])
    if k == 'seq': return all(nullable(c) for c in n[1])
    if k == 'alt': return any(nullable(c) for c in n[1])
    if k == 'rep': return n[2] == 0 or nullable(n[1])
    raise ValueError(n)

def nested_nullable_closure(ast):
    """an unbounded quantifier (* + {n,}) over a body that can match the empty string and itself contains a quantifier that Xerces
    compiles to closure/question operations (* + {n,} {n,m} with n<m; not '?', not {n})"""
    for n in walk(ast):
        if n[0] == 'rep' and n[3] is None and nullable(n[1]):
            if any(m[0] == 'rep' and m[4] != '?' and not (m[3] is not None and m[3] == m[2]) for m in walk(n[1])): return True
    return False

def _item_intervals(it):
    if it[0] == 'c': return [(ord(it[1]), ord(it[1]))]
    if it[0] == 'r': return [(ord(it[1]), ord(it[2]))]
    if it[0] == 'esc' and it[1] == 's': return [(9, 10), (13, 13), (32, 32)]
    if it[0] == 'prop' and it[1].startswith('Is'):
        lo, hi = BLOCKS[it[1]]
        return [(0, lo - 1), (hi + 1, 0x10FFFF)] if it[2] else [(lo, hi)]
    return None      # category / other multi-character escapes: exact ranges are not part of the model

def _coalesce(ivs):
    out = []
    for a, b in sorted(ivs):
        if out and a <= out[-1][1] + 1: out[-1] = (out[-1][0], max(out[-1][1], b))
        else: out.append((a, b))
    return out

def addrange_drop_risk(ast):
    """a character class in which a range item lo-hi follows items that already cover lo but not hi, with a smaller start
    (finding C11-addrange-tail-overlap: RangeToken::addRange drops such a range)"""
    def cls_risk(c):
        known = []; unknown = False
        for it in c[2]:
            if it[0] == 'r' and it[1] != it[2]:
                lo, hi = ord(it[1]), ord(it[2])
                if unknown and lo >= 0xF900: return True
                for S, E in known + _coalesce(known):
                    if S < lo <= E < hi: return True
            iv = _item_intervals(it)
            if iv is None: unknown = True
            else: known += iv
        return c[3] is not None and cls_risk(c[3])
    return any(n[0] == 'cls' and cls_risk(n) for n in walk(ast))

def surrogate_overlap_risk(ast):
    """a supplementary-plane literal outside a class together with a variable quantifier over a single atom: Xerces decides whether the
    quantified atom can overlap what follows by comparing a UTF-16 unit with a code point (finding C11-overlap-surrogate)"""
    supp = any(n[0] == 'lit' and ord(n[1]) > 0xFFFF for n in walk(ast))
    return supp and any(n[0] == 'rep' and n[1][0] in ATOMS and n[4] != '?' and not (n[3] is not None and n[3] == n[2]) for n in walk(ast))

def starts_with_dot_closure(ast):
    n = ast
    while n[0] in ('seq', 'grp'):
        n = n[1][0] if n[0] == 'seq' else n[1]
    return n[0] == 'rep' and n[1][0] == 'dot'

def has_class_subtraction(ast):
    return any(n[0] == 'cls' and n[3] is not None for n in walk(ast))

def nvar(node, mult=1):
    """number of variable-quantifier instances after expanding enclosing counted repetitions (an unbounded one counts 3 copies):
    a backtracking matcher needs about C(n + nvar, nvar) steps on a failing subject of length n even when no quantifier nests"""
    k = node[0]
    if k == 'rep':
        var = node[3] is None or node[3] != node[2]
        copies = 3 if node[3] is None else max(1, node[3])
        return (mult if var else 0) + nvar(node[1], mult * min(copies, 6))
    if k == 'grp': return nvar(node[1], mult)
    if k in ('alt', 'seq'): return sum(nvar(c, mult) for c in node[1])
    return 0

def backtrack_len_bound(ast, budget=2000000):
    """largest subject length in (40, 24, 16, 12, 9, 7, 5) whose estimated backtracking cost stays under `budget`"""
    import math
    nv = nvar(ast)
    cap = 40
    if is_risky(ast): cap = 7 if quant_depth(ast) >= 3 else 12
    for n in (40, 24, 16, 12, 9, 7, 5):
        if n <= cap and math.comb(n + nv, nv) <= budget: return n
    return 5

def first_success_quantifier(ast):
    """pattern contains a quantifier that Xerces compiles to closure/question operations (everything except '?' and {n})"""
    for n in walk(ast):
        if n[0] == 'rep' and n[4] != '?' and not (n[3] is not None and n[3] == n[2]): return True
    return False

# ------------------------------------------------------------------------------------------------
# rendering
# ------------------------------------------------------------------------------------------------
META_OUT = '\\|.?*+()[]{}'          # must be escaped outside a class (XSD 1.1 NormalChar; '{' '}' disputed in 1.0 -> always escaped)
OPT_ESC_OUT = '-^'                  # SingleCharEsc exists, escape optional outside a class
CTRL = {'\n': '\\n', '\r': '\\r', '\t': '\\t'}

def _lit_out(ch, esc, schema):
    if ch in META_OUT: return '\\' + ch
    if not schema and ch in '^$': return '\\' + ch          # anchors in the non-schema dialect
    if ch in CTRL and esc: return CTRL[ch]
    if ch in OPT_ESC_OUT and esc: return '\\' + ch
    return ch

def _lit_cls(ch, esc, first):
    if ch in '\\[]-': return '\\' + ch
    if ch == '^': return '\\^' if (first or esc) else '^'
    if ch in CTRL and esc: return CTRL[ch]
    if ch in '|.?*+(){}' and esc: return '\\' + ch
    return ch

def render_cls(node, top=True):
    neg, items, sub = node[1], node[2], node[3]
    out = ['[', '^' if neg else '']
    for i, it in enumerate(items):
        first = (i == 0)
        if it[0] == 'c':
            if it[1] == '-' and len(it) > 2 and it[2] == 'raw': out.append('-')
            else: out.append(_lit_cls(it[1], it[2] if len(it) > 2 else False, first))
        elif it[0] == 'r': out.append(_lit_cls(it[1], True, first) + '-' + _lit_cls(it[2], True, False))
        elif it[0] == 'esc': out.append('\\' + it[1])
        else: out.append(('\\P{' if it[2] else '\\p{') + it[1] + '}')
    if sub is not None: out.append('-' + render_cls(sub, False))
    out.append(']')
    return ''.join(out)

def render(node, schema=True):
    k = node[0]
    if k == 'lit': return _lit_out(node[1], node[2], schema)
    if k == 'dot': return '.'
    if k == 'esc': return '\\' + node[1]
    if k == 'prop': return ('\\P{' if node[2] else '\\p{') + node[1] + '}'
    if k == 'cls': return render_cls(node)
    if k == 'grp': return '(' + render(node[1], schema) + ')'
    if k == 'empty': return ''
    if k == 'bol': return '^'
    if k == 'eol': return '$'
    if k == 'alt': return '|'.join(render(c, schema) for c in node[1])
    if k == 'seq': return ''.join(render(c, schema) for c in node[1])
    if k == 'rep':
        mn, mx, form = node[2], node[3], node[4]
        q = {'?': '?', '*': '*', '+': '+', 'n': '{%d}' % mn, 'n,': '{%d,}' % mn, 'n,m': '{%d,%s}' % (mn, mx)}[form]
        if len(node) > 5 and node[5]: q += '?'
        return render(node[1], schema) + q
    raise ValueError(node)

def _pyset(chars):
    if not chars: return '(?!)'
    return '[' + ''.join(re.escape(c) for c in sorted(chars)) + ']'

def to_python_re(node, lang):
    """Python `re` source with every atom as an explicit set over the universe (valid for subjects over the universe only)"""
    k = node[0]
    if k in ATOMS: return _pyset(lang.sets[lang._set_of(node)])
    if k == 'grp': return '(?:' + to_python_re(node[1], lang) + ')'
    if k == 'empty': return ''
    if k == 'alt': return '(?:' + '|'.join(to_python_re(c, lang) for c in node[1]) + ')'
    if k == 'seq': return ''.join(to_python_re(c, lang) for c in node[1])
    if k == 'rep':
        mn, mx = node[2], node[3]
        q = '{%d,%s}' % (mn, '' if mx is None else mx)
        if len(node) > 5 and node[5]: q += '?'
        return '(?:' + to_python_re(node[1], lang) + ')' + q
    raise ValueError(node)

# ------------------------------------------------------------------------------------------------
# generators
# ------------------------------------------------------------------------------------------------
BASE_POOL = ['a', 'b', 'c', 'a', 'b', 'A', 'z', '0', '9', '_', '-', '.', ':', ' ', '\t', '\n', ',', 'é', 'Σ', 'я', '中', '٣',
             '€', '(', ')', '[', ']', '{', '}', '*', '+', '?', '|', '\\', '^', '$', SUPP1, SUPP2, '\r', 'Z', 'a', 'b']
RANGE_ENDS = [('a', 'c'), ('a', 'z'), ('A', 'Z'), ('0', '9'), ('b', 'c'), ('a', 'b'), (' ', '~'), ('à', 'ÿ'), ('Α', 'Ω'), ('а', 'я'),
              ('一', '龥'), ('٠', '٩'), ('!', '/'), ('\t', '\r'), ('￮', '\U00010400'), (SUPP1, SUPP2), ('\U00010001', '\U0010ffff'), ('b', 'b'),
              ('0', 'a'), ('é', 'я'), ('\\', ']'), ('*', '-'), ('^', 'a'), ('[', '^')]

@st.composite
def gen_cls(draw, base, depth=0):
    neg = draw(st.booleans()) if depth == 0 else draw(st.sampled_from([False, False, True]))
    n = draw(st.integers(1, 4))
    items = []
    for _ in range(n):
        kind = draw(st.sampled_from(['c', 'c', 'c', 'r', 'r', 'esc', 'prop']))
        if kind == 'c':
            ch = draw(st.sampled_from(base + base + BASE_POOL)); items.append(('c', ch, draw(st.booleans())))
        elif kind == 'r':
            items.append(('r',) + draw(st.sampled_from(RANGE_ENDS)))
        elif kind == 'esc': items.append(('esc', draw(st.sampled_from(MULTI))))
        else:
            items.append(('prop', draw(st.sampled_from(CATEGORIES + list(BLOCKS))), draw(st.booleans())))
    sub = None
    if depth < 2 and draw(st.integers(0, 3)) == 0: sub = draw(gen_cls(base, depth + 1))
    # raw '-' as first or last item (legal there in XSD 1.0 and 1.1): only next to a plain alphanumeric item, never alone
    if len(items) >= 2 and draw(st.integers(0, 7)) == 0:
        if draw(st.booleans()):
            if sub is None and items[-1][0] == 'c' and items[-1][1].isalnum(): items.append(('c', '-', 'raw'))
        elif items[0][0] == 'c' and items[0][1].isalnum(): items.insert(0, ('c', '-', 'raw'))
    return ('cls', neg, items, sub)

@st.composite
def gen_atom(draw, base):
    kind = draw(st.sampled_from(['lit', 'lit', 'lit', 'lit', 'lit', 'dot', 'esc', 'prop', 'cls', 'cls', 'lit2']))
    if kind == 'lit': return ('lit', draw(st.sampled_from(base)), draw(st.booleans()))
    if kind == 'lit2': return ('lit', draw(st.sampled_from(BASE_POOL)), draw(st.booleans()))
    if kind == 'dot': return ('dot',)
    if kind == 'esc': return ('esc', draw(st.sampled_from(MULTI)))
    if kind == 'prop': return ('prop', draw(st.sampled_from(CATEGORIES + list(BLOCKS))), draw(st.booleans()))
    return draw(gen_cls(base))

QUANTS = ['?', '*', '+', 'n', 'n,', 'n,m', '*', '+', 'n,m']

def _wrap_for_rep(node):
    return node if node[0] in ATOMS or node[0] == 'grp' else ('grp', node)
def _wrap_for_seq(node):
    return ('grp', node) if node[0] == 'alt' else node

@st.composite
def gen_quant(draw, child, lazy_ok=False):
    form = draw(st.sampled_from(QUANTS))
    if form == '?': mn, mx = 0, 1
    elif form == '*': mn, mx = 0, None
    elif form == '+': mn, mx = 1, None
    elif form == 'n': mn = draw(st.integers(0, 6)); mx = mn
    elif form == 'n,': mn = draw(st.integers(0, 6)); mx = None
    else:
        mn = draw(st.integers(0, 6)); mx = draw(st.integers(mn, 6))
    lazy = draw(st.integers(0, 2)) == 0 if lazy_ok else False
    return ('rep', _wrap_for_rep(child), mn, mx, form, lazy)

@st.composite
def gen_node(draw, base, depth, lazy_ok=False):
    if depth <= 0: return draw(gen_atom(base))
    kind = draw(st.sampled_from(['atom', 'atom', 'seq', 'seq', 'alt', 'rep', 'rep', 'grp']))
    if kind == 'atom': return draw(gen_atom(base))
    if kind == 'grp': return ('grp', draw(gen_node(base, depth - 1, lazy_ok)))
    if kind == 'rep': return draw(gen_quant(draw(gen_node(base, depth - 1, lazy_ok)), lazy_ok))
    if kind == 'seq':
        n = draw(st.integers(2, 4))
        return ('seq', [_wrap_for_seq(draw(gen_node(base, depth - 1, lazy_ok))) for _ in range(n)])
    n = draw(st.integers(2, 3)); br = []
    for _ in range(n):
        br.append(('empty',) if draw(st.integers(0, 6)) == 0 else draw(gen_node(base, depth - 1, lazy_ok)))
    # an alternation below a sequence/quantifier is wrapped by the callers; as a child of 'alt' flatten is not needed
    return ('alt', [b if b[0] != 'alt' else ('grp', b) for b in br])

def count_groups(ast):
    """number of capturing groups of the non-schema rendering (every 'grp' node, numbered in order of its opening parenthesis)"""
    return sum(1 for n in walk(ast) if n[0] == 'grp')

# hand-written capture shapes for the Match-reuse lane: (pattern, subjects ordered so that consecutive calls alternate between
# "group takes part" and "group is skipped")
CAPTURE_HAND = [
    ('(a)?b\\1', ['aba', 'b', 'ab', 'bb', 'abab', 'a', 'xb']),
    ('(a)|(b)', ['a', 'b', 'ca', 'cb', 'c', 'ab']),
    ('(x(y)?)*z', ['xyxz', 'z', 'xyz', 'xz', 'xyxyz', 'y']),
    ('((a)|(b))+c', ['abc', 'bc', 'ac', 'c', 'bac', 'aabc']),
    ('(a)(b)?(c)?', ['abc', 'a', 'ab', 'ac', 'xa', 'b']),
    ('(a)?(b)?\\2\\1', ['abba', '', 'bb', 'aa', 'ab', 'abab']),
    ('a', ['a', 'b', 'ba']),
    ('(((a)))?b', ['ab', 'b', 'aab', 'a']),
    ('(a|(b))*c\\2', ['abcb', 'ac', 'bcb', 'c', 'aac', 'bc']),
    ('(\\d)?(\\s)?x\\1', ['1x1', 'x', ' x', '1 x1', '9x', '1x2']),
]

HAND = [
    # hand-written shapes from the design (nested counted groups, overlapping alternatives, nullable loops)
    ('seq', [('rep', ('grp', ('rep', ('lit', 'a', False), 2, 3, 'n,m', False)), 2, 2, 'n', False)]),
    ('rep', ('grp', ('rep', ('lit', 'a', False), 0, None, '*', False)), 0, None, '*', False),
    ('seq', [('grp', ('alt', [('lit', 'a', False), ('seq', [('lit', 'a', False), ('lit', 'b', False)])])),
             ('grp', ('alt', [('lit', 'c', False), ('seq', [('lit', 'b', False), ('lit', 'c', False), ('lit', 'd', False)])]))]),
    ('rep', ('grp', ('alt', [('lit', 'a', False), ('empty',)])), 0, None, '*', False),
    ('seq', [('rep', ('lit', 'a', False), 0, 0, 'n', False), ('lit', 'b', False)]),
    ('seq', [('rep', ('lit', 'a', False), 0, 0, 'n,m', False), ('lit', 'b', False)]),
]

# ------------------------------------------------------------------------------------------------
# family "closure next to an overlapping atom": a quantified character class (never grouped) immediately followed by a class or
# literal whose code points overlap the closure's class in 0 (incl. directly adjacent), exactly 1 (at the closure class's upper or
# lower end) or several code points -- the situation in which Xerces decides (RegularExpression::doTokenOverlap ->
# RangeToken::intersectRanges) whether the closure may be compiled as a non-backtracking one.  All boundary characters are characters
# of the curated alphabet (incl. the two supplementary ones), and they lead the pattern's subject alphabet, so the exhaustive subjects
# contain the strings that force the closure to give the shared character back ("cb" for [bc]*[ab]).
# ------------------------------------------------------------------------------------------------
POINTS = sorted(UNIVERSE, key=ord)
OVERLAP_KINDS = ['one-hi', 'one-lo', 'one-hi', 'one-lo', 'none-adjacent', 'none', 'several', 'same', 'inside']

def _span_items(lo_i, hi_i, form, extra=None):
    """class items for the universe points POINTS[lo_i..hi_i]: one range, or the individual characters"""
    lo, hi = POINTS[lo_i], POINTS[hi_i]
    if lo_i == hi_i: items = [('c', lo, True)]
    elif form == 'chars': items = [('c', POINTS[k], True) for k in range(lo_i, hi_i + 1)]
    else: items = [('r', lo, hi)]
    if extra is not None: items = ([extra] + items) if ord(extra[1]) < ord(lo) else (items + [extra])
    return items

@st.composite
def gen_overlap_family(draw):
    n = len(POINTS)
    kind = draw(st.sampled_from(OVERLAP_KINDS))
    i = draw(st.integers(2, n - 3))                      # index of the pivot point p
    k = draw(st.integers(0, 2)); j = draw(st.integers(0, 2))
    lo = max(0, i - k); hi = min(n - 1, i + j)
    if kind == 'one-hi':   X = (lo, i); Y = (i, hi)      # closure class ends where the follower begins
    elif kind == 'one-lo': X = (i, hi); Y = (lo, i)      # closure class begins where the follower ends
    elif kind == 'none-adjacent':                        # disjoint, nothing in between (in the alphabet; for a b c also in Unicode)
        X, Y = (max(0, i - 1 - k), i - 1), (i, hi)
        if draw(st.booleans()): X, Y = Y, X
    elif kind == 'none':
        X, Y = (max(0, i - 2 - k), i - 2), (i, hi)
        if draw(st.booleans()): X, Y = Y, X
    elif kind == 'several': X = (max(0, i - 1 - k), i + 1); Y = (i, min(n - 1, i + 2 + j))
    elif kind == 'same':    X = (lo, hi); Y = (lo, hi)
    else:                   X = (max(0, i - 1 - k), min(n - 1, i + 1 + j)); Y = (i, i)        # follower strictly inside
    if kind in ('several', 'inside') and draw(st.booleans()): X, Y = Y, X
    fx = draw(st.sampled_from(['range', 'range', 'chars'])); fy = draw(st.sampled_from(['range', 'range', 'chars']))
    # optionally a second, far-away range in the closure class ([9a-f]{2,}[0-9] style)
    extra = None
    if draw(st.integers(0, 3)) == 0:
        far = [q for q in (0, 1, n - 2, n - 1) if q < min(X[0], Y[0]) - 1 or q > max(X[1], Y[1]) + 1]
        if far: extra = ('c', POINTS[draw(st.sampled_from(far))], True)
    xcls = ('cls', False, _span_items(X[0], X[1], fx, extra), None)
    if Y[0] == Y[1] and draw(st.booleans()): follower = ('lit', POINTS[Y[0]], draw(st.booleans()))
    else: follower = ('cls', False, _span_items(Y[0], Y[1], fy), None)
    form = draw(st.sampled_from(['*', '*', '+', 'n,', 'n,m', '?']))
    if form == '*': mn, mx = 0, None
    elif form == '+': mn, mx = 1, None
    elif form == 'n,': mn, mx = draw(st.integers(0, 3)), None
    elif form == '?': mn, mx = 0, 1
    else:
        mn = draw(st.integers(0, 2)); mx = draw(st.integers(mn + 1, 5))
    parts = [('rep', xcls, mn, mx, form, False), follower]
    shape = draw(st.integers(0, 5))
    if shape == 0: parts.insert(0, ('lit', POINTS[draw(st.integers(0, n - 1))], False))
    elif shape == 1: parts.append(('rep', follower, 0, 1, '?', False))
    elif shape == 2: parts.append(draw(gen_atom([POINTS[i]])))
    elif shape == 3: parts = [('rep', ('grp', ('seq', parts)), 1, 2, 'n,m', False)]
    # the subject alphabet starts with the pivot, then a character only the closure class has, then one only the follower has
    xs = set(range(X[0], X[1] + 1)); ys = set(range(Y[0], Y[1] + 1))
    base = [POINTS[i]] + [POINTS[q] for q in sorted(xs - ys)[:1]] + [POINTS[q] for q in sorted(ys - xs)[-1:]]
    if len(base) < 3: base += [POINTS[q] for q in sorted(xs | ys) if POINTS[q] not in base][:3 - len(base)]
    return ('seq', parts), base

@st.composite
def gen_pattern(draw, maxdepth=4, lazy_ok=False):
    """-> (ast, base alphabet).  Roughly 1 in 30 patterns is one of the hand-written shapes, 1 in 8 of the closure-overlap family."""
    nb = draw(st.integers(1, 3))
    base = [draw(st.sampled_from(BASE_POOL)) for _ in range(nb)]
    sel = draw(st.integers(0, 31))
    if sel == 0: return draw(st.sampled_from(HAND)), ['a', 'b', 'c']
    if sel <= 4: return draw(gen_overlap_family())
    depth = draw(st.integers(1, maxdepth))
    return draw(gen_node(base, depth, lazy_ok)), base

# ------------------------------------------------------------------------------------------------
# malformed patterns: (rule, function(text) -> text); every rule yields a malformed expression for ANY well-formed seed, in
# XSD 1.0 2e and XSD 1.1 alike
# ------------------------------------------------------------------------------------------------
MALFORMED_RULES = [
    ('unclosed-paren', lambda p: p + '('),
    ('unclosed-paren-front', lambda p: '(' + p),
    ('unmatched-close-paren', lambda p: p + ')'),
    ('unclosed-class', lambda p: p + '[a'),
    ('unclosed-class-neg', lambda p: p + '[^a-c'),
    ('quant-min-gt-max', lambda p: p + 'a{3,2}'),
    ('quant-no-min', lambda p: p + 'a{,3}'),
    ('leading-star', lambda p: '*' + p),
    ('leading-plus', lambda p: '+' + p),
    ('leading-question', lambda p: '?' + p),
    ('star-after-bar', lambda p: p + '|*'),
    ('star-after-open', lambda p: p + '(*a)'),
    ('double-star', lambda p: p + 'a**'),
    ('plus-star', lambda p: p + 'a+*'),
    ('question-counted', lambda p: p + 'a?{2}'),
    ('counted-counted', lambda p: p + 'a{2}{3}'),
    ('lazy-star', lambda p: p + 'a*?'),
    ('bad-escape-q', lambda p: p + '\\q'),
    ('bad-escape-dollar', lambda p: p + '\\$'),
    ('bad-escape-a', lambda p: p + '\\a'),
    ('bad-escape-in-class', lambda p: p + '[\\q]'),
    ('trailing-backslash', lambda p: p + '\\'),
    ('reversed-range', lambda p: p + '[z-a]'),
    ('reversed-range-2', lambda p: p + '[a9-0]'),
    ('unknown-category', lambda p: p + '\\p{Foo}'),
    ('unknown-category-neg', lambda p: p + '\\P{Lx}'),
    ('unknown-block', lambda p: p + '\\p{IsFoo}'),
    ('unknown-category-in-class', lambda p: p + '[a\\p{Xy}]'),
    ('category-unterminated', lambda p: p + '\\p{L'),
    ('category-no-brace', lambda p: p + '\\pL'),
    ('category-bare', lambda p: p + '\\p'),
    ('empty-class', lambda p: p + '[]'),
    ('empty-neg-class', lambda p: p + '[^]'),
    ('range-to-multi-escape', lambda p: p + '[a-\\d]'),
    ('unescaped-open-bracket-in-class', lambda p: p + '[a[]'),
    ('subtraction-not-closed', lambda p: p + '[a-[b]c]'),
    ('lone-high-surrogate', lambda p: p + '\ud800a'),
    ('lone-high-surrogate-in-class', lambda p: p + '[\ud800a]'),
]
# backreference-like escapes are malformed in the schema dialect too, but Xerces answers RuntimeException (finding C11-backref-escape)
BACKREF_RULES = [('backref-escape', lambda p: p + '\\1'), ('backref-escape-in-group', lambda p: '(' + p + ')\\1')]

# ------------------------------------------------------------------------------------------------
def selftest():
    """model tables vs unicodedata (14.0): categories of the curated BMP alphabet must agree; blocks are arithmetic."""
    bad = []
    for ch, g in GC.items():
        if g is not None and unicodedata.category(ch) != g: bad.append((ch, g, unicodedata.category(ch)))
    return bad

if __name__ == '__main__':
    print('selftest mismatches:', selftest())
