"""icmodel.py -- M5: identity-constraint reference model (C10).

  * restricted XPath subset of XSD 1.0 Structures 3.11.6 (child steps, leading .//, *, p:*, @a, | unions, prefixes, '.'),
    parsed into a small AST, rendered with lexical freedom, evaluated on xsdmodel.Node trees
  * typed field values in the value space (string, token, integer, decimal, boolean, date, QName)
  * unique / key / keyref semantics of 3.11.4 incl. node tables propagated from descendants with conflict removal
  * generators: schema with a recursive scope type, constraint definitions, instances built FROM tuple tables
"""
import re
from decimal import Decimal
from hypothesis import strategies as st
import xsdmodel as xm

TNS = 'urn:t'

# ==================================================================================================
# value spaces
# ==================================================================================================
# pools: value id -> list of lexical forms that denote the same value (first = plain form)
# Inside one primitive family the first COMMON entries denote the SAME values in every member type (used when compared fields have
# different but related types); later entries are type specific.
COMMON = 5
POOLS = {
    'string':  [['a'], ['b'], ['A'], ['a b'], ['1'], [' a'], ['a  b'], ['01'], ['']],
    'normalizedString': [['a'], ['b'], ['A'], ['a b', 'a\tb'], ['1'], [' a'], ['a  b']],
    'token':   [['a', ' a', 'a ', ' a '], ['b', '\tb'], ['A'], ['a b', 'a  b', ' a b '], ['1', ' 1'], ['01']],
    'integer': [['1', '01', '+1', ' 1 ', '001'], ['0', '00', '+0', '-0'], ['2', '+2'], ['10', '010'], ['7', '07', '+7'], ['-1', '-01'], ['12345678901234567890', '+12345678901234567890']],
    'decimal': [['1', '1.0', '01', '+1', '1.00'], ['0', '0.0', '-0', '+0.00'], ['2', '2.0'], ['10', '10.0', '010.00'], ['7', '7.0', '+7.00'], ['1.5', '1.50', '+1.5', '01.5'], ['-1.5', '-1.50'], ['0.1', '0.10', '00.1']],
    'long':    [['1', '01', '+1'], ['0', '00', '+0'], ['2', '+2'], ['10', '010'], ['7', '07', '+7'], ['-1', '-01'], ['9223372036854775807']],
    'short':   [['1', '01', '+1'], ['0', '00'], ['2', '+2'], ['10', '010'], ['7', '07', '+7'], ['-1'], ['32767']],
    'nonNegativeInteger': [['1', '01', '+1'], ['0', '00', '+0'], ['2', '+2'], ['10', '010'], ['7', '07', '+7'], ['12345678901234567890']],
    'boolean': [['true', '1', ' true '], ['false', '0']],
    'date':    [['2001-01-01'], ['2001-01-01Z', '2001-01-01+00:00'], ['2001-01-02'], ['2000-02-29Z', '2000-02-29+00:00'], ['1999-12-31']],
    'QName':   [['qa:x', 'qb:x'], ['qa:y', 'qb:y'], ['qc:x'], ['x'], ['y']],
}
FAMILY = {'decimal': ['decimal', 'integer', 'long', 'short', 'nonNegativeInteger'], 'string': ['string', 'normalizedString', 'token']}
FAMILY_OF = {t: f for f, ts in FAMILY.items() for t in ts}
def related_types(t):
    """types whose values are comparable with t in the value space (same primitive type); t itself included"""
    return FAMILY.get(FAMILY_OF.get(t), [t])
QNAME_NS = {'qa': 'urn:q1', 'qb': 'urn:q1', 'qc': 'urn:q2'}
CORE_TYPES = ['string', 'token', 'integer', 'decimal', 'boolean']
EXT_TYPES = ['date', 'QName']

def value_key(tname, lex, nsmap=None):
    """value-space identity of a lexical form (only for forms this module generates)"""
    if tname == 'string': return ('s', lex)
    if tname == 'normalizedString': return ('s', lex.replace('\t', ' ').replace('\n', ' ').replace('\r', ' '))
    s = ' '.join(lex.split())
    if tname == 'token': return ('s', s)
    if tname in FAMILY['decimal']:
        d = Decimal(s if not s.endswith('.') else s + '0')
        return ('d', d.normalize() + 0 if d != 0 else Decimal(0))
    if tname == 'boolean': return ('b', s in ('true', '1'))
    if tname == 'date':
        m = re.fullmatch(r'(-?[0-9]{4,})-([0-9]{2})-([0-9]{2})(Z|[+-][0-9]{2}:[0-9]{2})?', s)
        y, mo, d, tz = int(m.group(1)), int(m.group(2)), int(m.group(3)), m.group(4)
        if tz is None: return ('date', y, mo, d, None)
        off = 0 if tz == 'Z' else (1 if tz[0] == '+' else -1) * (int(tz[1:3]) * 60 + int(tz[4:6]))
        if off != 0: raise ValueError('only UTC zones are generated')
        return ('date', y, mo, d, 0)
    if tname == 'QName':
        if ':' in s:
            p, l = s.split(':', 1); return ('q', (nsmap or QNAME_NS)[p], l)
        return ('q', '', s)
    raise KeyError(tname)

def selftest_pools():
    for t, pool in POOLS.items():
        keys = []
        for forms in pool:
            ks = {value_key(t, f) for f in forms}
            assert len(ks) == 1, (t, forms, ks)
            keys.append(ks.pop())
        assert len(set(keys)) == len(keys), (t, keys)
    for fam, ts in FAMILY.items():
        for i in range(COMMON):
            assert len({value_key(t, POOLS[t][i][0]) for t in ts}) == 1, (fam, i)

# ==================================================================================================
# XPath subset
#   path := {'desc': bool, 'steps': [step...], 'attr': (ns, local) | None}
#   step := '.' | (ns, local) | (ns, '*') | '*'
# ==================================================================================================
def render_path(p, prefix, style=0):
    """prefix: {ns: prefix}.  style selects among equivalent spellings (abbreviated / child:: axis / spaces)"""
    def name(t):
        if t == '.': return '.'
        if t == '*': return ('child::*' if style == 1 else '*')
        ns, l = t
        q = (prefix[ns] + ':' + l) if ns else l
        return ('child::' + q) if style == 1 else q
    parts = [name(s) for s in p['steps']]
    if p['attr'] is not None:
        ns, l = p['attr']; q = (prefix[ns] + ':' + l) if ns else l
        parts.append(('attribute::' if style == 1 else '@') + q)
    sep = ' / ' if style == 2 else '/'
    body = sep.join(parts)
    if p['desc']: body = ('.//' if style != 2 else './/') + body
    elif style == 2 and p['steps'] and p['steps'][0] != '.': body = './' + body
    return body

def render_paths(paths, prefix, style=0):
    return (' | ' if style == 2 else '|').join(render_path(p, prefix, style) for p in paths)

def match_step(step, n):
    if step == '*': return True
    ns, l = step
    if l == '*': return n.ns == ns
    return n.ns == ns and n.name == l

def descendants_or_self(n, out=None):
    out = [] if out is None else out
    out.append(n)
    for c in n.elems(): descendants_or_self(c, out)
    return out

def eval_path(scope, p):
    """-> list of element Nodes (document order, no duplicates), or list of ('@', node, key) for attribute paths"""
    cur = descendants_or_self(scope) if p['desc'] else [scope]
    for s in p['steps']:
        if s == '.': continue
        nxt = []
        for n in cur:
            for c in n.elems():
                if match_step(s, c) and not any(c is x for x in nxt): nxt.append(c)
        cur = nxt
    if p['attr'] is not None:
        ans, al = p['attr']; out = []
        for n in cur:
            for key in sorted(n.attrs):
                if key[0] == ans and (al == '*' or key[1] == al): out.append(('@', n, key))
        return out
    return cur

def eval_paths(scope, paths):
    out = []
    for p in paths:
        for n in eval_path(scope, p):
            if isinstance(n, tuple):
                if not any(isinstance(x, tuple) and x[1] is n[1] and x[2] == n[2] for x in out): out.append(n)
            elif not any(n is x for x in out): out.append(n)
    # document order
    return out

# ==================================================================================================
# constraints and their semantics
# ==================================================================================================
class IC:
    def __init__(self, kind, name, selector, fields, refer=None, on='r'):
        self.kind = kind; self.name = name; self.selector = selector; self.fields = fields; self.refer = refer; self.on = on
    def to_json(self):
        return {'kind': self.kind, 'name': self.name, 'selector': self.selector, 'fields': self.fields, 'refer': self.refer, 'on': self.on}

class ICModel:
    """typing: function (element Node | ('@', node, key)) -> simple type name or None (not simple-typed)"""
    def __init__(self, ics, typing, scope_names):
        self.ics = ics; self.typing = typing; self.scope_names = scope_names      # scope_names: {'r': (ns, name), 'g': (ns, name)}
    def field_value(self, target, fpaths):
        """-> ('multi',) | ('absent',) | ('value', key)"""
        nodes = eval_paths(target, fpaths)
        if len(nodes) > 1: return ('multi',)
        if not nodes: return ('absent',)
        n = nodes[0]
        t = self.typing(n, self.parent)
        if t is None: return ('notsimple',)
        lex = n[1].attrs[n[2]] if isinstance(n, tuple) else n.text()
        return ('value', value_key(t, lex), lex, t)
    def tuples(self, scope, ic):
        """-> list of (target node, [field results])"""
        return [(t, [self.field_value(t, f) for f in ic.fields]) for t in eval_paths(scope, ic.selector)]
    def check(self, root):
        """-> set of violation kinds (empty == valid).  Also fills self.stats."""
        self.viol = set(); self.stats = {'tuples': 0, 'scopes': 0, 'equal_lex_diff': 0, 'cross_type': 0}; self._lex = {}; self._typ = {}
        self.parent = {}
        def pm(n):
            for c in n.elems(): self.parent[id(c)] = n; pm(c)
        pm(root)
        self._tables(root)
        return self.viol
    def _tables(self, n):
        """post-order: returns {ic name: {key-sequence: node | CONFLICT}} of key/unique tables visible at n (3.11.4/3.11.5)"""
        child_tables = [self._tables(c) for c in n.elems()]
        own_ics = [ic for ic in self.ics if self.scope_names.get(ic.on) == n.key()]
        tables = {}
        # propagate from children: union; the same key-sequence from two different nodes is a conflict and is dropped
        CONFLICT = object()
        for ct in child_tables:
            for name, tab in ct.items():
                t = tables.setdefault(name, {})
                for ks, node in tab.items():
                    if ks in t and t[ks] is not node: t[ks] = CONFLICT
                    elif ks not in t: t[ks] = node
        for name in list(tables):
            tables[name] = {ks: nd for ks, nd in tables[name].items() if nd is not CONFLICT}
        if own_ics: self.stats['scopes'] += 1
        for ic in own_ics:
            if ic.kind == 'keyref': continue
            tl = self.tuples(n, ic)
            self.stats['tuples'] += len(tl)
            qualified = {}; lexseen = {}
            for target, fv in tl:
                if any(v[0] == 'multi' for v in fv): self.viol.add('field-multi'); continue
                if any(v[0] == 'notsimple' for v in fv): self.viol.add('field-notsimple'); continue
                if any(v[0] == 'absent' for v in fv):
                    if ic.kind == 'key': self.viol.add('key-absent')
                    continue
                ks = tuple(v[1] for v in fv); lx = tuple(v[2] for v in fv)
                if ks in lexseen and lexseen[ks] != lx: self.stats['equal_lex_diff'] += 1
                lexseen.setdefault(ks, lx); self._lex.setdefault((ic.name, ks), lx)
                ty = tuple(v[3] for v in fv)
                if self._typ.setdefault((ic.name, ks), ty) != ty: self.stats['cross_type'] += 1
                if ks in qualified: self.viol.add('dup-' + ic.kind)
                else: qualified[ks] = target
            # own entries take precedence over propagated ones
            t = tables.setdefault(ic.name, {})
            for ks, node in qualified.items(): t[ks] = node
        for ic in own_ics:
            if ic.kind != 'keyref': continue
            tl = self.tuples(n, ic)
            self.stats['tuples'] += len(tl)
            tab = tables.get(ic.refer, {})
            for target, fv in tl:
                if any(v[0] == 'multi' for v in fv): self.viol.add('field-multi'); continue
                if any(v[0] != 'value' for v in fv): continue
                ks = tuple(v[1] for v in fv)
                if ks not in tab: self.viol.add('keyref-notfound')
                else:
                    if tuple(v[2] for v in fv) != self._lex.get((ic.refer, ks), tuple(v[2] for v in fv)): self.stats['equal_lex_diff'] += 1
                    if tuple(v[3] for v in fv) != self._typ.get((ic.refer, ks), tuple(v[3] for v in fv)): self.stats['cross_type'] += 1
        return tables

# ==================================================================================================
# schema + instance generation
# ==================================================================================================
# carriers: k and f have type K: attributes x (T['kx']), y (T['ky']); children c{0,2} of type C: text T['c'], attribute x T['cx']
#           j has type J: text T['j'], attribute x T['jx']
#           n noise (xs:string);  g nested scope (type G, recursive)
XNS = [('v', 'urn:v'), ('w', 'urn:w')]
def pfx(tns): return {TNS: 'p', 'urn:v': 'v', 'urn:w': 'w'}

def render_ic(ic, tns, style=0, ind='    '):
    pre = pfx(tns)
    a = ' name="%s"' % ic.name
    if ic.kind == 'keyref': a += ' refer="%s%s"' % ('p:' if tns else '', ic.refer)
    s = '%s<xs:%s%s>\n' % (ind, ic.kind, a)
    s += '%s  <xs:selector xpath="%s"/>\n' % (ind, xm.xml_esc(render_paths(ic.selector, pre, style), True))
    for f in ic.fields: s += '%s  <xs:field xpath="%s"/>\n' % (ind, xm.xml_esc(render_paths(f, pre, style), True))
    return s + '%s</xs:%s>\n' % (ind, ic.kind)

def render_schema(tns, T, ics, style=0, cmax=2, lns=None, xns=()):
    q = 'p:' if tns else ''
    a = ' xmlns:xs="%s"' % xm.XS
    if lns is None: lns = tns
    if tns: a += ' xmlns:p="%s" targetNamespace="%s"%s' % (tns, tns, ' elementFormDefault="qualified"' if lns == tns else '')
    for pr, ns in xns: a += ' xmlns:%s="%s"' % (pr, ns)
    imports = ''.join('  <xs:import namespace="%s" schemaLocation="%s.xsd"/>\n' % (ns, pr) for pr, ns in xns)
    xattrs = ''.join('<xs:attribute ref="%s:x"/>' % pr for pr, ns in xns)
    xrefs = ''.join('      <xs:element ref="%s:k"/>\n      <xs:element ref="%s:f"/>\n' % (pr, pr) for pr, ns in xns)
    for pr, ns in sorted(QNAME_NS.items()): a += ' xmlns:%s="%s"' % (pr, ns)
    on_r = ''.join(render_ic(ic, tns, style) for ic in ics if ic.on == 'r')
    on_g = ''.join(render_ic(ic, tns, style, '        ') for ic in ics if ic.on == 'g')
    return ('<?xml version="1.0"?>\n<xs:schema%s>\n' % a + imports +
            '  <xs:complexType name="C"><xs:simpleContent><xs:extension base="xs:%s"><xs:attribute name="x" type="xs:%s"/></xs:extension></xs:simpleContent></xs:complexType>\n' % (T['c'], T['cx']) +
            '  <xs:complexType name="J"><xs:simpleContent><xs:extension base="xs:%s"><xs:attribute name="x" type="xs:%s"/></xs:extension></xs:simpleContent></xs:complexType>\n' % (T['j'], T['jx']) +
            '  <xs:complexType name="CF"><xs:simpleContent><xs:extension base="xs:%s"><xs:attribute name="x" type="xs:%s"/></xs:extension></xs:simpleContent></xs:complexType>\n' % (T['fc'], T['fcx']) +
            '  <xs:complexType name="K">\n    <xs:sequence><xs:element name="c" type="%sC" minOccurs="0" maxOccurs="%d"/></xs:sequence>\n' % (q, cmax) +
            '    <xs:attribute name="x" type="xs:%s"/><xs:attribute name="y" type="xs:%s"/>%s\n  </xs:complexType>\n' % (T['kx'], T['ky'], xattrs) +
            '  <xs:complexType name="F">\n    <xs:sequence><xs:element name="c" type="%sCF" minOccurs="0" maxOccurs="%d"/></xs:sequence>\n' % (q, cmax) +
            '    <xs:attribute name="x" type="xs:%s"/><xs:attribute name="y" type="xs:%s"/>%s\n  </xs:complexType>\n' % (T['fx'], T['fy'], xattrs) +
            '  <xs:complexType name="G">\n    <xs:choice minOccurs="0" maxOccurs="unbounded">\n' +
            '      <xs:element name="k" type="%sK"/>\n      <xs:element name="f" type="%sF"/>\n      <xs:element name="j" type="%sJ"/>\n' % (q, q, q) +
            '      <xs:element name="n" type="xs:string"/>\n' + xrefs +
            ('      <xs:element name="g" type="%sG">\n%s      </xs:element>\n' % (q, on_g) if on_g else '      <xs:element name="g" type="%sG"/>\n' % q) +
            '    </xs:choice>\n  </xs:complexType>\n' +
            ('  <xs:element name="r" type="%sG">\n%s  </xs:element>\n' % (q, on_r) if on_r else '  <xs:element name="r" type="%sG"/>\n' % q) +
            '</xs:schema>\n')

def render_extra(pr, ns, T):
    """imported schema for one extra namespace: global attribute pr:x, global elements pr:k / pr:f (attribute-only carriers)"""
    a = ' xmlns:xs="%s" xmlns:%s="%s" targetNamespace="%s"' % (xm.XS, pr, ns, ns)
    for qp, qn in sorted(QNAME_NS.items()): a += ' xmlns:%s="%s"' % (qp, qn)
    return ('<?xml version="1.0"?>\n<xs:schema%s>\n  <xs:attribute name="x" type="xs:%s"/>\n' % (a, T['kx']) +
            '  <xs:complexType name="K"><xs:attribute name="x" type="xs:%s"/><xs:attribute name="y" type="xs:%s"/><xs:attribute ref="%s:x"/></xs:complexType>\n' % (T['kx'], T['ky'], pr) +
            '  <xs:complexType name="F"><xs:attribute name="x" type="xs:%s"/><xs:attribute name="y" type="xs:%s"/><xs:attribute ref="%s:x"/></xs:complexType>\n' % (T['fx'], T['fy'], pr) +
            '  <xs:element name="k" type="%s:K"/>\n  <xs:element name="f" type="%s:F"/>\n</xs:schema>\n' % (pr, pr))

def render_schemas(case):
    """-> {sysid: text}: s.xsd plus one imported document per extra namespace"""
    xns = case.get('xns', [])
    out = {'s.xsd': render_schema(case['tns'], case['T'], case['ics'], case['style'], lns=case.get('lns', case['tns']), xns=xns)}
    for pr, ns in xns: out[pr + '.xsd'] = render_extra(pr, ns, case['T'])
    return out

def typing_for(tns, T):
    def typing(n, parent=None):
        parent = parent or {}
        def c_of(el):            # c under k -> type C, c under f -> type CF
            p = parent.get(id(el))
            return ('fc', 'fcx') if p is not None and p.name == 'f' else ('c', 'cx')
        if isinstance(n, tuple):
            _, el, key = n
            if key[0] in ('urn:v', 'urn:w') and key[1] == 'x' and el.name in ('k', 'f'): return T['kx']      # global attribute v:x / w:x
            if key != ('', 'x') and key != ('', 'y'): return None
            if el.name == 'k': return T['kx'] if key[1] == 'x' else T['ky']
            if el.name == 'f': return T['fx'] if key[1] == 'x' else T['fy']
            if el.name == 'c': return T[c_of(el)[1]] if key[1] == 'x' else None
            if el.name == 'j': return T['jx'] if key[1] == 'x' else None
            return None
        if n.name == 'c': return T[c_of(n)[0]]
        if n.name == 'j': return T['j']
        if n.name == 'n': return 'string'
        return None
    return typing

# field slots of a carrier: how a field path reads it and how a value is written into a Node
SLOTS_K = {'@x': 'kx', '@y': 'ky', 'c': 'c', 'c/@x': 'cx'}
SLOTS_F = {'@x': 'fx', '@y': 'fy', 'c': 'fc', 'c/@x': 'fcx'}
SLOTS_J = {'.': 'j', '@x': 'jx'}
def slots_for(car): return SLOTS_J if car == 'j' else SLOTS_F if car == 'f' else SLOTS_K

def field_path(expr, tns):
    steps = []; attr = None
    for part in expr.split('/'):
        if part == '.': steps.append('.')
        elif part.startswith('@'): attr = ('', part[1:])
        else: steps.append((tns, part))
    return {'desc': False, 'steps': steps, 'attr': attr}

def sel_path(expr, tns):
    desc = expr.startswith('.//')
    if desc: expr = expr[3:]
    steps = []
    for part in expr.split('/'):
        if part == '*': steps.append('*')
        elif part == 'p:*': steps.append((tns, '*'))
        elif part == '.': steps.append('.')
        else: steps.append((tns, part))
    return {'desc': desc, 'steps': steps, 'attr': None}

SELECTORS_CORE = [('k', ['k']), ('f', ['f']), ('k|f', ['k', 'f'])]
SELECTORS_EXT = [('.//k', ['k']), ('g/k', ['k']), ('*/k', ['k']), ('.//g/k', ['k']), ('j', ['j']), ('k|j', ['k', 'j']), ('./k', ['k']), ('.//f', ['f']), ('p:*', ['k', 'f', 'j', 'n', 'g'])]

def set_slot(node, slot, lex, tns):
    slot = {'fx': 'kx', 'fy': 'ky', 'fc': 'c', 'fcx': 'cx'}.get(slot, slot)
    if slot == 'vx': node.attrs[('urn:v', 'x')] = lex
    elif slot == 'wx': node.attrs[('urn:w', 'x')] = lex
    elif slot in ('kx', 'jx'): node.attrs[('', 'x')] = lex
    elif slot == 'ky': node.attrs[('', 'y')] = lex
    elif slot == 'j': node.children = [lex] if lex != '' else []
    elif slot == 'c':
        cs = [c for c in node.elems() if c.name == 'c']
        if cs: cs[0].children = [lex] if lex != '' else []; cs[0]._needs_text = False
        else: node.children.append(xm.Node(tns, 'c', children=[lex] if lex != '' else []))
    elif slot == 'cx':
        cs = [c for c in node.elems() if c.name == 'c']
        if cs: cs[0].attrs[('', 'x')] = lex
        else:
            c = xm.Node(tns, 'c', {('', 'x'): lex}); node.children.append(c)
            c._needs_text = True

@st.composite
def gen_case(draw, ext=False, big=False, propagate=False, related=True):
    """-> dict(tns, T, ics, style, root Node, plan labels)"""
    tns = draw(st.sampled_from(['', TNS]))
    types = CORE_TYPES + (EXT_TYPES if ext else [])
    if related: types = types + ['decimal', 'integer', 'long', 'nonNegativeInteger', 'normalizedString', 'short']     # bias towards families with several members
    T = {s: draw(st.sampled_from(types)) for s in ('kx', 'ky', 'c', 'cx', 'j')}
    # compared positions of different carriers (k / f / j) get types of ONE primitive family: equal (default) or related (3.11.4: value-space
    # equality; integer 7 = decimal 7.0); cross-primitive pairs are never generated (R2)
    def rel(t): return draw(st.sampled_from(related_types(t))) if related and draw(st.integers(0, 2)) > 0 else t
    T['fx'] = rel(T['kx']); T['fy'] = rel(T['ky']); T['fc'] = rel(T['c']); T['fcx'] = rel(T['cx']); T['jx'] = rel(T['kx'])
    style = draw(st.sampled_from([0, 0, 1, 2]))
    sels = SELECTORS_CORE + (SELECTORS_EXT if ext else [])
    # --- primary key-like constraint
    def draw_fields(carriers, nmax=3):
        slots = SLOTS_J if carriers == ['j'] else ({'@x': None} if 'j' in carriers else SLOTS_K)
        names = sorted(slots)
        if not ext: names = [n for n in names if n.startswith('@')]
        k = draw(st.integers(1, min(nmax, len(names))))
        return draw(st.permutations(names))[:k]
    ics = []
    sel, carriers = draw(st.sampled_from([s for s in sels if s[0] != 'p:*' and s[1] != ['f']]))
    fields = draw_fields(carriers)
    kind = draw(st.sampled_from(['unique', 'key', 'key']))
    on = 'g' if ext and draw(st.integers(0, 3)) == 0 else 'r'
    ics.append(IC(kind, 'K1', [sel_path(x, tns) for x in sel.split('|')], [[field_path(f, tns)] for f in fields], on=on))
    labels = ['sel:' + sel, 'kind:' + kind, 'nfields:%d' % len(fields), 'on:' + on] + ['field:' + f for f in fields]
    # --- keyref onto it (carriers f, same slots)
    have_ref = draw(st.integers(0, 3)) > 0 and carriers != ['j'] and 'j' not in carriers
    if have_ref:
        rsel = draw(st.sampled_from(['f'] + (['.//f'] if ext else [])))
        # key and keyref live on the same scope element: keyrefs resolved through tables propagated from descendant scopes
        # (3.11.4 clause 4.3 / 3.11.5) are outside the asserted domain, see the report (candidate finding, not triaged)
        ron = on if not propagate or on == 'r' or draw(st.booleans()) else 'r'
        ics.append(IC('keyref', 'R1', [sel_path(rsel, tns)], [[field_path(f, tns)] for f in fields], refer='K1', on=ron))
        labels += ['keyref', 'refsel:' + rsel, 'refon:' + ron]
        if ron != on: labels.append('propagated-table')
    # --- an independent second constraint
    if draw(st.integers(0, 2)) == 0:
        sel2, car2 = draw(st.sampled_from([s for s in sels if s[1] != ['f']]))
        if sel2 == 'p:*' and not tns: sel2, car2 = 'k', ['k']
        f2 = ['@x'] if sel2 == 'p:*' else draw_fields(car2, 2)
        ics.append(IC(draw(st.sampled_from(['unique', 'key'])) if sel2 != 'p:*' else 'unique', 'U2', [sel_path(x, tns) for x in sel2.split('|')], [[field_path(f, tns)] for f in f2],
                      on='g' if ext and draw(st.integers(0, 3)) == 0 else 'r'))
        labels.append('second:' + sel2)
    # --- tuple table for the primary constraint
    slots_of = lambda f, car: slots_for(car)[f]
    n = draw(st.integers(0, 8)) if not big else draw(st.integers(20, 60))
    mode = draw(st.sampled_from(['distinct', 'distinct', 'plant-dup', 'plant-absent', 'random']))
    def psize(f):
        ts = {T[slots_of(f, car)] for car in carriers + (['f'] if have_ref else [])}
        return COMMON if len(ts) > 1 else len(POOLS[ts.pop()])      # different related types: only the values every member type shares
    poolsz = {f: psize(f) for f in fields}
    if any(len({T[slots_of(f, car)] for car in carriers + (['f'] if have_ref else [])}) > 1 for f in fields): labels.append('related-types')
    table = []
    def rnd_tuple():
        return tuple(draw(st.integers(0, poolsz[f] - 1)) for f in fields)
    for _ in range(n):
        t = rnd_tuple()
        if mode in ('distinct', 'plant-dup', 'plant-absent') and t in table:
            continue
        table.append(t)
    if mode == 'plant-dup' and table: table.insert(draw(st.integers(0, len(table))), draw(st.sampled_from(table)))
    absent_at = None
    if mode == 'plant-absent' and table: absent_at = (draw(st.integers(0, len(table) - 1)), draw(st.integers(0, len(fields) - 1)))
    labels.append('mode:' + mode)
    nodes = []
    def lex_of(tname, vid): return draw(st.sampled_from(POOLS[tname][vid]))
    def fill_other(node, car, used):
        for f, slot in slots_for(car).items():
            if f in used: continue
            if not ext and not f.startswith('@'): continue
            if draw(st.booleans()):
                tn = T[slot]; set_slot(node, slot, lex_of(tn, draw(st.integers(0, len(POOLS[tn]) - 1))), tns)
    def mk_carrier(car, fields_, tup, skip=None):
        node = xm.Node(tns, car)
        for i, (f, vid) in enumerate(zip(fields_, tup)):
            if skip == i and f != '.': continue          # '.' cannot be absent
            slot = slots_of(f, car); set_slot(node, slot, lex_of(T[slot], vid), tns)
        fill_other(node, car, set(fields_))
        if car == 'j' and not node.children and '.' not in fields_ and T['j'] != 'string':
            node.children = [lex_of(T['j'], draw(st.integers(0, len(POOLS[T['j']]) - 1)))]      # J has simple content: empty text is only valid for xs:string
        for c in node.elems():
            if getattr(c, '_needs_text', False) and not c.children:
                tn = T['fc' if car == 'f' else 'c']; v = lex_of(tn, draw(st.integers(0, len(POOLS[tn]) - 1))); c.children = [v] if v else []
        return node
    for i, tup in enumerate(table):
        car = draw(st.sampled_from(carriers))
        nodes.append(mk_carrier(car, fields, tup, skip=absent_at[1] if absent_at and absent_at[0] == i else None))
    if have_ref:
        m = draw(st.integers(0, 6)) if not big else draw(st.integers(5, 30))
        rmode = draw(st.sampled_from(['resolve', 'resolve', 'dangling', 'random']))
        labels.append('rmode:' + rmode)
        for _ in range(m):
            if rmode in ('resolve', 'dangling') and table: tup = draw(st.sampled_from(table))
            else: tup = rnd_tuple()
            nodes.append(mk_carrier('f', fields, tup))
        if rmode == 'dangling':
            missing = [t for t in [rnd_tuple() for _ in range(6)] if t not in table]
            if missing: nodes.append(mk_carrier('f', fields, missing[0]))
    # multiple match for an element field
    if ext and 'c' in fields and draw(st.integers(0, 5)) == 0 and nodes:
        v = draw(st.sampled_from([x for x in nodes if x.name in ('k', 'f')] or nodes))
        if v.name in ('k', 'f') and len([c for c in v.elems() if c.name == 'c']) == 1:
            v.children.append(xm.Node(tns, 'c', children=[POOLS[T['fc' if v.name == 'f' else 'c']][0][0]])); labels.append('planted:multi')
    # noise + order
    for _ in range(draw(st.integers(0, 3))): nodes.append(xm.Node(tns, 'n', children=['noise']))
    nodes = list(draw(st.permutations(nodes)))
    root = xm.Node(tns, 'r')
    # nesting
    nest = ext and (any(ic.on == 'g' for ic in ics) or any(s in sel for s in ('g/', '*/', './/')) or draw(st.integers(0, 2)) == 0)
    if nest:
        ng = draw(st.integers(1, 3)); gs = [xm.Node(tns, 'g') for _ in range(ng)]
        for x in nodes:
            w = draw(st.integers(0, ng))
            (root if w == ng else gs[w]).children.append(x)
        # optionally nest a g inside a g
        # g inside g only when no constraint is declared on g (the same constraint active in nested scopes is excluded, see C10.known_class)
        if ng > 1 and draw(st.booleans()) and not any(ic.on == 'g' for ic in ics): gs[0].children.append(gs.pop())
        for gnode in gs: root.children.insert(draw(st.integers(0, len(root.children))), gnode)
        labels.append('nested')
    else:
        root.children = nodes
    return {'tns': tns, 'lns': tns, 'xns': [], 'T': T, 'ics': ics, 'style': style, 'root': root, 'labels': labels}

# ---- multi-namespace cases: carriers in 2-3 namespaces, namespace-wildcard steps, unions differing in one namespace / one name ---------
def ns_path(expr, lns, attr_ok=True):
    """'v:k', 'p:*', '*', './/g/v:*', '@v:*', '@x' ... -> path AST; an unprefixed / p: name lies in the local-element namespace lns"""
    nsof = {'p': lns, 'v': 'urn:v', 'w': 'urn:w'}
    desc = expr.startswith('.//')
    if desc: expr = expr[3:]
    steps = []; attr = None
    for part in expr.split('/'):
        if part == '.': steps.append('.')
        elif part == '*': steps.append('*')
        elif part.startswith('@'):
            q = part[1:]
            attr = (nsof[q.split(':')[0]], q.split(':')[1]) if ':' in q else ('', q)
        elif ':' in part: steps.append((nsof[part.split(':')[0]], part.split(':')[1]))
        else: steps.append((lns, part))
    return {'desc': desc, 'steps': steps, 'attr': attr}

@st.composite
def gen_case_ns(draw, big=False, related=True):
    tns = draw(st.sampled_from(['', TNS, TNS]))
    efd = draw(st.sampled_from(['qualified', 'qualified', 'unqualified'])) if tns else 'unqualified'
    lns = tns if efd == 'qualified' else ''
    xns = XNS[:draw(st.sampled_from([1, 1, 2]))]
    two = len(xns) == 2
    types = CORE_TYPES + EXT_TYPES + (['decimal', 'integer', 'long', 'nonNegativeInteger', 'normalizedString', 'short'] if related else [])
    T = {s: draw(st.sampled_from(types)) for s in ('kx', 'ky', 'c', 'cx', 'j')}
    def rel(t): return draw(st.sampled_from(related_types(t))) if related and draw(st.integers(0, 2)) > 0 else t
    T['fx'] = rel(T['kx']); T['fy'] = rel(T['ky']); T['fc'] = T['c']; T['fcx'] = T['cx']; T['jx'] = T['kx']
    T['vx'] = T['wx'] = T['kx']
    style = draw(st.sampled_from([0, 0, 1, 2]))
    sels = [('v:k', ['v:k']), ('k|v:k', ['k', 'v:k']), ('v:k|k', ['k', 'v:k']), ('v:*', ['v:k']), ('*', ['k', 'v:k']), ('.//v:k', ['v:k']), ('g/v:*', ['v:k']),
            ('*/v:k', ['v:k']), ('./v:k|./k', ['k', 'v:k']), ('g/k|g/v:k', ['k', 'v:k'])]
    if lns: sels += [('p:*|v:*', ['k', 'v:k']), ('v:*|p:*', ['k', 'v:k']), ('p:*|v:*', ['v:k']), ('g/p:*|g/v:*', ['k', 'v:k']), ('.//p:*|.//v:*', ['v:k', 'k'])]
    if two: sels += [('v:*|w:*', ['v:k', 'w:k']), ('w:*|v:*', ['v:k', 'w:k']), ('v:*|w:*', ['w:k']), ('v:k|w:k', ['v:k', 'w:k']), ('g/v:*|g/w:*', ['v:k', 'w:k']),
                     ('w:k', ['w:k']), ('.//v:*|.//w:*', ['w:k', 'v:k'])]
    sel, carriers = draw(st.sampled_from(sels))
    has_w = any(c.startswith('w:') for c in carriers)
    fopts = ['@x', '@y'] + ([] if has_w else ['@v:x', '@v:*']) + (['@v:*|@w:*', '@w:*|@v:*'] if two else [])
    f1 = draw(st.sampled_from(fopts)); fields = [f1]
    if draw(st.booleans()):
        f2 = draw(st.sampled_from(['@x', '@y']))
        if f2 != f1: fields.append(f2)
    wild = '*' in sel
    kind = draw(st.sampled_from(['unique', 'unique', 'key'] if wild else ['unique', 'key', 'key']))
    on = 'g' if draw(st.integers(0, 4)) == 0 else 'r'
    def paths(e): return [ns_path(x, lns) for x in e.split('|')]
    ics = [IC(kind, 'K1', paths(sel), [paths(f) for f in fields], on=on)]
    labels = ['multins', 'nsmode:%d' % len(xns), 'efd:' + efd, 'sel:' + sel, 'kind:' + kind, 'nfields:%d' % len(fields), 'on:' + on] + ['field:' + f for f in fields]
    if '|' in sel and '*' in sel: labels.append('union-of-ns-wildcards')
    if any('|' in f for f in fields): labels.append('field-union-of-ns-wildcards')
    have_ref = draw(st.booleans())
    rcar = []
    if have_ref:
        vonly = any(f in ('@v:x', '@v:*') for f in fields)        # w:f has no v:x attribute
        rsel, rcar = draw(st.sampled_from([('f', ['f']), ('v:f', ['v:f']), ('f|v:f', ['f', 'v:f']), ('v:f|f', ['f', 'v:f'])] + ([('v:f|w:f', ['v:f', 'w:f'])] if two and not vonly else [])))
        ics.append(IC('keyref', 'R1', paths(rsel), [paths(f) for f in fields], refer='K1', on=on))
        labels += ['keyref', 'refsel:' + rsel]
    def local(car): return car.split(':')[-1]
    def ns_of(car): return {'v': 'urn:v', 'w': 'urn:w'}[car.split(':')[0]] if ':' in car else lns
    def slot_of(f, car):
        if f in ('@x', '@y'): return slots_for(local(car))[f]
        if f in ('@v:x', '@v:*'): return 'vx'
        if car.startswith('v:'): return 'vx'
        if car.startswith('w:'): return 'wx'
        return draw(st.sampled_from(['vx', 'wx']))
    def types_at(f):
        if f in ('@x', '@y'): return {T[slots_for(local(c))[f]] for c in carriers + rcar}
        return {T['kx']}
    poolsz = {f: (COMMON if len(types_at(f)) > 1 else len(POOLS[next(iter(types_at(f)))])) for f in fields}
    if any(len(types_at(f)) > 1 for f in fields): labels.append('related-types')
    n = draw(st.integers(0, 8)) if not big else draw(st.integers(20, 50))
    mode = draw(st.sampled_from(['distinct', 'distinct', 'plant-dup', 'plant-dup', 'plant-absent', 'random']))
    labels.append('mode:' + mode)
    def rnd_tuple(): return tuple(draw(st.integers(0, poolsz[f] - 1)) for f in fields)
    table = []
    for _ in range(n):
        t = rnd_tuple()
        if mode != 'random' and t in table: continue
        table.append(t)
    if mode == 'plant-dup' and table: table.insert(draw(st.integers(0, len(table))), draw(st.sampled_from(table)))
    absent_at = (draw(st.integers(0, len(table) - 1)), draw(st.integers(0, len(fields) - 1))) if mode == 'plant-absent' and table else None
    def lex_of(tname, vid): return draw(st.sampled_from(POOLS[tname][vid]))
    def mk(car, tup, skip=None):
        node = xm.Node(ns_of(car), local(car)); used = set()
        for i, (f, vid) in enumerate(zip(fields, tup)):
            slot = slot_of(f, car); used.add(slot)
            if '|' in f: used |= {'vx', 'wx'}
            if skip == i: continue
            set_slot(node, slot, lex_of(T[slot], vid), lns)
        avail = [slots_for(local(car))['@x'], slots_for(local(car))['@y']] + (['vx'] if not car.startswith('w:') else []) + (['wx'] if two and not car.startswith('v:') else [])
        for slot in avail:
            if slot in used or (slot in ('vx', 'wx') and ({'vx', 'wx'} & used)): continue
            if draw(st.booleans()): set_slot(node, slot, lex_of(T[slot], draw(st.integers(0, len(POOLS[T[slot]]) - 1))), lns)
        return node
    nodes = []
    # the decisive tuples (planted duplicate / last rows) are biased into the LAST listed carrier: the second member of a union
    for i, tup in enumerate(table):
        car = carriers[-1] if draw(st.integers(0, 2)) > 0 else draw(st.sampled_from(carriers))
        nodes.append(mk(car, tup, skip=absent_at[1] if absent_at and absent_at[0] == i else None))
    if have_ref:
        rmode = draw(st.sampled_from(['resolve', 'resolve', 'dangling', 'random'])); labels.append('rmode:' + rmode)
        for _ in range(draw(st.integers(0, 6))):
            tup = draw(st.sampled_from(table)) if rmode in ('resolve', 'dangling') and table else rnd_tuple()
            nodes.append(mk(draw(st.sampled_from(rcar)), tup))
        if rmode == 'dangling':
            missing = [t for t in [rnd_tuple() for _ in range(6)] if t not in table]
            if missing: nodes.append(mk(draw(st.sampled_from(rcar)), missing[0]))
    for _ in range(draw(st.integers(0, 2))): nodes.append(xm.Node(lns, 'n', children=['noise']))
    nodes = list(draw(st.permutations(nodes)))
    root = xm.Node(tns, 'r')
    if on == 'g' or 'g/' in sel or '*/' in sel or './/' in sel or draw(st.integers(0, 2)) == 0:
        ng = draw(st.integers(1, 3)); gs = [xm.Node(lns, 'g') for _ in range(ng)]
        for x in nodes:
            w = draw(st.integers(0, ng))
            (root if w == ng else gs[w]).children.append(x)
        if ng > 1 and draw(st.booleans()) and on != 'g': gs[0].children.append(gs.pop())
        for gnode in gs: root.children.insert(draw(st.integers(0, len(root.children))), gnode)
        labels.append('nested')
    else:
        root.children = nodes
    return {'tns': tns, 'lns': lns, 'xns': xns, 'T': T, 'ics': ics, 'style': style, 'root': root, 'labels': labels}

def permuted(draw, root):
    """same tuples, different document order inside every scope"""
    r = root.copy()
    def go(n):
        n.children = list(draw(st.permutations(n.children))) if n.name in ('r', 'g') else n.children
        for c in n.elems(): go(c)
    go(r)
    return r

def extended(case, root, k=5):
    """more tuples without new duplicates: carriers whose primary-field values are fresh (out-of-pool) values; only for
    integer/decimal/string/token typed fields, else returns None"""
    ic = case['ics'][0]; T = case['T']; tns = case['tns']
    if len([x for x in case['ics'] if x.kind != 'keyref']) != 1: return None      # fresh carriers must not meet another constraint
    if case.get('xns'): return None
    r = root.copy()
    fresh = {'integer': lambda i: str(1000 + i), 'decimal': lambda i: '%d.25' % (1000 + i), 'string': lambda i: 'fresh%d' % i, 'token': lambda i: 'fresh%d' % i,
             'long': lambda i: str(1000 + i), 'short': lambda i: str(1000 + i), 'nonNegativeInteger': lambda i: str(1000 + i), 'normalizedString': lambda i: 'fresh%d' % i}
    sel0 = ic.selector[0]
    last = sel0['steps'][-1]
    if last == '*' or last[1] == '*': return None
    car = last[1]
    if sel0['desc'] or len([s for s in sel0['steps'] if s != '.']) != 1: return None
    if ic.on != 'r': return None
    for i in range(k):
        node = xm.Node(tns, car)
        for f in ic.fields:
            p = f[0]
            expr = '/'.join([s[1] if s != '.' else '.' for s in p['steps']] + (['@' + p['attr'][1]] if p['attr'] else []))
            slot = slots_for(car).get(expr)
            if slot is None or T[slot] not in fresh: return None
            set_slot(node, slot, fresh[T[slot]](i), tns)
        for c in node.elems():
            if getattr(c, '_needs_text', False) and not c.children:
                c.children = [POOLS[T['fc' if car == 'f' else 'c']][0][0]]
        if car == 'j' and not node.children and T['j'] != 'string': node.children = [POOLS[T['j']][0][0]]
        r.children.append(node)
    return r
