"""xv.py -- Python side of the /verif executor protocol and CED helpers."""
import os, subprocess, sys, hashlib, json, signal

VERIF = os.path.dirname(os.path.dirname(os.path.abspath(__file__)))

def build_dir(flavour='asan'):
    return os.path.join(os.environ.get('VERIF_BUILD', os.path.join(VERIF, 'build')), flavour)

def harness_path(name, flavour='asan'):
    return os.path.join(build_dir(flavour), 'h', name)

def esc(s):
    """Escape a Python str the same way the C++ dump does (per UTF-16 code unit)."""
    out = []
    for ch in s:
        c = ord(ch)
        if 0x20 <= c <= 0x7E and c != 0x5C:
            out.append(ch)
        elif c >= 0x10000:
            c -= 0x10000
            out.append('\\u%04X\\u%04X' % (0xD800 + (c >> 10), 0xDC00 + (c & 0x3FF)))
        else:
            out.append('\\u%04X' % c)
    return ''.join(out)

def unesc(s):
    out = []; i = 0; n = len(s)
    units = []
    while i < n:
        if s[i] == '\\' and i + 5 < n + 0 and s[i + 1] == 'u':
            units.append(int(s[i + 2:i + 6], 16)); i += 6
        else:
            units.append(ord(s[i])); i += 1
    # combine surrogates
    res = []; j = 0
    while j < len(units):
        u = units[j]
        if 0xD800 <= u < 0xDC00 and j + 1 < len(units) and 0xDC00 <= units[j + 1] < 0xE000:
            res.append(chr(0x10000 + ((u - 0xD800) << 10) + (units[j + 1] - 0xDC00))); j += 2
        else:
            res.append(chr(u)); j += 1
    return ''.join(res)

class ExecutorDied(Exception):
    def __init__(self, rc, stderr):
        Exception.__init__(self, 'executor died rc=%s' % rc)
        self.rc = rc; self.stderr = stderr

ASAN_ENV = {
    'ASAN_OPTIONS': 'detect_leaks=1:abort_on_error=0:exitcode=86:allocator_may_return_null=1:detect_stack_use_after_return=0:symbolize=1:handle_segv=1',
    'UBSAN_OPTIONS': 'print_stacktrace=1:halt_on_error=1:exitcode=87',
    'LSAN_OPTIONS': 'exitcode=88',
}

class Executor:
    """Persistent harness process.  request(dict[str, bytes|str]) -> str (response text)."""
    def __init__(self, name='xvexec', flavour='asan', extra_env=None, args=None, restart_every=2000):
        self.path = harness_path(name, flavour)
        self.args = args or []
        self.env = dict(os.environ); self.env.update(ASAN_ENV)
        if extra_env: self.env.update(extra_env)
        self.p = None; self.n = 0; self.restart_every = restart_every
        self.errpath = None
    def start(self):
        self.close()
        import tempfile
        self.errf = tempfile.TemporaryFile()
        self.p = subprocess.Popen([self.path] + self.args, stdin=subprocess.PIPE, stdout=subprocess.PIPE,
                                  stderr=self.errf, env=self.env, bufsize=0)
        self.n = 0
    def close(self):
        if self.p is not None:
            try:
                self.p.stdin.close()
            except Exception: pass
            try:
                self.p.wait(timeout=20)
            except Exception:
                self.p.kill(); self.p.wait()
            rc = self.p.returncode
            self.p = None
            try: self.errf.close()
            except Exception: pass
            return rc
        return None
    def _stderr(self):
        try:
            self.errf.seek(0)
            txt = self.errf.read().decode('utf-8', 'replace')
            txt = '\n'.join(l[:300] for l in txt.split('\n'))      # template-heavy frames are cut, the report head survives
            return txt[-20000:]
        except Exception:
            return ''
    def request(self, fields, timeout=120):
        if self.p is None or self.p.poll() is not None or self.n >= self.restart_every:
            self.start()
        self.n += 1
        parts = [b'REQ %d\n' % len(fields)]
        for k, v in fields.items():
            if isinstance(v, str): v = v.encode('utf-8')
            elif isinstance(v, (int, bool)): v = str(int(v)).encode()
            parts.append(k.encode('utf-8') + b' %d\n' % len(v)); parts.append(v); parts.append(b'\n')
        try:
            self.p.stdin.write(b''.join(parts)); self.p.stdin.flush()
            resp = self._read_resp(timeout)
        except (BrokenPipeError, OSError):
            resp = None
        if resp is None:
            try:
                self.p.wait(timeout=30)
            except Exception:
                self.p.kill(); self.p.wait()
            rc = self.p.returncode; err = self._stderr(); self.p = None
            raise ExecutorDied(rc, err)
        return resp.decode('ascii', 'replace')
    def _read_resp(self, timeout):
        import select
        f = self.p.stdout
        def readn(n):
            buf = b''
            while len(buf) < n:
                r, _, _ = select.select([f], [], [], timeout)
                if not r:
                    self.p.kill(); return None
                chunk = os.read(f.fileno(), n - len(buf))
                if not chunk: return None
                buf += chunk
            return buf
        hdr = b''
        while not hdr.endswith(b'\n'):
            c = readn(1)
            if c is None: return None
            hdr += c
        n = int(hdr)
        return readn(n) if n else b''

def parse_ced(text):
    """-> (events, stat, extra)  events: list of tuples of fields; '#'-lines go to extra."""
    ev = []; extra = []
    for line in text.split('\n'):
        if not line: continue
        if line[0] == '#': extra.append(line[1:].split('\t')); continue
        ev.append(tuple(line.split('\t')))
    return ev, extra

def sha(obj):
    if not isinstance(obj, bytes):
        obj = json.dumps(obj, sort_keys=True, default=repr).encode('utf-8', 'surrogatepass')
    return hashlib.sha1(obj).hexdigest()[:16]


def has_foreign(resp):
    """a line 'EXC<TAB>FOREIGN' of the canonical event dump (content cannot forge it: tabs and newlines inside values are escaped, but a
    PI target EXC followed by data FOREIGN... yields 'PI<TAB>EXC<TAB>FOREIGN...', so a substring test is not enough)"""
    return any(l == 'EXC\tFOREIGN' for l in resp.split('\n'))
