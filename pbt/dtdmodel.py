"""dtdmodel.py -- M2: DTD validity model (XML 1.0 sections 2.9, 3, 3.3, 4), generators and renderer.

Content models
    cm   ::= ('EMPTY',) | ('ANY',) | ('MIXED', [name...]) | ('CH', node)
    node ::= ('n', name, occ) | ('s', [node...], occ) | ('c', [node...], occ)        occ in '', '?', '*', '+'
Membership of a child-name sequence in a 'CH' model is decided twice: position-set/Glushkov simulation, and re.fullmatch on a
one-letter-per-name translation (sequences of up to 5 names, models without a repeated nullable group) or Brzozowski derivatives (the rest,
where a backtracking matcher blows up); `Membership.accepts` returns (verdict, witnesses_agree).

Attribute declarations   {'name','type','enum','kind','dflt','loc'}   type in ATT_TYPES, kind in DEFAULT_KINDS
Documents                node ::= ('e', name, [(attname, raw)], [node...], emptytag) | ('t', text) | ('ws', s) | ('c', s)
                                | ('pi', target, data) | ('cd', s) | ('cr', codepoint) | ('er', name)
`violations(dtd, doc)` is the validator: it returns the set of violated constraint classes.
All random choices go through a `Ch` object wrapping Hypothesis' draw (no other source of randomness).
"""
import re, itertools
from hypothesis import strategies as st

INF = 10 ** 6
ATT_TYPES = ['CDATA', 'ID', 'IDREF', 'IDREFS', 'ENTITY', 'ENTITIES', 'NMTOKEN', 'NMTOKENS', 'NOTATION', 'ENUM']
DEFAULT_KINDS = ['#IMPLIED', '#REQUIRED', 'DEFAULT', '#FIXED']
TOKENISED = {'ID', 'IDREF', 'IDREFS', 'ENTITY', 'ENTITIES', 'NMTOKEN', 'NMTOKENS'}
NAME_TYPES = {'ID', 'IDREF', 'IDREFS', 'ENTITY', 'ENTITIES'}
LIST_TYPES = {'IDREFS', 'ENTITIES', 'NMTOKENS'}

# Character pools.  Name characters are NameChars of XML 1.0 4th edition (a subset of the 5th edition); the "bad" characters
# are name characters in no edition.  No colon anywhere (namespace-aware runs).
NAME_START = 'abcdexyzABQ_éα'
NAME_REST = NAME_START + '0123456789.-·٠'
NOT_NAMESTART = '0123456789.-·'            # NameChar but not NameStartChar in every edition (U+0660 is a NameStartChar in the 5th)
NOT_NAMECHAR = '!#$/(+~@*,;=?^|'                     # not a NameChar in any edition (and harmless inside an attribute value)
ELEM_NAMES = ['a', 'b', 'c', 'd', 'e', 'f', 'item', 'x1', 'n-a', 'n.b', '_u', 'Bé', 'Q2']
ATT_NAMES = ['p', 'q', 'r', 's', 'id', 'ref', 'kind', 't-1', '_v', 'w.w']

class Ch:
    """chooser over Hypothesis draw; every method shrinks towards its first/lowest alternative"""
    def __init__(self, draw): self.draw = draw
    def int(self, lo, hi): return self.draw(st.integers(lo, hi)) if hi > lo else lo
    def pick(self, seq): return seq[self.int(0, len(seq) - 1)]
    def bool(self): return self.draw(st.booleans())
    def chance(self, num, den): return self.int(0, den - 1) >= den - num
    def weighted(self, pairs):
        tot = sum(w for _, w in pairs); k = self.int(0, tot - 1)
        for v, w in pairs:
            if k < w: return v
            k -= w
    def subset(self, seq, lo, hi):
        seq = list(seq); n = self.int(lo, min(hi, len(seq))); out = []
        for _ in range(n):
            out.append(seq.pop(self.int(0, len(seq) - 1)))
        return out

# ------------------------------------------------------------------------------------------------------------------
# content models
# ------------------------------------------------------------------------------------------------------------------
def cm_names(node, acc=None):
    acc = [] if acc is None else acc
    if node[0] == 'n':
        if node[1] not in acc: acc.append(node[1])
    else:
        for x in node[1]: cm_names(x, acc)
    return acc

def cm_depth(node):
    return 0 if node[0] == 'n' else 1 + max(cm_depth(x) for x in node[1])

def cm_operators(node):
    k = 1 if node[2] else 0
    if node[0] != 'n':
        k += (1 if len(node[1]) > 1 else 0) + sum(cm_operators(x) for x in node[1])
    return k

def render_node(node, sp=lambda: ''):
    if node[0] == 'n': return node[1] + node[2]
    sep = ',' if node[0] == 's' else '|'
    return '(' + sp() + (sp() + sep + sp()).join(render_node(x, sp) for x in node[1]) + sp() + ')' + node[2]

def render_cm(cm, sp=lambda: ''):
    if cm[0] in ('EMPTY', 'ANY'): return cm[0]
    if cm[0] == 'MIXED':
        if not cm[1]: return '(' + sp() + '#PCDATA' + sp() + ')' + (cm[2] if len(cm) > 2 else '')
        return '(' + sp() + '#PCDATA' + ''.join(sp() + '|' + sp() + n for n in cm[1]) + sp() + ')*'
    return render_node(cm[1], sp)

class Glushkov:
    """position automaton of a children model"""
    def __init__(self, node):
        self.sym = []                 # position -> name
        self.follow = []              # position -> set of positions
        self.nullable, self.first, self.last = self._build(node)
    def _build(self, node):
        kind, body, occ = node
        if kind == 'n':
            p = len(self.sym); self.sym.append(body); self.follow.append(set())
            nl, fi, la = False, {p}, {p}
        elif kind == 's':
            nl, fi, la = True, set(), set()
            for x in body:
                n2, f2, l2 = self._build(x)
                for p in la: self.follow[p] |= f2
                if nl: fi = fi | f2
                la = (la | l2) if n2 else set(l2)
                nl = nl and n2
        else:
            nl, fi, la = False, set(), set()
            for x in body:
                n2, f2, l2 = self._build(x)
                nl = nl or n2; fi |= f2; la |= l2
        if occ in ('*', '+'):
            for p in la: self.follow[p] |= fi
        if occ in ('*', '?'): nl = True
        return nl, set(fi), set(la)
    def accepts(self, seq):
        if not seq: return self.nullable
        cur = {p for p in self.first if self.sym[p] == seq[0]}
        for nm in seq[1:]:
            if not cur: return False
            nxt = set()
            for p in cur:
                for q in self.follow[p]:
                    if self.sym[q] == nm: nxt.add(q)
            cur = nxt
        return bool(cur & self.last)
    def deterministic(self):
        def clash(ps):
            names = [self.sym[p] for p in ps]
            return len(names) != len(set(names))
        return not (clash(self.first) or any(clash(f) for f in self.follow))

def letters_for(names):
    pool = 'abcdefghijklmnopqrstuvwxyzABCDEFGHIJKLMNOPQRSTUVWXYZ'
    return {n: (pool[i] if i < len(pool) else chr(0x4E00 + i)) for i, n in enumerate(names)}

def node_regex(node, letter):
    kind, body, occ = node
    if kind == 'n': r = letter[body]
    elif kind == 's': r = '(?:' + ''.join(node_regex(x, letter) for x in body) + ')'
    else: r = '(?:' + '|'.join(node_regex(x, letter) for x in body) + ')'
    return r + occ if not occ or kind == 'n' else '(?:' + r + ')' + occ

# Brzozowski derivatives with hash-consed, simplified terms: the second witness for long sequences, where a backtracking matcher
# (Python re) can take exponential time on nested quantifiers such as ((a*)*)*.
EPS = ('eps',); NUL = ('nul',)
def _seq(a, b):
    if a == NUL or b == NUL: return NUL
    if a == EPS: return b
    if b == EPS: return a
    return ('cat', a, b)
def _alt(items):
    flat = set()
    for x in items:
        if x == NUL: continue
        if x[0] == 'alt': flat |= set(x[1])
        else: flat.add(x)
    if not flat: return NUL
    if len(flat) == 1: return next(iter(flat))
    return ('alt', frozenset(flat))
def _star(a):
    if a in (EPS, NUL): return EPS
    if a[0] == 'star': return a
    return ('star', a)
def term_of(node):
    kind, body, occ = node
    if kind == 'n': t = ('sym', body)
    elif kind == 's':
        t = EPS
        for x in reversed(body): t = _seq(term_of(x), t)
    else: t = _alt([term_of(x) for x in body])
    if occ == '?': return _alt([t, EPS])
    if occ == '*': return _star(t)
    if occ == '+': return _seq(t, _star(t))
    return t
_NULLABLE = {}
def t_nullable(t):
    k = t[0]
    if k in ('eps', 'star'): return True
    if k in ('nul', 'sym'): return False
    r = _NULLABLE.get(t)
    if r is None:
        r = (t_nullable(t[1]) and t_nullable(t[2])) if k == 'cat' else any(t_nullable(x) for x in t[1])
        if len(_NULLABLE) > 200000: _NULLABLE.clear()
        _NULLABLE[t] = r
    return r
def t_deriv(t, a, memo):
    key = (t, a)
    if key in memo: return memo[key]
    k = t[0]
    if k in ('eps', 'nul'): r = NUL
    elif k == 'sym': r = EPS if t[1] == a else NUL
    elif k == 'cat':
        r = _seq(t_deriv(t[1], a, memo), t[2])
        if t_nullable(t[1]): r = _alt([r, t_deriv(t[2], a, memo)])
    elif k == 'alt': r = _alt([t_deriv(x, a, memo) for x in t[1]])
    else: r = _seq(t_deriv(t[1], a, memo), t)
    memo[key] = r
    return r
def accepts_deriv(term, seq, memo):
    t = term
    for a in seq:
        t = t_deriv(t, a, memo)
        if t == NUL: return False
    return t_nullable(t)

def star_of_nullable(node):
    """-> (nullable, risky): risky = some repeated group has a nullable body, e.g. (a*,b?)* -- a backtracking matcher then explores
    a super-exponential number of empty iterations even on five-letter subjects (measured: minutes per fullmatch)"""
    kind, body, occ = node
    if kind == 'n': nl, risky = False, False
    else:
        parts = [star_of_nullable(x) for x in body]
        risky = any(r for _, r in parts)
        nl = all(n for n, _ in parts) if kind == 's' else any(n for n, _ in parts)
        if occ in ('*', '+') and nl: risky = True
    return (nl or occ in ('?', '*')), risky

class Membership:
    """decides membership of child-name sequences in a content model, twice"""
    def __init__(self, cm, declared):
        self.cm = cm; self.declared = list(declared)
        if cm[0] == 'CH':
            self.g = Glushkov(cm[1])
            self.letter = letters_for(sorted(set(cm_names(cm[1])) | set(self.declared)))
            self.rx = re.compile(node_regex(cm[1], self.letter))
            self.term = term_of(cm[1]); self.dmemo = {}
            self.use_re = not star_of_nullable(cm[1])[1]
    def accepts(self, seq):
        """-> (member, witnesses_agree); names outside the alphabet are never members of a CH/MIXED model"""
        cm = self.cm
        if cm[0] == 'EMPTY': return (len(seq) == 0, True)
        if cm[0] == 'ANY': return (True, True)
        if cm[0] == 'MIXED': return (all(n in cm[1] for n in seq), True)
        a = self.g.accepts(seq)
        if any(n not in self.letter for n in seq): return (False, not a)
        if len(seq) > 5 or not self.use_re:   # longer sequence, or a repeated nullable group: derivative matcher instead of the backtracking one (see above; nested stars
                                   # such as (((a*|a*)*)*)* already cost minutes at length 7)
            b = accepts_deriv(self.term, seq, self.dmemo)
        else:
            b = self.rx.fullmatch(''.join(self.letter[n] for n in seq)) is not None
        return (a, a == b)

def gen_cm_node(ch, names, depth, top=True):
    """random children model over `names` nested to at most `depth` groups"""
    if depth <= 0 or (not top and ch.chance(2, 5)):
        return ('n', ch.pick(names), ch.weighted([('', 5), ('?', 2), ('*', 2), ('+', 2)]))
    kind = ch.weighted([('s', 3), ('c', 3)])
    n = ch.int(2, 3) if kind == 'c' else ch.int(1, 3)
    items = [gen_cm_node(ch, names, depth - 1, False) for _ in range(n)]
    return (kind, items, ch.weighted([('', 4), ('*', 3), ('?', 2), ('+', 2)]))

NONDET_SHAPES = [
    lambda a, b, c: ('c', [('s', [('n', a, ''), ('n', b, '')], ''), ('s', [('n', a, ''), ('n', c, '')], '')], '*'),
    lambda a, b, c: ('s', [('n', a, '*'), ('n', a, '')], ''),
    lambda a, b, c: ('s', [('c', [('n', a, ''), ('n', b, '')], '*'), ('n', a, ''), ('n', b, '')], ''),
    lambda a, b, c: ('s', [('n', a, '?'), ('n', a, '?'), ('n', b, '')], ''),
    lambda a, b, c: ('c', [('s', [('n', a, ''), ('n', b, '*')], ''), ('s', [('n', a, ''), ('n', c, '+')], '')], '+'),
    lambda a, b, c: ('s', [('s', [('n', a, ''), ('n', b, '?')], '*'), ('n', a, ''), ('n', c, '')], ''),
    lambda a, b, c: ('c', [('n', a, '+'), ('s', [('n', a, ''), ('n', b, '')], '+')], ''),
    lambda a, b, c: ('s', [('c', [('n', a, ''), ('s', [('n', a, ''), ('n', b, '')], '')], '*'), ('n', c, '?')], '+'),
]

def gen_children_cm(ch, names, depth):
    k = ch.int(0, 9)
    if k >= 8:
        # the shapes DTDElementDecl::createChildModel hands to SimpleContentModel: one leaf or two leaves under one operator
        a = ch.pick(names); b = ch.pick(names)
        occ = ch.pick(['', '?', '*', '+'])
        shape = ch.int(0, 4)
        if shape == 0: return ('CH', ('s', [('n', a, '')], occ))            # (a) (a)? (a)* (a)+
        if shape == 1: return ('CH', ('s', [('n', a, occ)], ''))            # (a?) (a*) (a+)
        if shape == 2: return ('CH', ('c', [('n', a, ''), ('n', b, '')], ''))   # (a|b)
        if shape == 3: return ('CH', ('s', [('n', a, ''), ('n', b, '')], ''))   # (a,b)
        return ('CH', (ch.pick(['c', 's']), [('n', a, ''), ('n', b, '')], occ))  # (a|b)* (a,b)+ ... (DFA again)
    if k >= 6:
        ns = list(names) + list(names) + list(names)
        k = ch.int(0, len(NONDET_SHAPES) - 1)
        off = ch.int(0, len(names) - 1)
        return ('CH', NONDET_SHAPES[k](ns[off], ns[off + 1], ns[off + 2]))
    return ('CH', gen_cm_node(ch, names, depth))

# ------------------------------------------------------------------------------------------------------------------
# DTD
# ------------------------------------------------------------------------------------------------------------------
# External markup declarations in the sense of XML 1.0 section 2.9: "a markup declaration occurring in the external subset or in a
# parameter entity (external or internal, the latter being included because non-validating processors are not required to read them)".
EXTERNAL_LOCS = {'ext', 'xinc', 'xpe', 'epe', 'ipe'}
ALL_LOCS = ['int', 'ext', 'ipe', 'epe', 'xinc', 'xpe']

class DTD:
    def __init__(self):
        self.root = None
        self.elements = {}        # name -> cm              (insertion ordered)
        self.elem_loc = {}        # name -> loc
        self.cm_via_pe = set()    # element names whose content spec is supplied through a parameter entity (ext only)
        self.attlists = {}        # elem -> [attdecl]
        self.notations = []       # [(name, loc)]
        self.unparsed = []        # [(name, notation, loc)]
        self.entities = {}        # name -> {'nodes': [...], 'loc': loc}   internal parsed general entities
        self.decoys = False       # IGNOREd conflicting declarations in the external subset
        self.undeclared_notation_ok = True
    def attdecl(self, elem, att):
        for a in self.attlists.get(elem, []):
            if a['name'] == att: return a
        return None
    def has_external(self):
        locs = list(self.elem_loc.values()) + [a['loc'] for al in self.attlists.values() for a in al]
        locs += [l for _, l in self.notations] + [l for _, _, l in self.unparsed] + [e['loc'] for e in self.entities.values()]
        return any(l in ('ext', 'xinc', 'xpe') for l in locs) or self.decoys or bool(self.cm_via_pe)
    def to_json(self):
        return {'root': self.root, 'elements': {k: render_cm(v) for k, v in self.elements.items()}, 'elem_loc': self.elem_loc,
                'attlists': self.attlists, 'notations': self.notations, 'unparsed': self.unparsed,
                'entities': {k: repr(v) for k, v in self.entities.items()}}

def min_heights(dtd):
    """minimal height of a valid instance per element type (INF = no finite instance)"""
    mh = {n: INF for n in dtd.elements}
    def cost(node):
        kind, body, occ = node
        if occ in ('?', '*'): return 0
        if kind == 'n': return mh.get(body, INF)
        cs = [cost(x) for x in body]
        return max(cs) if kind == 's' else min(cs)
    changed = True
    while changed:
        changed = False
        for n, cm in dtd.elements.items():
            v = 1 if cm[0] != 'CH' else min(INF, 1 + cost(cm[1]))
            if v < mh[n]: mh[n] = v; changed = True
    return mh

def node_cost(node, mh):
    kind, body, occ = node
    if occ in ('?', '*'): return 0
    if kind == 'n': return mh.get(body, INF)
    cs = [node_cost(x, mh) for x in body]
    return max(cs) if kind == 's' else min(cs)

def sample_word(ch, node, mh, budget, small):
    """a word of the model using only names with min height <= budget (None if impossible)"""
    kind, body, occ = node
    def once():
        if kind == 'n': return [body] if mh.get(body, INF) <= budget else None
        if kind == 's':
            out = []
            for x in body:
                w = sample_word(ch, x, mh, budget, small)
                if w is None: return None
                out += w
            return out
        ok = [x for x in body if node_cost(x, mh) <= budget or x[2] in ('?', '*')]
        if not ok: return None
        if small: ok = sorted(ok, key=lambda x: node_cost(x, mh))[:1]
        return sample_word(ch, ch.pick(ok), mh, budget, small)
    feasible = node_cost((kind, body, ''), mh) <= budget
    if occ == '': return once()
    if occ == '?':
        if not feasible or small or not ch.bool(): return []
        return once()
    lo = 0 if occ == '*' else 1
    if not feasible: return [] if lo == 0 else None
    k = lo if small else ch.int(lo, 2 if lo == 0 else 3)
    out = []
    for _ in range(k):
        w = once()
        if w is None: return None if lo else []
        out += w
    return out

def gen_name(ch, maxlen=4):
    return ch.pick(NAME_START) + ''.join(ch.pick(NAME_REST) for _ in range(ch.int(0, maxlen - 1)))

def gen_nmtoken(ch, maxlen=4):
    return ''.join(ch.pick(NAME_REST) for _ in range(ch.int(1, maxlen)))

def gen_cdata(ch):
    return ''.join(ch.pick('abz019 .-_!#()*+,/=?') for _ in range(ch.int(0, 6)))

WISHES = {
    'missing-required': {'att': (ATT_TYPES, ['#REQUIRED'])},
    'wrong-fixed': {'att': ([t for t in ATT_TYPES if t != 'ID'], ['#FIXED'])},
    'enum-outside': {'att': (['ENUM'], DEFAULT_KINDS)},
    'enum-multi': {'att': (['ENUM', 'NOTATION'], ['#IMPLIED', '#REQUIRED', 'DEFAULT'])},
    'notation-value': {'att': (['NOTATION'], DEFAULT_KINDS)},
    'bad-nmtoken': {'att': (['NMTOKEN', 'NMTOKENS'], ['#IMPLIED', '#REQUIRED', 'DEFAULT'])},
    'bad-name': {'att': (sorted(NAME_TYPES), ['#IMPLIED', '#REQUIRED', 'DEFAULT'])},
    'multi-token': {'att': (['ID', 'IDREF', 'ENTITY', 'NMTOKEN'], ['#IMPLIED', '#REQUIRED', 'DEFAULT'])},
    'empty-value': {'att': ([t for t in ATT_TYPES if t != 'CDATA'], ['#IMPLIED', '#REQUIRED', 'DEFAULT'])},
    'dup-id': {'att': (['ID'], ['#IMPLIED', '#REQUIRED']), 'root_cm': 'SELF'},
    'dangling-idref': {'att': (['IDREF', 'IDREFS'], ['#IMPLIED', '#REQUIRED', 'DEFAULT'])},
    'entity-parsed': {'att': (['ENTITY', 'ENTITIES'], ['#IMPLIED', '#REQUIRED', 'DEFAULT'])},
    'entity-undeclared': {'att': (['ENTITY', 'ENTITIES'], ['#IMPLIED', '#REQUIRED', 'DEFAULT'])},
    'notation-undeclared': {'att': (['NOTATION', 'ENTITY'], DEFAULT_KINDS)},
    'text-in-elemcontent': {'root_cm': 'CH'}, 'cdata-in-elemcontent': {'root_cm': 'CH'}, 'charref-in-elemcontent': {'root_cm': 'CH'},
    'cm-delete': {'root_cm': 'CH'}, 'cm-insert': {'root_cm': 'CH'}, 'cm-swap': {'root_cm': 'CH'}, 'cm-dup': {'root_cm': 'CH'},
    'empty-ws': {'root_cm': 'EMPTY'}, 'empty-text': {'root_cm': 'EMPTY'}, 'empty-child': {'root_cm': 'EMPTY'},
    'empty-comment': {'root_cm': 'EMPTY'}, 'empty-pi': {'root_cm': 'EMPTY'},
    'mixed-foreign': {'root_cm': 'MIXED'},
    'sa-default': {'att': ([t for t in ATT_TYPES if t != 'ID'], ['DEFAULT', '#FIXED']), 'ext': True},
    'sa-norm': {'att': (sorted(TOKENISED), ['#IMPLIED', '#REQUIRED', 'DEFAULT']), 'ext': True},
    'sa-ws': {'root_cm': 'CH', 'ext': True},
}

def gen_dtd(ch, size='quick', wish=None):
    big = size != 'quick'
    wish = wish or {}
    d = DTD()
    nel = ch.int(1, 6)
    names = ch.subset(ELEM_NAMES[:8] if not big else ELEM_NAMES, nel, nel)
    d.root = names[0]
    use_ext = ch.chance(1, 2) or bool(wish.get('ext'))
    locs = ['int'] * 3 + (['ipe'] if ch.chance(1, 3) else [])
    if use_ext: locs += ['ext'] * 3 + [ch.pick(['epe', 'xinc', 'xpe', 'ext'])]
    for n in names:
        kind = ch.weighted([('CH', 10), ('EMPTY', 4), ('MIXED', 3), ('ANY', 2)])
        if kind == 'CH':
            sub = ch.subset(names, 1, 3)
            cm = gen_children_cm(ch, sub, ch.int(1, 4 if big else 3))
        elif kind == 'MIXED':
            sub = ch.subset(names, 0, 3)
            cm = ('MIXED', sub, ch.pick(['', '*'])) if not sub else ('MIXED', sub)
        else: cm = (kind,)
        if n == d.root and wish.get('root_cm'):
            w = wish['root_cm']
            if w == 'CH' and cm[0] != 'CH': cm = gen_children_cm(ch, ch.subset(names, 1, 3), ch.int(1, 3))
            elif w == 'SELF': cm = ('CH', ('s', [('n', n, ch.pick(['*', '?', '*']))] + ([('n', ch.pick(names), '?')] if ch.bool() else []), ''))
            elif w == 'EMPTY': cm = ('EMPTY',)
            elif w == 'MIXED' and len(names) > 1: cm = ('MIXED', ch.subset(names[1:], 0, len(names) - 2))
            if cm[0] == 'MIXED' and not cm[1] and len(cm) < 3: cm = ('MIXED', [], '*')
        d.elements[n] = cm
        d.elem_loc[n] = ch.pick(locs)
        if n == d.root and wish.get('ext') and wish.get('root_cm'): d.elem_loc[n] = ch.pick([l for l in locs if l in EXTERNAL_LOCS])
    # every element type must have a finite instance (else it could never be generated below a required position)
    while True:
        mh = min_heights(d)
        bad = [n for n in d.elements if mh[n] >= INF]
        if not bad: break
        d.elements[bad[0]] = ('EMPTY',) if ch.bool() else ('MIXED', [], '')
    for n in names:
        if d.elem_loc[n] in ('ext', 'xinc') and d.elements[n][0] in ('CH', 'MIXED') and ch.chance(1, 4): d.cm_via_pe.add(n)
    # attributes
    need_unparsed = need_notation = need_idref = False
    for n in names:
        atts = []
        wanted = wish.get('att') if n == d.root else None
        for an in ch.subset(ATT_NAMES, 1 if wanted else 0, 3 if not big else 4):
            ty = ch.pick(ATT_TYPES)
            if wanted and not atts: ty = ch.pick(wanted[0])
            if ty == 'ID' and any(a['type'] == 'ID' for a in atts): ty = 'IDREF'
            if ty == 'NOTATION' and (any(a['type'] == 'NOTATION' for a in atts) or d.elements[n][0] == 'EMPTY'): ty = 'ENUM'
            kind = ch.pick(DEFAULT_KINDS)
            if wanted and not atts: kind = ch.pick(wanted[1])
            if ty == 'ID' and kind in ('DEFAULT', '#FIXED'): kind = ch.pick(['#IMPLIED', '#REQUIRED'])
            a = {'name': an, 'type': ty, 'enum': None, 'kind': kind, 'dflt': None, 'loc': ch.pick(locs)}
            if wanted and not atts and wish.get('ext'): a['loc'] = ch.pick([l for l in locs if l in EXTERNAL_LOCS])
            if ty == 'ENUM':
                toks = []
                for _ in range(ch.int(1, 3)):
                    t = gen_nmtoken(ch, 3)
                    if t not in toks: toks.append(t)
                a['enum'] = toks
            elif ty == 'NOTATION':
                a['enum'] = ch.subset(['n1', 'n2', 'n3'], 1, 2); need_notation = True
            if ty in ('ENTITY', 'ENTITIES'): need_unparsed = True
            if ty in ('IDREF', 'IDREFS'): need_idref = True
            atts.append(a)
        if atts: d.attlists[n] = atts
    if need_idref:
        al = d.attlists.setdefault(d.root, [])
        if not any(a['type'] == 'ID' for a in al):
            used = [a['name'] for a in al]
            al.append({'name': [x for x in ATT_NAMES if x not in used][0], 'type': 'ID', 'enum': None, 'kind': ch.pick(['#IMPLIED', '#REQUIRED']),
                       'dflt': None, 'loc': ch.pick(locs)})
    if need_unparsed or ch.chance(1, 6):
        need_notation = True
        for i in range(ch.int(1, 2)):
            d.unparsed.append(('u%d' % (i + 1), ch.pick(['n1', 'n2']), ch.pick(locs)))
    if need_notation:
        for nm in ['n1', 'n2', 'n3']: d.notations.append((nm, ch.pick(locs)))
    if ch.chance(1, 3):
        d.entities['g1'] = {'nodes': [('t', ch.pick(['x', 'txt', 'a b']))], 'loc': ch.pick(locs)}
    # default values (valid for their type; IDREF defaults name the id 'd0' that the document element always carries)
    for n, atts in d.attlists.items():
        for a in atts:
            if a['kind'] in ('DEFAULT', '#FIXED'):
                a['dflt'] = gen_value(ch, d, a, idpool=['d0'], fresh_id=None, plain=True)
    d.decoys = use_ext and ch.chance(1, 4)
    return d

def gen_value(ch, d, a, idpool, fresh_id, plain=False):
    """a value (normalised form) valid for attribute declaration `a`"""
    ty = a['type']
    if ty == 'CDATA': return gen_cdata(ch)
    if ty == 'ID': return fresh_id()
    if ty == 'IDREF': return ch.pick(idpool)
    if ty == 'IDREFS': return ' '.join(ch.pick(idpool) for _ in range(ch.int(1, 3)))
    if ty == 'ENTITY': return ch.pick(d.unparsed)[0]
    if ty == 'ENTITIES': return ' '.join(ch.pick(d.unparsed)[0] for _ in range(ch.int(1, 3)))
    if ty == 'NMTOKEN': return gen_nmtoken(ch)
    if ty == 'NMTOKENS': return ' '.join(gen_nmtoken(ch, 3) for _ in range(ch.int(1, 3)))
    return ch.pick(a['enum'])

def norm_cdata(raw): return re.sub('[\t\n\r]', ' ', raw)
def norm_tok(raw): return ' '.join(x for x in re.split('[ \t\n\r]+', raw) if x)
def norm_for(a, raw): return norm_cdata(raw) if a is None or a['type'] == 'CDATA' else norm_tok(raw)

def spaced(ch, value):
    """lexical variation of a tokenised value: extra spaces that normalisation removes"""
    toks = value.split(' ')
    sep = ch.pick([' ', ' ', '  ', ' \n'])
    return ch.pick(['', '', ' ', '  ']) + sep.join(toks) + ch.pick(['', '', ' ', '\n'])

# ------------------------------------------------------------------------------------------------------------------
# rendering
# ------------------------------------------------------------------------------------------------------------------
def q(s):
    return '"' + s.replace('&', '&amp;').replace('<', '&lt;').replace('"', '&quot;') + '"'

def render_attdef(a):
    ty = a['type']
    if ty == 'ENUM': t = '(' + '|'.join(a['enum']) + ')'
    elif ty == 'NOTATION': t = 'NOTATION (' + '|'.join(a['enum']) + ')'
    else: t = ty
    if a['kind'] == 'DEFAULT': dv = q(a['dflt'])
    elif a['kind'] == '#FIXED': dv = '#FIXED ' + q(a['dflt'])
    else: dv = a['kind']
    return '%s %s %s' % (a['name'], t, dv)

def render_decls(dtd, ch=None):
    """-> list of (loc, text, key) declarations in a random legal order"""
    sp = (lambda: ch.pick(['', '', '', ' ', '\n '])) if ch else (lambda: '')
    out = []
    for n, cm in dtd.elements.items():
        out.append((dtd.elem_loc[n], '<!ELEMENT %s %s>' % (n, render_cm(cm, sp)), ('E', n)))
    for n, atts in dtd.attlists.items():
        groups = {}
        for a in atts: groups.setdefault(a['loc'], []).append(a)
        for loc, g in groups.items():
            if ch and len(g) > 1 and ch.bool():
                for a in g: out.append((loc, '<!ATTLIST %s %s>' % (n, render_attdef(a)), ('A', n)))
            else:
                out.append((loc, '<!ATTLIST %s %s>' % (n, '\n  '.join(render_attdef(a) for a in g)), ('A', n)))
    for i, (nm, loc) in enumerate(dtd.notations):
        ext = ['SYSTEM "%s.not"' % nm, 'PUBLIC "-//verif//%s"' % nm, 'PUBLIC "-//verif//%s" "%s.not"' % (nm, nm)][i % 3]
        out.append((loc, '<!NOTATION %s %s>' % (nm, ext), ('N', nm)))
    for nm, nt, loc in dtd.unparsed:
        out.append((loc, '<!ENTITY %s SYSTEM "%s.bin" NDATA %s>' % (nm, nm, nt), ('U', nm)))
    for nm, e in dtd.entities.items():
        val = render_nodes(e['nodes'])
        out.append((e['loc'], ('<!ENTITY %s \'%s\'>' if '"' in val else '<!ENTITY %s "%s">') % (nm, val), ('G', nm)))
    if ch:
        # random order (Fisher-Yates through the chooser)
        for i in range(len(out) - 1, 0, -1):
            j = ch.int(0, i); out[i], out[j] = out[j], out[i]
    return out

def render_dtd(dtd, ch=None, standalone=None, doctype_name=None):
    """-> (prolog text up to and including the DOCTYPE, {sysid: text})"""
    decls = render_decls(dtd, ch)
    # standalone="yes": a parameter-entity reference inside the external subset is itself a "reference to an externally declared
    # entity" by the letter of section 2.9 (Xerces reports VC_IllegalRefInStandalone); not generated -- plain declarations instead
    plain_ext = standalone == 'yes'
    files = {}
    internal = []; external = []
    npe = [0]
    def pe_name():
        npe[0] += 1; return 'pe%d' % npe[0]
    for loc, text, key in decls:
        if loc == 'int': internal.append(text)
        elif loc == 'ipe':
            p = pe_name(); internal.append("<!ENTITY %% %s '%s'>" % (p, text)); internal.append('%' + p + ';')
        elif loc == 'epe':
            p = pe_name(); files[p + '.ent'] = text + '\n'
            internal.append('<!ENTITY %% %s SYSTEM "%s.ent">' % (p, p)); internal.append('%' + p + ';')
        elif loc == 'ext':
            if key[0] == 'E' and key[1] in dtd.cm_via_pe and not plain_ext:
                p = pe_name(); cmtext = text[len('<!ELEMENT %s ' % key[1]):-1]
                external.append("<!ENTITY %% %s '%s'>" % (p, cmtext)); external.append('<!ELEMENT %s %%%s;>' % (key[1], p))
            else: external.append(text)
        elif loc == 'xinc':
            if npe[0] % 2 == 0 or plain_ext: external.append('<![INCLUDE[' + text + ']]>')
            else:
                p = pe_name(); external.append("<!ENTITY %% %s 'INCLUDE'>" % p); external.append('<![%' + p + ';[\n' + text + '\n]]>')
        elif loc == 'xpe' and plain_ext: external.append(text)
        elif loc == 'xpe':
            p = pe_name(); external.append("<!ENTITY %% %s '%s'>" % (p, text)); external.append('%' + p + ';')
    if dtd.decoys:
        # conflicting declarations that must be ignored; placed first so that they would win if they were read
        dec = ['<![IGNORE[<!ELEMENT %s (zz-decoy)> <!ATTLIST %s zz-req CDATA #REQUIRED>]]>' % (dtd.root, dtd.root),
               "<!ENTITY % sw-off 'IGNORE'>", '<![%sw-off;[<!ELEMENT ' + dtd.root + ' EMPTY> <![INCLUDE[ nested ]]> ]]>']
        external = (dec[:1] if plain_ext else dec) + external
    xmldecl = ''
    if standalone is not None: xmldecl = '<?xml version="1.0" encoding="UTF-8" standalone="%s"?>\n' % standalone
    elif ch and ch.bool(): xmldecl = '<?xml version="1.0"?>\n'
    dt = '<!DOCTYPE ' + (doctype_name or dtd.root)
    if external:
        files['ext.dtd'] = ('<?xml version="1.0" encoding="UTF-8"?>\n' if (ch and ch.bool()) else '') + '\n'.join(external) + '\n'
        dt += ' SYSTEM "ext.dtd"'
    if internal: dt += ' [\n' + '\n'.join(internal) + '\n]'
    dt += '>\n'
    return xmldecl + dt, files

def esc_text(s): return s.replace('&', '&amp;').replace('<', '&lt;').replace('>', '&gt;')

def render_nodes(nodes):
    return ''.join(render_doc_node(n) for n in nodes)

def render_doc_node(n):
    k = n[0]
    if k == 'e':
        at = ''.join(' %s=%s' % (an, q(av)) for an, av in n[2])
        if n[4] and not n[3]: return '<%s%s/>' % (n[1], at)
        return '<%s%s>%s</%s>' % (n[1], at, render_nodes(n[3]), n[1])
    if k == 't': return esc_text(n[1])
    if k == 'ws': return n[1]
    if k == 'c': return '<!--' + n[1] + '-->'
    if k == 'pi': return '<?%s %s?>' % (n[1], n[2])
    if k == 'cd': return '<![CDATA[' + n[1] + ']]>'
    if k == 'cr': return '&#%d;' % n[1]
    if k == 'er': return '&' + n[1] + ';'
    raise ValueError(k)

# ------------------------------------------------------------------------------------------------------------------
# the validator: set of violated constraint classes
# ------------------------------------------------------------------------------------------------------------------
NAME_RE = re.compile('^[%s][%s]*$' % (re.escape(NAME_START) + 'A-Za-z', re.escape(NAME_REST) + 'A-Za-z'))
NMTOKEN_RE = re.compile('^[%s]+$' % (re.escape(NAME_REST) + 'A-Za-z'))

def collect_ids(dtd, root):
    """multiset of (lexically valid) ID values carried by the document, defaults cannot supply IDs"""
    ids = []
    def walk(n):
        if n[0] == 'e':
            for an, raw in n[2]:
                a = dtd.attdecl(n[1], an)
                if a and a['type'] == 'ID':
                    v = norm_tok(raw)
                    if NAME_RE.match(v): ids.append(v)
            for c in n[3]: walk(c)
        elif n[0] == 'er' and n[1] in dtd.entities:
            for c in dtd.entities[n[1]]['nodes']: walk(c)
    walk(root)
    return ids

def violations(dtd, doc):
    """doc = {'standalone': None|'yes'|'no', 'doctype': name, 'root': node}.  -> set of constraint classes"""
    V = set()
    sa = doc.get('standalone') == 'yes'
    ids = collect_ids(dtd, doc['root'])
    idset = set(ids)
    if len(idset) != len(ids): V.add('dup-id')
    if doc['root'][1] != doc['doctype']: V.add('root')
    unparsed = {u[0] for u in dtd.unparsed}
    memo = {}
    def check_value(el, a, value):
        ty = a['type']
        if ty == 'CDATA': return
        toks = value.split(' ') if value else ['']
        if ty not in LIST_TYPES and ty not in ('NOTATION', 'ENUM') and len(toks) > 1: V.add('bad-token'); return
        if ty in ('NOTATION', 'ENUM'):
            if value not in a['enum']: V.add('bad-enum')
            return
        for t in toks:
            if ty in NAME_TYPES:
                if not NAME_RE.match(t): V.add('bad-token'); return
            elif not NMTOKEN_RE.match(t): V.add('bad-token'); return
            if ty in ('IDREF', 'IDREFS') and t not in idset: V.add('dangling-idref')
            if ty in ('ENTITY', 'ENTITIES') and t not in unparsed: V.add('bad-entity')
    def elem(n):
        name = n[1]
        cm = dtd.elements.get(name)
        written = set()
        for an, raw in n[2]:
            written.add(an)
            a = dtd.attdecl(name, an) if cm is not None else None
            if a is None: V.add('undeclared-attr'); continue
            value = norm_for(a, raw)
            if sa and a['loc'] in EXTERNAL_LOCS and a['type'] in TOKENISED and value != norm_cdata(raw): V.add('sa-norm')
            if a['kind'] == '#FIXED' and value != norm_for(a, a['dflt']): V.add('fixed')
            check_value(name, a, value)
        if cm is not None:
            for a in dtd.attlists.get(name, []):
                if a['name'] in written: continue
                if a['kind'] == '#REQUIRED': V.add('required')
                elif a['kind'] in ('DEFAULT', '#FIXED'):
                    if sa and a['loc'] in EXTERNAL_LOCS: V.add('sa-default')
                    check_value(name, a, norm_for(a, a['dflt']))
        # content
        kids = []; has_text = False; has_ws = False; has_misc = False; has_any = bool(n[3])
        def flat(nodes):
            nonlocal has_text, has_ws, has_misc
            for c in nodes:
                if c[0] == 'e': kids.append(c[1]); elem(c)
                elif c[0] == 't':
                    if c[1].strip(' \t\n\r'): has_text = True
                    elif c[1]: has_ws = True
                elif c[0] == 'ws':
                    if c[1]: has_ws = True
                elif c[0] in ('c', 'pi'): has_misc = True
                elif c[0] in ('cd', 'cr'): has_text = True       # never matches S, whatever it contains
                elif c[0] == 'er': flat(dtd.entities[c[1]]['nodes'])
        flat(n[3])
        if cm is None: V.add('undeclared-elem'); return
        if cm[0] == 'EMPTY':
            if has_any: V.add('empty-content')
        elif cm[0] == 'ANY': pass
        elif cm[0] == 'MIXED':
            if not all(k in cm[1] for k in kids): V.add('content-model')
        else:
            if has_text: V.add('text-in-elemcontent')
            key = (name, tuple(kids))
            if key not in memo:
                if name not in memo: memo[name] = Membership(cm, list(dtd.elements))
                memo[key] = memo[name].accepts(kids)
            ok, agree = memo[key]
            if not agree: V.add('ORACLE-DISAGREE')
            if not ok: V.add('content-model')
            if sa and has_ws and dtd.elem_loc[name] in EXTERNAL_LOCS: V.add('sa-ws')
    elem(doc['root'])
    # declarations
    declared_not = {n for n, _ in dtd.notations}
    for nm, nt, loc in dtd.unparsed:
        if nt not in declared_not: V.add('notation-undeclared')
    for al in dtd.attlists.values():
        for a in al:
            if a['type'] == 'NOTATION' and any(t not in declared_not for t in a['enum']): V.add('notation-undeclared')
    return V

def sa_norm_undetected(dtd, doc):
    """known finding C07-sa-attnorm-trailing-inner: True if the document violates the standalone normalisation rule only through
    forms Xerces does not look for (it checks leading white space, and a tab/CR/LF directly followed by white space)"""
    hit = {'det': False, 'undet': False}
    def walk(n):
        if n[0] == 'e':
            for an, raw in n[2]:
                a = dtd.attdecl(n[1], an) if n[1] in dtd.elements else None
                if a and a['type'] in TOKENISED and a['loc'] in EXTERNAL_LOCS and norm_tok(raw) != norm_cdata(raw):
                    # (the TAB/CR/LF-then-space form is only recognised at the start of a white-space run and only on the namespace-less
                    #  path, so it is not relied upon: only leading white space counts as detectable)
                    if raw[:1] in ' \t\n\r': hit['det'] = True
                    else: hit['undet'] = True
            for c in n[3]: walk(c)
    walk(doc['root'])
    for e in dtd.entities.values():          # attribute values inside the replacement text of referenced entities count as well
        for c in e['nodes']: walk(c)
    return hit['undet'] and not hit['det']

def sa_ws_undetected(dtd, doc):
    """known finding C07-sa-ws-before-reference: True if every white-space run that violates the standalone rule (white space directly in an
    externally declared element-content element) is immediately followed by a reference -- scanCharData hands the buffered characters to
    sendCharData when it meets '&' and only checks what is left in the buffer at the next '<'"""
    hit = {'det': False, 'undet': False}
    def walk(n):
        if n[0] != 'e': return
        cm = dtd.elements.get(n[1])
        if cm and cm[0] == 'CH' and dtd.elem_loc[n[1]] in EXTERNAL_LOCS:
            kids = n[3]; i = 0
            while i < len(kids):
                if kids[i][0] == 'ws' or (kids[i][0] == 't' and kids[i][1] and not kids[i][1].strip(' \t\n\r')):
                    j = i
                    while j < len(kids) and kids[j][0] in ('ws', 't'): j += 1
                    if j < len(kids) and kids[j][0] in ('er', 'cr'): hit['undet'] = True
                    else: hit['det'] = True
                    i = j
                else: i += 1
        for c in n[3]: walk(c)
    walk(doc['root'])
    for e in dtd.entities.values():
        for c in e['nodes']: walk(c)
    return hit['undet'] and not hit['det']

def enum_multi_only(dtd, doc):
    """known finding C07-enum-multiple-tokens-accepted: True if every enumeration violation of the document is a value made of several
    *listed* tokens (Xerces checks such a value token by token and accepts it)"""
    hit = {'multi': False, 'other': False}
    def visit(a, value):
        if a['type'] in ('ENUM', 'NOTATION') and value not in a['enum']:
            toks = value.split(' ')
            if len(toks) > 1 and all(t in a['enum'] for t in toks): hit['multi'] = True
            else: hit['other'] = True
    def walk(n):
        if n[0] == 'e':
            wr = dict(n[2])
            for a in dtd.attlists.get(n[1], []) if n[1] in dtd.elements else []:
                if a['name'] in wr: visit(a, norm_tok(wr[a['name']]))
                elif a['dflt'] is not None: visit(a, norm_tok(a['dflt']))
            for c in n[3]: walk(c)
        elif n[0] == 'er':
            for c in dtd.entities[n[1]]['nodes']: walk(c)
    walk(doc['root'])
    return hit['multi'] and not hit['other']

def sa_ambiguous(dtd, doc):
    """standalone='yes' situations on which the editions / WFC-vs-VC reading differ: not generated"""
    amb = [False]
    extent = {u[0] for u in dtd.unparsed if u[2] != 'int'}
    def walk(n):
        if n[0] == 'e':
            for an, raw in n[2]:
                a = dtd.attdecl(n[1], an)
                if a and a['type'] in ('ENTITY', 'ENTITIES') and set(norm_tok(raw).split(' ')) & extent: amb[0] = True
                if a and a['type'] in ('ENUM', 'NOTATION') and a['loc'] in EXTERNAL_LOCS and norm_tok(raw) != norm_cdata(raw): amb[0] = True
            for a in dtd.attlists.get(n[1], []):
                if a['type'] in ('ENTITY', 'ENTITIES') and a['dflt'] and set(a['dflt'].split(' ')) & extent: amb[0] = True
            for c in n[3]: walk(c)
        elif n[0] == 'er':
            if dtd.entities[n[1]]['loc'] != 'int': amb[0] = True        # WFC Entity Declared: not well-formed
            for c in dtd.entities[n[1]]['nodes']: walk(c)
    walk(doc['root'])
    return amb[0]

# ------------------------------------------------------------------------------------------------------------------
# valid-by-construction instances
# ------------------------------------------------------------------------------------------------------------------
class InstanceGen:
    def __init__(self, ch, dtd, standalone, maxdepth=4, fuel=30):
        self.ch = ch; self.dtd = dtd; self.sa = standalone == 'yes'
        self.mh = min_heights(dtd); self.maxdepth = max(maxdepth, self.mh[dtd.root]); self.fuel = fuel
        self.nid = 0; self.ids = ['d0']
        self.has_idref = any(a['type'] in ('IDREF', 'IDREFS') for al in dtd.attlists.values() for a in al)
    def fresh_id(self):
        self.nid += 1
        v = 'i%d' % self.nid if self.ch.chance(2, 3) else gen_name(self.ch, 2) + '-%d' % self.nid
        self.ids.append(v); return v
    def misc(self, allow_ws):
        ch = self.ch
        k = ch.weighted([(None, 6), ('ws', 3 if allow_ws else 0), ('c', 1), ('pi', 1)])
        if k == 'ws': return [('ws', ch.pick([' ', '\n', '\n  ', '\t']))]
        if k == 'c': return [('c', ch.pick(['', ' c ', 'x<y&z', ' - ']))]
        if k == 'pi': return [('pi', ch.pick(['p', 'tgt', 'x-y']), ch.pick(['', 'd', 'a="b" <>']))]
        return []
    def text(self):
        return ('t', self.ch.pick(['x', 'text', 'a b', ' lead', 'trail ', '1 < 2 & 3', '\n', ' ', 'ÿé']))
    def attrs(self, name, is_docroot):
        ch = self.ch; out = []
        for a in self.dtd.attlists.get(name, []):
            ext = a['loc'] in EXTERNAL_LOCS
            force = is_docroot and a['type'] == 'ID' and self.has_idref
            if a['kind'] == '#REQUIRED' or force: write = True
            elif a['kind'] == '#IMPLIED': write = ch.bool()
            elif self.sa and ext: write = True
            else: write = ch.chance(1, 2)
            if not write: continue
            if force: v = 'd0'
            elif a['kind'] == '#FIXED': v = a['dflt']
            else: v = gen_value(ch, self.dtd, a, idpool=None, fresh_id=self.fresh_id) if a['type'] not in ('IDREF', 'IDREFS') else None
            out.append([a, v])
        return out
    def element(self, name, depth, is_docroot=False):
        ch = self.ch; dtd = self.dtd
        self.fuel -= 1
        small = self.fuel <= 0
        cm = dtd.elements[name]
        budget = self.maxdepth - depth - 1         # height available to children
        node = ['e', name, self.attrs(name, is_docroot), [], False]
        kids = node[3]
        ext_elem = dtd.elem_loc[name] in EXTERNAL_LOCS
        if cm[0] == 'EMPTY':
            node[4] = ch.bool()
        elif cm[0] == 'ANY' or cm[0] == 'MIXED':
            cand = [n for n in (dtd.elements if cm[0] == 'ANY' else cm[1]) if self.mh[n] <= budget]
            for _ in range(0 if small else ch.int(0, 3)):
                if cand and ch.bool(): kids.append(self.element(ch.pick(cand), depth + 1))
                else:
                    kids.append(self.text())
                    if ch.chance(1, 8): kids.append(('cd', ch.pick(['', 'cd', ' ', '<&>'])))
                    if ch.chance(1, 8): kids.append(('cr', ch.pick([65, 32, 10, 233])))
                    if ch.chance(1, 6) and dtd.entities: kids.append(('er', ch.pick(sorted(dtd.entities))))
                kids += self.misc(False)
            if not kids: node[4] = ch.bool()
        else:
            w = sample_word(ch, cm[1], self.mh, budget, small)
            if w is None: w = sample_word(ch, cm[1], self.mh, INF, True)
            ws_ok = not (self.sa and ext_elem)
            kids += self.misc(ws_ok)
            for nm in w:
                kids.append(self.element(nm, depth + 1)); kids += self.misc(ws_ok)
            if not kids: node[4] = ch.bool()
        return node
    def finish(self, node):
        """second pass: IDREF values now that the set of IDs is known; lexical forms; tuples"""
        ch = self.ch
        if node[0] != 'e': return tuple(node)
        at = []
        for a, v in node[2]:
            if v is None: v = gen_value(ch, self.dtd, a, idpool=self.ids, fresh_id=None)
            if a['type'] != 'CDATA' and not (self.sa and a['loc'] in EXTERNAL_LOCS) and ch.chance(1, 4): v = spaced(ch, v)
            at.append((a['name'], v))
        return ('e', node[1], at, [self.finish(c) for c in node[3]], node[4])

def gen_valid_doc(ch, dtd, size='quick'):
    sa = ch.weighted([(None, 4), ('no', 1), ('yes', 3 if dtd.has_external() or any(l == 'epe' for l in _all_locs(dtd)) else 1)])
    g = InstanceGen(ch, dtd, sa, maxdepth=4 if size == 'quick' else 5, fuel=25 if size == 'quick' else 60)
    root = g.finish(g.element(dtd.root, 0, True))
    root = entitise(ch, dtd, root, sa)
    doc = {'standalone': sa, 'doctype': dtd.root, 'root': root}
    if sa == 'yes' and sa_ambiguous(dtd, doc): doc['standalone'] = None
    return doc

def entitise(ch, dtd, root, sa):
    """move a run of child elements of an element-content element into an internal general entity and reference it (section 4.4.2:
    the replacement text is processed in place of the reference, so validity is unchanged)"""
    count = [0]
    def walk(n):
        if n[0] != 'e': return n
        kids = [walk(c) for c in n[3]]
        cm = dtd.elements.get(n[1])
        idx = [i for i, c in enumerate(kids) if c[0] == 'e']
        if cm and cm[0] == 'CH' and idx and count[0] < 2 and ch.chance(1, 6):
            i = ch.pick(idx); j = ch.pick([k for k in idx if k >= i][:3])
            run = kids[i:j + 1]
            text = render_nodes(run)
            # EntityValue literal: no "'" (delimiter), no '%' (PE reference), and every '&' must begin a well-formed reference
            if "'" not in text and '%' not in text and not re.search(r'&(?!(?:amp|lt|gt|quot|#[0-9]+|ge[0-9]|g1);)', text):
                count[0] += 1
                nm = 'ge%d' % count[0]
                dtd.entities[nm] = {'nodes': run, 'loc': 'int' if sa == 'yes' else ch.pick(['int', 'int', 'ext', 'epe'])}
                kids = kids[:i] + [('er', nm)] + kids[j + 1:]
        return ('e', n[1], n[2], kids, n[4])
    return walk(root)

def _all_locs(dtd):
    return list(dtd.elem_loc.values()) + [a['loc'] for al in dtd.attlists.values() for a in al]

# ------------------------------------------------------------------------------------------------------------------
# single-constraint mutations of a valid instance.  Each returns (dtd, doc, injected_class) or None if not applicable.
# ------------------------------------------------------------------------------------------------------------------
def _elements(root):
    out = []
    def walk(n, path):
        if n[0] == 'e':
            out.append((path, n))
            for i, c in enumerate(n[3]): walk(c, path + (i,))
    walk(root, ())
    return out

def _replace(root, path, fn):
    """functional update of the element at `path`"""
    if not path: return fn(root)
    kids = list(root[3]); kids[path[0]] = _replace(kids[path[0]], path[1:], fn)
    return ('e', root[1], root[2], kids, root[4])

def _with_attrs(n, attrs): return ('e', n[1], attrs, n[3], n[4])
def _with_kids(n, kids): return ('e', n[1], n[2], kids, False if kids else n[4])

def copy_dtd(d):
    import copy
    return copy.deepcopy(d)

MUTATIONS = ['wrong-root', 'missing-required', 'wrong-fixed', 'enum-outside', 'enum-multi', 'bad-nmtoken', 'bad-name', 'empty-value', 'multi-token',
             'dup-id', 'dangling-idref', 'entity-parsed', 'entity-undeclared', 'notation-value', 'notation-undeclared',
             'undeclared-elem', 'undeclared-child', 'undeclared-attr', 'text-in-elemcontent', 'cdata-in-elemcontent', 'charref-in-elemcontent',
             'empty-ws', 'empty-text', 'empty-child', 'empty-comment', 'empty-pi', 'cm-delete', 'cm-insert', 'cm-swap', 'cm-dup', 'mixed-foreign',
             'sa-default', 'sa-norm', 'sa-ws']

def mutate(ch, dtd, doc, kind):
    els = _elements(doc['root'])
    def attr_sites(pred, written=True):
        out = []
        for path, n in els:
            if n[1] not in dtd.elements: continue
            wr = dict(n[2])
            for a in dtd.attlists.get(n[1], []):
                if pred(a) and ((a['name'] in wr) == written): out.append((path, n, a))
        return out
    def set_attr(path, a, value):
        def fn(n):
            at = [(k, v) for k, v in n[2] if k != a['name']]
            if value is not None: at.append((a['name'], value))
            return _with_attrs(n, at)
        return dict(doc, root=_replace(doc['root'], path, fn))
    def kid_sites(pred):
        return [(p, n) for p, n in els if n[1] in dtd.elements and pred(dtd.elements[n[1]], n)]
    def set_kids(path, kids):
        return dict(doc, root=_replace(doc['root'], path, lambda n: _with_kids(n, kids)))

    if kind == 'wrong-root':
        others = [n for n in dtd.elements if n != doc['root'][1]]
        if not others: return None
        return dtd, dict(doc, doctype=ch.pick(others)), 'root'
    if kind == 'missing-required':
        s = attr_sites(lambda a: a['kind'] == '#REQUIRED')
        if not s: return None
        p, n, a = ch.pick(s)
        return dtd, set_attr(p, a, None), 'required'
    if kind == 'wrong-fixed':
        s = attr_sites(lambda a: a['kind'] == '#FIXED', True) + attr_sites(lambda a: a['kind'] == '#FIXED', False)
        if not s: return None
        p, n, a = ch.pick(s)
        ty = a['type']
        if ty in ('ENUM', 'NOTATION'):
            alt = [t for t in a['enum'] if t != a['dflt']]
            if not alt: return None
            v = ch.pick(alt)
        elif ty == 'CDATA': v = a['dflt'] + ch.pick(['x', ' ', '.'])
        elif ty in ('IDREF', 'IDREFS'): v = a['dflt'] + ' d0' if ty == 'IDREFS' else None
        elif ty in ('ENTITY', 'ENTITIES'):
            alt = [u[0] for u in dtd.unparsed if u[0] != a['dflt']]
            v = ch.pick(alt) if alt else (a['dflt'] + ' ' + a['dflt'] if ty == 'ENTITIES' else None)
        else: v = a['dflt'] + 'x'
        if v is None or norm_for(a, v) == norm_for(a, a['dflt']): return None
        return dtd, set_attr(p, a, v), 'fixed'
    if kind == 'enum-outside':
        s = attr_sites(lambda a: a['type'] == 'ENUM', True) + attr_sites(lambda a: a['type'] == 'ENUM' and a['kind'] == '#IMPLIED', False)
        if not s: return None
        p, n, a = ch.pick(s)
        v = ch.pick(a['enum']) + ch.pick(['x', '.', '0'])
        if v in a['enum']: return None
        return dtd, set_attr(p, a, v), 'bad-enum'
    if kind == 'enum-multi':
        pred = lambda a: a['type'] in ('ENUM', 'NOTATION') and a['kind'] != '#FIXED'
        s = attr_sites(pred, True) + attr_sites(lambda a: pred(a) and a['kind'] == '#IMPLIED', False)
        if not s: return None
        p, n, a = ch.pick(s)
        return dtd, set_attr(p, a, ch.pick(a['enum']) + ' ' + ch.pick(a['enum'])), 'bad-enum'
    if kind == 'notation-value':
        s = attr_sites(lambda a: a['type'] == 'NOTATION', True) + attr_sites(lambda a: a['type'] == 'NOTATION' and a['kind'] == '#IMPLIED', False)
        if not s: return None
        p, n, a = ch.pick(s)
        alt = [t for t in ['n1', 'n2', 'n3', 'n9'] if t not in a['enum']]
        return dtd, set_attr(p, a, ch.pick(alt)), 'bad-enum'
    if kind in ('bad-nmtoken', 'bad-name', 'empty-value', 'multi-token'):
        if kind == 'bad-nmtoken': pred = lambda a: a['type'] in ('NMTOKEN', 'NMTOKENS')
        elif kind == 'bad-name': pred = lambda a: a['type'] in NAME_TYPES
        elif kind == 'multi-token': pred = lambda a: a['type'] in ('ID', 'IDREF', 'ENTITY', 'NMTOKEN')
        else: pred = lambda a: a['type'] != 'CDATA'
        s = attr_sites(lambda a: pred(a) and a['kind'] != '#FIXED', True) + attr_sites(lambda a: pred(a) and a['kind'] == '#IMPLIED', False)
        if not s: return None
        p, n, a = ch.pick(s)
        if kind == 'empty-value': v = ch.pick(['', ' '])
        elif kind == 'multi-token': v = 'tk1 tk2'
        elif kind == 'bad-nmtoken':
            v = ch.pick(['a', '1', '']) + ch.pick(NOT_NAMECHAR) + ch.pick(['', 'b'])
            if a['type'] == 'NMTOKENS' and ch.bool(): v = 'ok ' + v
        else:
            v = ch.pick([ch.pick(NOT_NAMESTART) + 'a', 'a' + ch.pick(NOT_NAMECHAR), ch.pick(NOT_NAMECHAR)])
            if a['type'] in LIST_TYPES and ch.bool(): v = 'd0 ' + v if a['type'] == 'IDREFS' else v
        return dtd, set_attr(p, a, v), 'bad-token'
    if kind == 'dup-id':
        s = attr_sites(lambda a: a['type'] == 'ID', True)
        t = s + attr_sites(lambda a: a['type'] == 'ID', False)
        if not s or len(t) < 2: return None
        p, n, a = ch.pick(s)
        v = norm_tok(dict(n[2])[a['name']])
        t = [x for x in t if x[0] != p]
        if not t: return None
        p2, n2, a2 = ch.pick(t)
        return dtd, set_attr(p2, a2, v), 'dup-id'
    if kind == 'dangling-idref':
        s = attr_sites(lambda a: a['type'] in ('IDREF', 'IDREFS') and a['kind'] != '#FIXED', True) + \
            attr_sites(lambda a: a['type'] in ('IDREF', 'IDREFS') and a['kind'] == '#IMPLIED', False)
        if not s: return None
        p, n, a = ch.pick(s)
        v = ch.pick(['nosuch', 'D0', 'd00'])
        if a['type'] == 'IDREFS': v = ch.pick([v, 'd0 ' + v, v + ' d0'])
        return dtd, set_attr(p, a, v), 'dangling-idref'
    if kind in ('entity-parsed', 'entity-undeclared'):
        s = attr_sites(lambda a: a['type'] in ('ENTITY', 'ENTITIES') and a['kind'] != '#FIXED', True) + \
            attr_sites(lambda a: a['type'] in ('ENTITY', 'ENTITIES') and a['kind'] == '#IMPLIED', False)
        if not s: return None
        p, n, a = ch.pick(s)
        d2 = dtd
        if kind == 'entity-parsed':
            if 'g1' not in dtd.entities:
                d2 = copy_dtd(dtd); d2.entities['g1'] = {'nodes': [('t', 'x')], 'loc': 'int'}
            v = 'g1'
        else: v = ch.pick(['nosuch', 'U1', 'n1'])
        if a['type'] == 'ENTITIES' and ch.bool(): v = dtd.unparsed[0][0] + ' ' + v
        return d2, set_attr(p, a, v), 'bad-entity'
    if kind == 'notation-undeclared':
        used = sorted({u[1] for u in dtd.unparsed} | {t for al in dtd.attlists.values() for a in al if a['type'] == 'NOTATION' for t in a['enum']})
        if not used: return None
        victim = ch.pick(used)
        d2 = copy_dtd(dtd); d2.notations = [x for x in d2.notations if x[0] != victim]
        return d2, doc, 'notation-undeclared'
    if kind == 'undeclared-elem':
        s = [(p, n) for p, n in els if p]
        if not s: return None
        p, n = ch.pick(s)
        return dtd, dict(doc, root=_replace(doc['root'], p, lambda n: ('e', 'zz', [], n[3], n[4]))), 'undeclared-elem'
    if kind == 'undeclared-child':
        s = kid_sites(lambda cm, n: cm[0] != 'EMPTY')
        if not s: return None
        p, n = ch.pick(s)
        kids = list(n[3]); kids.insert(ch.int(0, len(kids)), ('e', ch.pick(['zz', 'undeclared']), [], [], True))
        return dtd, set_kids(p, kids), 'undeclared-elem'
    if kind == 'undeclared-attr':
        p, n = ch.pick(els)
        if n[1] not in dtd.elements: return None
        nm = ch.pick(['zz', 'ID', 'xx-' + (n[2][0][0] if n[2] else 'a')])
        if dtd.attdecl(n[1], nm) or nm in dict(n[2]): return None
        return dtd, dict(doc, root=_replace(doc['root'], p, lambda n: _with_attrs(n, list(n[2]) + [(nm, ch.pick(['', 'v', 'a b']))]))), 'undeclared-attr'
    if kind in ('text-in-elemcontent', 'cdata-in-elemcontent', 'charref-in-elemcontent'):
        s = kid_sites(lambda cm, n: cm[0] == 'CH')
        if not s: return None
        p, n = ch.pick(s)
        new = {'text-in-elemcontent': ('t', ch.pick(['x', ' x ', '0'])), 'cdata-in-elemcontent': ('cd', ch.pick(['x', 'a b'])),
               'charref-in-elemcontent': ('cr', ch.pick([65, 48, 233]))}[kind]
        kids = list(n[3]); kids.insert(ch.int(0, len(kids)), new)
        return dtd, set_kids(p, kids), 'text-in-elemcontent'
    if kind in ('empty-ws', 'empty-text', 'empty-child', 'empty-comment', 'empty-pi'):
        s = kid_sites(lambda cm, n: cm[0] == 'EMPTY')
        if not s: return None
        p, n = ch.pick(s)
        new = {'empty-ws': ('ws', ch.pick([' ', '\n'])), 'empty-text': ('t', 'x'), 'empty-child': ('e', ch.pick(sorted(dtd.elements)), [], [], True),
               'empty-comment': ('c', ' c '), 'empty-pi': ('pi', 'p', 'd')}[kind]
        if new[0] == 'e':
            # the inserted child itself must be valid: only element types that may be empty and need no attributes
            c = new[1]
            if not Membership(dtd.elements[c], list(dtd.elements)).accepts([])[0]: return None
            if any(a['kind'] != '#IMPLIED' for a in dtd.attlists.get(c, [])): return None
        return dtd, set_kids(p, [new]), 'empty-content'
    if kind in ('cm-delete', 'cm-insert', 'cm-swap', 'cm-dup'):
        s = kid_sites(lambda cm, n: cm[0] == 'CH')
        if not s: return None
        p, n = ch.pick(s)
        kids = list(n[3]); idx = [i for i, c in enumerate(kids) if c[0] == 'e']
        if kind == 'cm-delete':
            if not idx: return None
            i = ch.pick(idx)
            del kids[i]
        elif kind == 'cm-dup':
            if not idx: return None
            i = ch.pick(idx)
            kids.insert(i, kids[i])
        elif kind == 'cm-swap':
            if len(idx) < 2: return None
            k = ch.int(0, len(idx) - 2); i, j = idx[k], idx[k + 1]
            kids[i], kids[j] = kids[j], kids[i]
        else:
            c = ch.pick(sorted(dtd.elements))
            if not Membership(dtd.elements[c], list(dtd.elements)).accepts([])[0]: return None
            if any(a['kind'] != '#IMPLIED' for a in dtd.attlists.get(c, [])): return None
            kids.insert(ch.int(0, len(kids)), ('e', c, [], [], True))
        return dtd, set_kids(p, kids), 'content-model'
    if kind == 'mixed-foreign':
        s = kid_sites(lambda cm, n: cm[0] == 'MIXED')
        if not s: return None
        p, n = ch.pick(s)
        cand = [c for c in sorted(dtd.elements) if c not in dtd.elements[n[1]][1] and Membership(dtd.elements[c], list(dtd.elements)).accepts([])[0]
                and not any(a['kind'] != '#IMPLIED' for a in dtd.attlists.get(c, []))]
        if not cand: return None
        kids = list(n[3]); kids.insert(ch.int(0, len(kids)), ('e', ch.pick(cand), [], [], True))
        return dtd, set_kids(p, kids), 'content-model'
    if kind == 'sa-default':
        s = attr_sites(lambda a: a['kind'] in ('DEFAULT', '#FIXED') and a['loc'] in EXTERNAL_LOCS, True) + \
            attr_sites(lambda a: a['kind'] in ('DEFAULT', '#FIXED') and a['loc'] in EXTERNAL_LOCS, False)
        if not s: return None
        p, n, a = ch.pick(s)
        d = dict(set_attr(p, a, None), standalone='yes')
        return (dtd, d, 'sa-default') if not sa_ambiguous(dtd, d) else None
    if kind == 'sa-norm':
        s = attr_sites(lambda a: a['type'] in TOKENISED and a['loc'] in EXTERNAL_LOCS, True)
        if not s: return None
        p, n, a = ch.pick(s)
        v = norm_tok(dict(n[2])[a['name']])
        form = ch.pick(['lead', 'trail', 'double', 'nl-lead', 'tab-trail'])
        if form == 'double' and ' ' not in v: form = 'lead'
        v2 = {'lead': ' ' + v, 'trail': v + ' ', 'double': v.replace(' ', '  ', 1), 'nl-lead': '\n' + v, 'tab-trail': v + '\t'}[form]
        d = dict(set_attr(p, a, v2), standalone='yes')
        return (dtd, d, 'sa-norm:' + form) if not sa_ambiguous(dtd, d) else None
    if kind == 'sa-ws':
        s = kid_sites(lambda cm, n: cm[0] == 'CH' and dtd.elem_loc[n[1]] in EXTERNAL_LOCS)
        if not s: return None
        p, n = ch.pick(s)
        kids = list(n[3]); kids.insert(ch.int(0, len(kids)), ('ws', ch.pick([' ', '\n', '\t '])))
        d = dict(set_kids(p, kids), standalone='yes')
        return (dtd, d, 'sa-ws') if not sa_ambiguous(dtd, d) else None
    raise ValueError(kind)

def _carries_id(dtd, n):
    """subtree writes an ID attribute (deleting/duplicating it would change more than the content model)"""
    if n[0] != 'e': return False
    for an, _ in n[2]:
        a = dtd.attdecl(n[1], an)
        if a and a['type'] == 'ID': return True
    return any(_carries_id(dtd, c) for c in n[3])

# ------------------------------------------------------------------------------------------------------------------
# exhaustive lane: all child-name sequences up to length L for one element type
# ------------------------------------------------------------------------------------------------------------------
def all_sequences(alphabet, L):
    for n in range(L + 1):
        for t in itertools.product(alphabet, repeat=n): yield list(t)

def exhaustive_doc(cm, alphabet, L, leaf_models, ch=None, loc='int'):
    """One document holding every sequence over `alphabet` up to length L as the content of one <E> per line.
    -> (text, files, [(line, seq, member, agree)])"""
    decl = ['<!ELEMENT r (E)*>', '<!ELEMENT E %s>' % render_cm(cm)]
    for n in alphabet: decl.append('<!ELEMENT %s %s>' % (n, leaf_models.get(n, 'EMPTY')))
    files = {}
    if loc == 'int': head = '<!DOCTYPE r [\n' + '\n'.join(decl) + '\n]>\n'
    elif loc == 'ext':
        files['ext.dtd'] = '\n'.join(decl) + '\n'; head = '<!DOCTYPE r SYSTEM "ext.dtd">\n'
    else:
        files['ext.dtd'] = '\n'.join(decl[1:]) + '\n'; head = '<!DOCTYPE r SYSTEM "ext.dtd" [\n' + decl[0] + '\n]>\n'
    lines = [head + '<r>']
    line = head.count('\n') + 1
    m = Membership(cm, ['r', 'E'] + list(alphabet))
    rows = []
    k = 0
    for seq in all_sequences(alphabet, L):
        line += 1; k += 1
        sep = ' ' if (cm[0] == 'CH' and k % 5 == 0) else ('<!--c-->' if k % 7 == 0 else '')
        body = sep.join(('<%s/>' % n) if (k + i) % 3 else ('<%s></%s>' % (n, n)) for i, n in enumerate(seq))
        if cm[0] == 'MIXED' and k % 4 == 0: body = 'x' + body + ('y' if seq else '')
        if cm[0] == 'CH' and k % 5 == 0 and seq: body = body + ' '
        lines.append('<E>%s</E>' % body if (seq or k % 2) else '<E/>')
        ok, agree = m.accepts(seq)
        rows.append((line, seq, ok, agree))
    # a few long sequences (the per-element child array of the scanner grows at 32, 40, 50 entries): short sequences pumped up
    for j, w in enumerate([list(t) for n in (1, 2, 3) for t in itertools.product(alphabet, repeat=n)][:10]):
        seq = (w * 60)[:33 + 2 * j + (8 if j % 3 == 2 else 0)]
        line += 1
        lines.append('<E>%s</E>' % ''.join('<%s/>' % n for n in seq))
        ok, agree = m.accepts(seq)
        rows.append((line, seq, ok, agree))
    lines.append('</r>')
    return '\n'.join(lines) + '\n', files, rows

# ------------------------------------------------------------------------------------------------------------------
# big models: 33..140 leaf positions.  Xerces keeps DFA states as bit sets of leaf positions (32 per word; more than 128 leaves switch
# to a dynamically allocated representation) and picks between two follow-set union algorithms in DFAContentModel::buildDFA according
# to how many positions of the current state lie in the words spanned by the occurrences of the input name: none of that code runs
# for models with <= 32 leaves.  Families: long runs of optional/starred distinct names with one name repeated at both ends and in the
# middle; choices of 40+ names; sequences/choices of small nested groups over few names (many occurrences per name in every word).
# ------------------------------------------------------------------------------------------------------------------
def count_leaves(node):
    return 1 if node[0] == 'n' else sum(count_leaves(x) for x in node[1])

def gen_big_cm(ch):
    """-> (cm, names): a children model with 33..140 leaves and the element names it uses"""
    fam = ch.int(0, 3)
    target = ch.pick([33, 34, 40, 63, 64, 65, 66, 90, 96, 97, 127, 128, 129, 130, 140])
    xs = ['x%d' % i for i in range(1, 141)]
    rep = ch.pick(['a', 'b'])
    if fam == 0:
        # (a, x1?, ..., xk*, a?, ..., a, d)   repeated name at both ends and (sometimes) in the middle
        k = target - 3
        items = [('n', xs[i], ch.weighted([('?', 4), ('*', 2), ('', 0 if k > 20 else 1)])) for i in range(k)]
        nmid = ch.int(0, 3)
        for _ in range(nmid): items.insert(ch.int(1, len(items) - 1), ('n', rep, ch.pick(['?', '*', '?'])))
        tail = [('n', rep, ch.pick(['', '', '+', '?'])), ('n', 'd', ch.pick(['', '?']))]
        head = [('n', rep, ch.pick(['', '', '+']))]
        node = ('s', head + items + tail, ch.pick(['', '', '*', '+']))
    elif fam == 1:
        # ((x1|x2|...|xk|a)*, a, (y1|...|a)?, d)   big choices
        k = max(40, target - ch.int(2, 20))
        alts = [('n', xs[i], '') for i in range(k)]
        for _ in range(ch.int(0, 2)): alts.insert(ch.int(0, len(alts)), ('n', rep, ''))
        rest = target - len(alts)
        tail = [('n', rep, ch.pick(['', '?', '+']))]
        if rest > 4: tail.append(('c', [('n', xs[k + i], '') for i in range(rest - 3)] + [('n', rep, '')], ch.pick(['?', '*', ''])))
        tail.append(('n', 'd', ch.pick(['', '?'])))
        node = ('s', [('c', alts, ch.pick(['*', '+', '?', '']))] + tail, ch.pick(['', '', '+']))
    elif fam == 2:
        # sequence of small nested groups over few names: every name occurs in every 32-bit word of the position set
        small = ch.subset(['a', 'b', 'c', 'd', 'e'], 2, 4)
        groups = []; n = 0
        while n < target:
            g = gen_cm_node(ch, small, ch.int(1, 2), True)
            if g[2] == '' and ch.bool(): g = (g[0], g[1], ch.pick(['?', '*']))
            groups.append(g); n += count_leaves(g)
        node = ('s', groups, ch.pick(['', '', '*']))
    else:
        # choice of medium sequences mixing distinct and repeated names, nested once more
        branches = []; n = 0; j = 0
        while n < target:
            ln = ch.int(5, 20); items = []
            for _ in range(ln):
                if ch.chance(1, 5): items.append(('n', rep, ch.pick(['', '?', '*'])))
                else:
                    items.append(('n', xs[j], ch.pick(['?', '?', '*', ''])))
                    j += 1
            items.append(('n', rep, ''))
            branches.append(('s', items, ch.pick(['', '', '+']))); n += ln + 1
        if len(branches) < 2: branches.append(('s', [('n', rep, ''), ('n', 'd', '')], ''))
        node = ('s', [('c', branches, ch.pick(['', '+', '*'])), ('n', 'd', '?')], '')
    return ('CH', node), cm_names(node)

def walk_word(ch, node, skip=5):
    """a member of the model's language; optional parts are mostly skipped so that the walk reaches the late positions"""
    kind, body, occ = node
    def once():
        if kind == 'n': return [body]
        if kind == 's':
            out = []
            for x in body: out += walk_word(ch, x, skip)
            return out
        return walk_word(ch, ch.pick(body), skip)
    if occ == '': return once()
    if occ == '?': return once() if ch.int(0, skip) == 0 else []
    if occ == '*': k = ch.weighted([(0, skip), (1, 2), (2, 1)])
    else: k = ch.weighted([(1, skip), (2, 2), (3, 1)])
    out = []
    for _ in range(k): out += once()
    return out[:60]

def min_word(node):
    kind, body, occ = node
    if occ in ('?', '*'): return []
    if kind == 'n': return [body]
    if kind == 's': return [y for x in body for y in min_word(x)]
    return min((min_word(x) for x in body), key=len)

def big_doc(ch, cm, names, nwords=24):
    """-> (text, rows): one <E> per line: members found by walking the model (first the shortest one), and single-edit neighbours of them;
    verdict of every row by the two membership witnesses"""
    m = Membership(cm, ['r', 'E'] + list(names))
    decl = ['<!ELEMENT r (E)*>', '<!ELEMENT E %s>' % render_cm(cm)] + ['<!ELEMENT %s EMPTY>' % n for n in names]
    head = '<!DOCTYPE r [\n' + '\n'.join(decl) + '\n]>\n'
    seqs = [min_word(cm[1])]
    for i in range(nwords): seqs.append(walk_word(ch, cm[1], ch.pick([3, 5, 9])))
    extra = []
    for w in seqs:
        for _ in range(2):
            v = list(w); op = ch.int(0, 4)
            if op == 0 and v: del v[ch.int(0, len(v) - 1)]
            elif op == 1 and v: i = ch.int(0, len(v) - 1); v.insert(i, v[i])
            elif op == 2 and len(v) > 1: i = ch.int(0, len(v) - 2); v[i], v[i + 1] = v[i + 1], v[i]
            elif op == 3: v.insert(ch.int(0, len(v)), ch.pick(names))
            elif v: v[ch.int(0, len(v) - 1)] = ch.pick(names)
            extra.append(v)
    lines = [head + '<r>']; line = head.count('\n') + 1; rows = []; seen = set()
    for seq in seqs + extra:
        if tuple(seq) in seen: continue
        seen.add(tuple(seq))
        line += 1
        lines.append('<E>%s</E>' % ''.join('<%s/>' % n for n in seq))
        ok, agree = m.accepts(seq)
        rows.append((line, seq, ok, agree))
    lines.append('</r>')
    return '\n'.join(lines) + '\n', rows
