"""driver.py -- generic check driver: build, fan out workers, confirm failures, evidence, exit code.

A property module (pbt/props/Cxx.py) provides:
    ID            'C03'
    HARNESS       {'asan': ['xvexec']}                 harness binaries to build per flavour
    RULE          text for evidence.coverage.rule
    LEVEL         'exploration' (default)
    ASSUMPTIONS   list of str
    BUDGET        {'quick': n, 'thorough': n}           examples per worker (a case count, not seconds)
    worker(ctx)   -> runs generation; fills ctx.stats
    replay(case, ctx) -> (ok: bool, detail: str)        re-executes one saved case without Hypothesis
    classify(case, detail) -> finding-id | None         optional: maps a confirmed failure to a known finding
    known_witnesses() -> list of (finding-id, case)     optional: stored witnesses of 'known' findings
"""
import os, sys, time, json, importlib, subprocess, multiprocessing, traceback, collections, glob, random

HERE = os.path.dirname(os.path.abspath(__file__))
VERIF = os.path.dirname(HERE)
sys.path.insert(0, HERE)
import xv

NWORKERS = int(os.environ.get('VERIF_WORKERS', '16'))

class Stats:
    def __init__(self):
        self.evaluations = 0
        self.nontrivial = set()
        self.labels = collections.Counter()
        self.samples = []
        self.failures = []          # list of {'case':..., 'detail':...}
        self.excluded_known = collections.Counter()
        self.inconclusive = 0
        self.oracle_disagreements = 0
        self.extra = {}
        self.truncated = False
    def note(self, case_hash, nontrivial, labels=()):
        self.evaluations += 1
        if nontrivial: self.nontrivial.add(case_hash)
        for l in labels: self.labels[l] += 1
    def sample(self, obj, limit=4):
        # Hypothesis starts with minimal examples: take samples spread over the run, not the first ones
        self._nsample = getattr(self, '_nsample', 0) + 1
        if self._nsample in (1, 7, 23, 61, 127, 251, 503, 1009) and len(self.samples) < max(limit, 4):
            self.samples.append(obj)
    def pack(self):
        return dict(evaluations=self.evaluations, nontrivial=list(self.nontrivial), labels=dict(self.labels),
                    samples=self.samples, failures=self.failures, excluded_known=dict(self.excluded_known),
                    inconclusive=self.inconclusive, oracle_disagreements=self.oracle_disagreements, extra=self.extra,
                    truncated=self.truncated)

class Ctx:
    def __init__(self, pid, tier, seed, worker, nworkers, budget, deadline):
        self.pid = pid; self.tier = tier; self.seed = seed; self.worker = worker; self.nworkers = nworkers
        self.budget = budget; self.deadline = deadline
        self.stats = Stats()
        self._exec = {}
    def executor(self, name='xvexec', flavour='asan', **kw):
        key = (name, flavour)
        if key not in self._exec:
            self._exec[key] = xv.Executor(name, flavour, **kw)
        return self._exec[key]
    def close(self):
        for e in self._exec.values():
            try: e.close()
            except Exception: pass
        self._exec = {}
    def out_of_time(self):
        return time.time() > self.deadline

class PropertyFailure(Exception):
    """Raised by a property function when the oracle is violated.  Carries the replayable case."""
    def __init__(self, case, detail):
        Exception.__init__(self, detail[:2000])
        self.case = case; self.detail = detail

def hyp_run(ctx, strategy, prop_fn, max_examples, batches=4, seed_salt=0):
    """Run prop_fn(case) over `strategy` with Hypothesis in `batches` independent batches so that the
    search continues behind a failure.  prop_fn raises PropertyFailure on violation."""
    import hypothesis
    from hypothesis import given, settings, HealthCheck, Phase
    per = max(1, max_examples // batches)
    for b in range(batches):
        if ctx.out_of_time():
            ctx.stats.truncated = True; break
        if len(ctx.stats.failures) >= 2: break        # a broken tree: two shrunk failures per worker are enough, keep the run short
        sd = (ctx.seed * 1000003 + ctx.worker * 1009 + b * 17 + seed_salt) & 0xFFFFFFFF
        last = {}
        def wrapped(case):
            if ctx.out_of_time():
                ctx.stats.truncated = True
                return
            try:
                prop_fn(case)
            except PropertyFailure as f:
                last['f'] = f
                raise
        t = hypothesis.seed(sd)(settings(max_examples=per, database=None, deadline=None, derandomize=False,
                                         suppress_health_check=list(HealthCheck), report_multiple_bugs=False,
                                         print_blob=False,
                                         phases=[Phase.generate, Phase.shrink])(given(strategy)(wrapped)))
        try:
            t()
        except PropertyFailure as f:
            ctx.stats.failures.append({'case': f.case, 'detail': f.detail})
        except hypothesis.errors.Flaky as e:
            ctx.stats.inconclusive += 1
            ctx.stats.extra.setdefault('flaky', []).append(str(e)[:500])
            if 'f' in last:
                ctx.stats.failures.append({'case': last['f'].case, 'detail': 'FLAKY-UNDER-SHRINK ' + last['f'].detail})
        except hypothesis.errors.Unsatisfiable:
            ctx.stats.extra['unsatisfiable'] = ctx.stats.extra.get('unsatisfiable', 0) + 1

def _worker_main(modname, pid, tier, seed, worker, nworkers, budget, deadline, conn):
    try:
        import faulthandler, signal; faulthandler.register(signal.SIGUSR1, all_threads=True)      # kill -USR1 <worker> prints where a stuck worker is
    except Exception: pass
    try:
        mod = importlib.import_module(modname)
        ctx = Ctx(pid, tier, seed, worker, nworkers, budget, deadline)
        try:
            mod.worker(ctx)
        finally:
            ctx.close()
        conn.send(('ok', ctx.stats.pack()))
    except BaseException:
        conn.send(('err', traceback.format_exc()))
    finally:
        conn.close()

def build(mod):
    for flavour, names in getattr(mod, 'HARNESS', {'asan': ['xvexec']}).items():
        p = subprocess.run([os.path.join(VERIF, 'bin', 'build.sh'), flavour] + list(names), stdout=subprocess.PIPE, stderr=subprocess.PIPE, text=True)
        if p.returncode != 0:
            sys.stdout.write(p.stderr[-4000:])
            return False
    return True

def load_known():
    try:
        return json.load(open(os.path.join(VERIF, 'known_findings.json')))['findings']
    except Exception:
        return []

def write_evidence(mod, tier, seed, merged, wall, violations, extra_cov=None):
    cov = {
        'evaluations': int(merged['evaluations']),
        'distinct_nontrivial': int(len(merged['nontrivial'])),
        'rule': mod.RULE,
        'samples': merged['samples'][:8] or ['(no sample recorded)'],
        'labels': dict(sorted(merged['labels'].items(), key=lambda kv: -kv[1])[:80]),
        'excluded_known': merged['excluded_known'],
        'oracle_disagreements': merged['oracle_disagreements'],
        'inconclusive': merged['inconclusive'],
        'truncated': merged['truncated'],
        'workers': merged.get('workers', 0),
    }
    cov.update(merged.get('extra', {}))
    if extra_cov: cov.update(extra_cov)
    # keys with a fixed type in EVIDENCE.schema.json must keep that type; anything else from a module is renamed rather than dropped
    for key, typ in (('exhaustive', bool), ('states', int), ('transitions', int), ('obligations', int), ('discharged', int), ('programs', int),
                     ('explanation', str), ('checker_cmd', str), ('rule', str)):
        if key in cov and not isinstance(cov[key], typ): cov[key + '_detail'] = cov.pop(key)
    if isinstance(cov.get('distinct_nontrivial'), bool) or not isinstance(cov.get('distinct_nontrivial'), int): cov['distinct_nontrivial'] = int(len(merged['nontrivial']))
    ev = {'property_id': mod.ID, 'tier': tier, 'seed': seed, 'level': getattr(mod, 'LEVEL', 'exploration'),
          'coverage': cov, 'assumptions': getattr(mod, 'ASSUMPTIONS', []), 'wall_s': round(wall, 2), 'violations': violations}
    evdir = os.environ.get('VERIF_EVIDENCE_DIR') or os.path.join(VERIF, 'evidence')
    os.makedirs(evdir, exist_ok=True)
    path = os.path.join(evdir, mod.ID + '.json')
    tmp = path + '.tmp'
    with open(tmp, 'w') as f:
        json.dump(ev, f, indent=1, default=repr)
    os.replace(tmp, path)

def confirm(mod, case, n=3):
    """Replay a candidate failure n times in fresh executors.  -> (fails_all, detail)"""
    details = []
    for i in range(n):
        ctx = Ctx(mod.ID, 'replay', 0, 0, 1, 0, time.time() + 600)
        try:
            ok, detail = mod.replay(case, ctx)
        except Exception:
            ok, detail = True, 'replay raised: ' + traceback.format_exc()[-800:]   # machinery error: do not report
        finally:
            ctx.close()
        if ok: return False, detail
        details.append(detail)
    return True, details[-1]

def save_finding(pid, case, detail):
    d = os.path.join(os.environ.get('VERIF_FINDINGS_DIR') or os.path.join(VERIF, 'findings'), pid)
    os.makedirs(d, exist_ok=True)
    path = os.path.join(d, '%s.json' % xv.sha(case))
    with open(path, 'w') as f:
        json.dump({'property': pid, 'case': case, 'detail': detail}, f, indent=1, default=repr)
    return path

def run_check(pid, tier, replay_path=None):
    t0 = time.time()
    seed = int(os.environ.get('VERIF_SEED', '1') or '1')
    modname = 'props.' + pid
    mod = importlib.import_module(modname)
    if not build(mod):
        print('BUILD-FAILED property=%s (the tree does not compile; no verdict)' % pid)
        return 2
    if replay_path:
        obj = json.load(open(replay_path))
        case = obj.get('case', obj)
        ctx = Ctx(pid, 'replay', seed, 0, 1, 0, time.time() + 600)
        try:
            ok, detail = mod.replay(case, ctx)
        finally:
            ctx.close()
        print(detail)
        if ok:
            print('REPLAY-PASS property=%s' % pid); return 0
        print('VIOLATION property=%s replay=%s' % (pid, replay_path)); return 1

    known = [k for k in load_known() if k['property'] == pid]
    lines = []; violations = 0
    # 1. regression cases (shrunk failures of the past, incl. witnesses of fixed findings)
    nreg = 0
    reg_fail = []
    for path in sorted(glob.glob(os.path.join(VERIF, 'regress', pid, '*.json'))):
        obj = json.load(open(path)); case = obj.get('case', obj); nreg += 1
        fails, detail = confirm(mod, case, 1)
        if fails:
            fails, detail = confirm(mod, case, 2)
        if fails:
            reg_fail.append((path, case, detail))
    # 2. fresh generation
    budget = mod.BUDGET[tier]
    cap = getattr(mod, 'WALLCAP', {'quick': 600, 'thorough': 5400})[tier]
    deadline = time.time() + cap
    nw = min(NWORKERS, getattr(mod, 'MAXWORKERS', NWORKERS))
    procs = []
    for w in range(nw):
        pc, cc = multiprocessing.Pipe(False)
        p = multiprocessing.Process(target=_worker_main, args=(modname, pid, tier, seed, w, nw, budget, deadline, cc))
        p.start(); cc.close(); procs.append((p, pc))
    merged = dict(evaluations=0, nontrivial=set(), labels=collections.Counter(), samples=[], failures=[],
                  excluded_known=collections.Counter(), inconclusive=0, oracle_disagreements=0, extra={}, truncated=False, workers=nw)
    machinery_errors = []
    for p, pc in procs:
        try:
            if pc.poll(cap + 900):
                kind, payload = pc.recv()
            else:
                kind, payload = 'err', 'worker timed out'
                p.kill()
        except EOFError:
            kind, payload = 'err', 'worker died without result'
        p.join(30)
        if kind == 'err':
            machinery_errors.append(payload); continue
        merged['evaluations'] += payload['evaluations']
        merged['nontrivial'].update(payload['nontrivial'])
        merged['labels'].update(payload['labels'])
        if len(merged['samples']) < 10: merged['samples'].extend(payload['samples'][-2:])
        merged['failures'].extend(payload['failures'])
        merged['excluded_known'].update(payload['excluded_known'])
        merged['inconclusive'] += payload['inconclusive']
        merged['oracle_disagreements'] += payload['oracle_disagreements']
        merged['truncated'] = merged['truncated'] or payload['truncated']
        for k, v in payload['extra'].items():
            if isinstance(v, (int, float)) and not isinstance(v, bool):
                merged['extra'][k] = merged['extra'].get(k, 0) + v
            elif isinstance(v, list):
                merged['extra'].setdefault(k, []); merged['extra'][k] = (merged['extra'][k] + v)[:20]
            elif isinstance(v, dict):
                d = merged['extra'].setdefault(k, {})
                for kk, vv in v.items():
                    d[kk] = d.get(kk, 0) + vv if isinstance(vv, (int, float)) else vv
            else:
                merged['extra'][k] = v
    merged['excluded_known'] = dict(merged['excluded_known'])
    merged['extra']['regress_cases_replayed'] = nreg
    # 3. confirm candidates
    seen_sig = set()
    confirmed = []
    for path, case, detail in reg_fail:
        confirmed.append((case, detail, path))
    bucket = getattr(mod, 'bucket', None)       # optional: several failing inputs of one root cause -> one replay file
    for f in merged['failures'][:40]:
        sig = xv.sha(f['case'])
        if sig in seen_sig: continue
        seen_sig.add(sig)
        if bucket:
            b = bucket(f['case'], f['detail'])
            if b in seen_sig: merged['extra']['duplicate_buckets'] = merged['extra'].get('duplicate_buckets', 0) + 1; continue
            seen_sig.add(b)
        if len(confirmed) >= 8: break                 # enough replay files for one run
        fails, detail = confirm(mod, f['case'], 3)
        if fails:
            confirmed.append((f['case'], detail, None))
        else:
            merged['inconclusive'] += 1
            merged['extra'].setdefault('unconfirmed', []).append(f['detail'][:300])
    classify = getattr(mod, 'classify', lambda case, detail: None)
    known_ids = {k['id']: k for k in known if k['status'] == 'known'}
    printed_known = set()
    for case, detail, path in confirmed:
        kid = classify(case, detail)
        if kid in known_ids:
            printed_known.add(kid); continue
        if path is None: path = save_finding(pid, case, detail)
        violations += 1
        lines.append('VIOLATION property=%s replay=%s' % (pid, path))
        sys.stderr.write('--- %s\n%s\n' % (path, detail[:3000]))
    # 4. witnesses of known findings: still failing?  then say so (exit stays 0)
    for kid, case in getattr(mod, 'known_witnesses', lambda: [])():
        if kid not in known_ids: continue
        fails, detail = confirm(mod, case, 1)
        if fails: printed_known.add(kid)
    for kid in sorted(printed_known):
        lines.append('KNOWN-FINDING: property=%s %s' % (pid, known_ids[kid]['what']))
    if machinery_errors:
        sys.stderr.write('MACHINERY-ERROR in %d worker(s):\n%s\n' % (len(machinery_errors), machinery_errors[0][-3000:]))
        merged['extra']['machinery_errors'] = len(machinery_errors)
    write_evidence(mod, tier, seed, merged, time.time() - t0, violations)
    for l in lines: print(l)
    print('%s tier=%s seed=%d evaluations=%d distinct_nontrivial=%d violations=%d known=%d inconclusive=%d wall=%.0fs%s' % (
        pid, tier, seed, merged['evaluations'], len(merged['nontrivial']), violations, len(printed_known), merged['inconclusive'],
        time.time() - t0, ' TRUNCATED' if merged['truncated'] else ''))
    if violations: return 1
    if machinery_errors and merged['evaluations'] == 0: return 3
    return 0
