"""wfmut.py -- single-constraint well-formedness mutators for M1 renderings (C02).

mutate(text, d, op, k) -> mutated text or None (no site).  `text` is the str rendering (before encoding) of a Doc `d`
that is well-formed by construction; `op` names the operator; `k` selects the site (any int, taken modulo #sites).
Byte-level operators work on the encoded document: mutate_bytes(data, text, op, k).

Every operator breaks exactly one well-formedness (or namespace) constraint that every edition of XML 1.0 / Namespaces 1.0
rejects; pyexpat is run as second witness by the caller, and cases on which it does not reject are dropped.
"""
import re

# ------------------------------------------------------------------------------------------------
# tokeniser for our own renderings (they are well-formed, so a simple scanner is exact)
# ------------------------------------------------------------------------------------------------
def tokenize(text):
    """-> list of (kind, start, end); kinds: xmldecl pi comment cdata doctype stag etag empty text"""
    toks = []; i = 0; n = len(text)
    while i < n:
        if text.startswith('<?xml', i) and i == 0 and (n > 5 and text[5] in ' \t\r\n'):
            j = text.index('?>', i) + 2; toks.append(('xmldecl', i, j)); i = j
        elif text.startswith('<?', i):
            j = text.index('?>', i) + 2; toks.append(('pi', i, j)); i = j
        elif text.startswith('<!--', i):
            j = text.index('-->', i + 4) + 3; toks.append(('comment', i, j)); i = j
        elif text.startswith('<![CDATA[', i):
            j = text.index(']]>', i) + 3; toks.append(('cdata', i, j)); i = j
        elif text.startswith('<!DOCTYPE', i):
            j = i + 9; depth = 0; q = None
            while j < n:
                c = text[j]
                if q:
                    if c == q: q = None
                elif c in '"\'': q = c
                elif text.startswith('<!--', j):
                    j = text.index('-->', j + 4) + 2
                elif c == '[': depth += 1
                elif c == ']': depth -= 1
                elif c == '>' and depth == 0: break
                j += 1
            toks.append(('doctype', i, j + 1)); i = j + 1
        elif text.startswith('</', i):
            j = text.index('>', i) + 1; toks.append(('etag', i, j)); i = j
        elif text[i] == '<':
            j = i + 1; q = None
            while j < n:
                c = text[j]
                if q:
                    if c == q: q = None
                elif c in '"\'': q = c
                elif c == '>': break
                j += 1
            kind = 'empty' if text[j - 1] == '/' else 'stag'
            toks.append((kind, i, j + 1)); i = j + 1
        else:
            j = text.find('<', i)
            if j < 0: j = n
            toks.append(('text', i, j)); i = j
    return toks

ATTR_RE = re.compile(r'''([^\s=<>/"']+)(\s*=\s*)("[^"]*"|'[^']*')''')

def _root_span(toks):
    """(index of root start token, index of root end token)"""
    depth = 0; first = None
    for idx, (k, s, e) in enumerate(toks):
        if k == 'stag':
            if depth == 0 and first is None: first = idx
            depth += 1
        elif k == 'empty':
            if depth == 0 and first is None: return idx, idx
        elif k == 'etag':
            depth -= 1
            if depth == 0: return first, idx
    return first, None

def _pick(sites, k):
    if not sites: return None
    return sites[k % len(sites)]

def _content_text_sites(text, toks):
    """offsets inside element content (between root start and root end) where character data may be inserted"""
    r0, r1 = _root_span(toks)
    if r0 is None or r1 is None or r0 == r1: return []
    sites = []
    for idx in range(r0, r1):
        k, s, e = toks[idx]
        sites.append(e)           # directly after any token inside the root: we are in content there
    return sites

def _attr_sites(text, toks):
    out = []
    for k, s, e in toks:
        if k in ('stag', 'empty'):
            tag = text[s:e]
            m0 = re.match(r'<[^\s/>]+', tag)
            for m in ATTR_RE.finditer(tag, m0.end()):
                out.append((s + m.start(), s + m.end(), s + m.start(1), s + m.end(1), s + m.start(3), s + m.end(3)))
    return out

# ------------------------------------------------------------------------------------------------
OPS_ANY = ['etag-mismatch', 'drop-etag', 'drop-stag', 'two-roots', 'text-after-root', 'text-before-root', 'cdata-after-root', 'no-root',
           'dup-attr', 'missing-eq', 'missing-quote', 'no-ws-attrs', 'lt-in-attr', 'bare-amp-text', 'bare-amp-attr', 'unterminated-ref',
           'cdata-end-in-text', 'dashdash-in-comment', 'comment-dash-end', 'unterminated-comment', 'unterminated-pi', 'unterminated-cdata',
           'pi-target-xml', 'pi-target-XmL', 'xmldecl-not-first', 'xmldecl-no-version', 'xmldecl-bad-version', 'xmldecl-order', 'xmldecl-standalone-maybe',
           'charref-0', 'charref-fffe', 'charref-d800', 'charref-110000', 'charref-1', 'charref-empty', 'raw-control', 'control-after-root', 'control-before-root', 'control-in-dtd', 'raw-ffff',
           'bad-name-start', 'space-after-lt', 'attr-no-value', 'truncate', 'undeclared-entity',
           'recursive-entity', 'recursive-entity-indirect', 'ext-entity-in-attr', 'unparsed-entity-in-content', 'entity-unbalanced', 'lt-via-entity-in-attr',
           'pe-in-decl-internal', 'etag-with-attr', 'nested-doctype', 'doctype-after-root', 'amp-in-entity-value', 'attr-unquoted', 'dup-attr-many']
OPS_NS = ['ns-unbound-elem', 'ns-unbound-attr', 'ns-xml-rebind', 'ns-xmlns-prefix', 'ns-empty-prefix-decl', 'ns-two-colons', 'ns-leading-colon',
          'ns-trailing-colon', 'ns-dup-expanded-attr', 'ns-bind-to-xmlns-uri', 'ns-bind-other-to-xml-uri', 'ns-default-xmlns-uri', 'ns-pi-target-colon',
          'ns-sibling-scope', 'ns-cousin-scope', 'ns-sibling-scope-attr', 'ns-child-scope-after-end', 'ns-dup-expanded-attr-many']
OPS_BYTES = ['utf8-c0-80', 'utf8-surrogate', 'utf8-f4-90', 'utf8-lone-cont', 'utf8-5byte', 'utf8-trunc-mid', 'utf8-trunc-eof', 'utf8-fe', 'utf8-overlong-e0']
# operators that remain single-constraint violations under XML 1.1 as well (1.1 has no second witness, keep to clear-cut ones)
OPS_V11 = {'etag-mismatch', 'drop-etag', 'two-roots', 'text-after-root', 'cdata-after-root', 'dup-attr', 'missing-eq', 'no-ws-attrs', 'lt-in-attr',
           'bare-amp-text', 'cdata-end-in-text', 'dashdash-in-comment', 'charref-0', 'charref-fffe', 'charref-d800', 'charref-110000', 'raw-control', 'control-after-root', 'control-before-root', 'control-in-dtd',
           'truncate', 'attr-no-value', 'bad-name-start', 'pi-target-xml', 'ns-unbound-elem', 'ns-two-colons', 'utf8-c0-80', 'utf8-surrogate',
           'utf8-f4-90', 'utf8-lone-cont', 'no-root', 'etag-with-attr', 'attr-unquoted', 'ns-sibling-scope', 'ns-cousin-scope', 'ns-child-scope-after-end', 'dup-attr-many', 'ns-dup-expanded-attr-many'}

def _add_decls(text, toks, d, decls, rootname=None):
    """insert markup declarations into the internal subset (creating a DOCTYPE if there is none)"""
    for k, s, e in toks:
        if k == 'doctype':
            dt = text[s:e]
            # find the '[' of the internal subset outside literals
            j = 9; q = None; br = -1
            while j < len(dt):
                c = dt[j]
                if q:
                    if c == q: q = None
                elif c in '"\'': q = c
                elif c == '[': br = j; break
                j += 1
            if br >= 0:
                return text[:s + br + 1] + decls + text[s + br + 1:]
            return text[:e - 1] + ' [' + decls + ']' + text[e - 1:]
    r0, r1 = _root_span(toks)
    if r0 is None: return None
    s = toks[r0][1]
    m = re.match(r'<([^\s/>]+)', text[s:])
    return text[:s] + '<!DOCTYPE %s [%s]>' % (m.group(1), decls) + text[s:]

def mutate(text, d, op, k):
    toks = tokenize(text)
    r0, r1 = _root_span(toks)
    if r0 is None: return None
    root_s = toks[r0][1]; root_e = toks[r1][2] if r1 is not None else toks[r0][2]
    ins = lambda pos, s: text[:pos] + s + text[pos:]
    def content_insert(s):
        pos = _pick(_content_text_sites(text, toks), k)
        if pos is None: return None
        return ins(pos, s)
    def attr_insert(s, at_start=False):
        a = _pick(_attr_sites(text, toks), k)
        if a is None: return None
        return ins(a[4] + 1, s)
    if op == 'etag-mismatch':
        t = _pick([t for t in toks if t[0] == 'etag'], k)
        if not t: return None
        m = re.match(r'</([^\s>]+)', text[t[1]:t[2]])
        return text[:t[1]] + '</' + m.group(1) + 'X' + text[t[1] + 2 + len(m.group(1)):]
    if op == 'drop-etag':
        t = _pick([t for t in toks if t[0] == 'etag'], k)
        if not t: return None
        return text[:t[1]] + text[t[2]:]
    if op == 'drop-stag':
        t = _pick([t for t in toks if t[0] == 'stag'], k)
        if not t: return None
        return text[:t[1]] + text[t[2]:]
    if op == 'two-roots': return ins(root_e, '<r2/>')
    if op == 'text-after-root': return ins(root_e, 'x')
    if op == 'text-before-root': return ins(root_s, 'x')
    if op == 'control-after-root': return ins(root_e, ['\x00', '\n\x00', '\x00 junk <', '<!--c-->\x00', '\x01', '\n \x0b', '\x00<b/>', '\x1f'][k % 8])     # U+0000 must not read as end of input
    if op == 'control-in-dtd':      # U+0000 between declarations, directly or through a parameter entity: must not read as the end of the subset
        return _add_decls(text, toks, d, ['\x00', '<!-- c -->\x00<!-- d -->', '<!ENTITY %% zq "<!-- q -->%s<!-- r -->">%%zq;' % '\x00', '\x01'][k % 4])
    if op == 'control-before-root': return ins(root_s, ['\x00', '\x01', '\x0c'][k % 3])
    if op == 'cdata-after-root': return ins(root_e, '<![CDATA[x]]>')
    if op == 'no-root': return text[:root_s] + text[root_e:]
    if op == 'doctype-after-root': return ins(root_e, '<!DOCTYPE a>')
    if op == 'nested-doctype': return content_insert('<!DOCTYPE a>')
    if op in ('dup-attr', 'missing-eq', 'missing-quote', 'no-ws-attrs', 'attr-no-value', 'attr-unquoted'):
        sites = _attr_sites(text, toks)
        a = _pick(sites, k)
        if a is None:
            if op in ('attr-no-value', 'attr-unquoted'):
                t = toks[r0]; m = re.match(r'<[^\s/>]+', text[t[1]:t[2]])
                return ins(t[1] + m.end(), ' zz' if op == 'attr-no-value' else ' zz=1')
            return None
        s, e, ns_, ne, vs, ve = a
        if op == 'dup-attr': return ins(e, ' ' + text[ns_:ne] + '="d"')
        if op == 'missing-eq': return text[:ne] + ' ' + text[vs:]
        if op == 'missing-quote': return text[:ve - 1] + text[ve:]
        if op == 'no-ws-attrs': return ins(e, 'zz="1"')
        if op == 'attr-no-value': return text[:ne] + text[ve:]
        if op == 'attr-unquoted': return text[:vs] + 'v1' + text[ve:]
    if op == 'lt-in-attr': return attr_insert('<')
    if op == 'bare-amp-attr': return attr_insert('& ')
    if op == 'bare-amp-text': return content_insert('& ')
    if op == 'unterminated-ref': return content_insert('&amp ')
    if op == 'cdata-end-in-text': return content_insert(']]>')
    if op == 'dashdash-in-comment':
        t = _pick([t for t in toks if t[0] == 'comment'], k)
        if not t: return content_insert('<!-- a--b -->')
        return ins(t[1] + 4, 'a--b')
    if op == 'comment-dash-end':
        t = _pick([t for t in toks if t[0] == 'comment'], k)
        if not t: return content_insert('<!-- a --->')
        return ins(t[2] - 3, 'a-')
    if op == 'unterminated-comment': return content_insert('<!-- never closed ')
    if op == 'unterminated-pi': return content_insert('<?pi never closed ')
    if op == 'unterminated-cdata': return content_insert('<![CDATA[ never closed ')
    if op == 'pi-target-xml': return content_insert('<?xml version="1.0"?>')
    if op == 'pi-target-XmL': return content_insert('<?XmL data?>')
    if op == 'xmldecl-not-first':
        if toks[0][0] != 'xmldecl': return None
        return [' ', '\n', '<!--c-->'][k % 3] + text
    if op.startswith('xmldecl-'):
        if toks[0][0] != 'xmldecl': return None
        decl = text[toks[0][1]:toks[0][2]]
        m = re.match(r'''<\?xml(\s+)version(\s*=\s*)(["'])([0-9.]+)\3''', decl)
        if not m: return None
        if op == 'xmldecl-no-version':
            nd = '<?xml' + decl[m.end():]
            if nd.strip() == '<?xml?>': nd = '<?xml ?>'
        elif op == 'xmldecl-bad-version':
            nd = decl[:m.start(4)] + ['2.0', '1', '1.', 'abc', ''][k % 5] + decl[m.end(4):]
        elif op == 'xmldecl-order':
            m2 = re.search(r'''(\s+)(encoding\s*=\s*(["'])[^"']*\3)''', decl)
            if not m2: return None
            nd = '<?xml' + m2.group(1) + m2.group(2) + decl[5:m2.start()] + decl[m2.end():]
        elif op == 'xmldecl-standalone-maybe':
            m2 = re.search(r'''standalone\s*=\s*(["'])(yes|no)\1''', decl)
            if m2: nd = decl[:m2.start(2)] + 'maybe' + decl[m2.end(2):]
            else: nd = decl[:-2] + ' standalone="maybe"?>'
        else: return None
        return nd + text[toks[0][2]:]
    if op == 'charref-0': return content_insert('&#0;')
    if op == 'charref-fffe': return content_insert(['&#xFFFE;', '&#xFFFF;', '&#65535;'][k % 3])
    if op == 'charref-d800': return content_insert(['&#xD800;', '&#xDFFF;', '&#55296;'][k % 3])
    if op == 'charref-110000': return content_insert(['&#x110000;', '&#1114112;', '&#x7FFFFFFF;', '&#x100000000;'][k % 4])
    if op == 'charref-1': return content_insert(['&#1;', '&#x8;', '&#xB;', '&#x1F;'][k % 4])       # XML 1.0 only
    if op == 'charref-empty': return content_insert(['&#;', '&#x;', '&#xG;', '&#1a;', '&# 1;'][k % 5])
    if op == 'raw-control': return content_insert(['\x01', '\x08', '\x0b', '\x0c', '\x1f', '\x00'][k % 6])
    if op == 'raw-ffff': return content_insert(['\uffff', '\ufffe'][k % 2])
    if op == 'bad-name-start': return content_insert(['<1a/>', '<-a/>', '<.a/>', '<·a/>'][k % 4])
    if op == 'space-after-lt': return content_insert('< a/>')
    if op == 'etag-with-attr':
        t = _pick([t for t in toks if t[0] == 'etag'], k)
        if not t: return None
        return text[:t[2] - 1] + ' a="1">' + text[t[2]:]
    if op == 'truncate':
        if r1 is None or r0 == r1: return None
        lo = toks[r0][2]; hi = toks[r1][2] - 1
        return text[:lo + (k % max(1, hi - lo))]
    if op == 'undeclared-entity':
        if d.doctype and d.doctype.get('sysid'): return None      # then "Entity Declared" is a validity constraint only
        return content_insert('&nosuch;')
    if op == 'recursive-entity':
        t2 = _add_decls(text, toks, d, '<!ENTITY rr1 "a&rr1;b">')
        return _reinsert(t2, '&rr1;', k)
    if op == 'recursive-entity-indirect':
        t2 = _add_decls(text, toks, d, '<!ENTITY rr1 "a&rr2;"><!ENTITY rr2 "<q>&rr3;</q>"><!ENTITY rr3 "&rr1;">')
        return _reinsert(t2, '&rr1;', k)
    if op == 'ext-entity-in-attr':
        t2 = _add_decls(text, toks, d, '<!ENTITY xatt SYSTEM "xatt.ent">')
        return _reinsert_attr(t2, '&xatt;', k)
    if op == 'unparsed-entity-in-content':
        t2 = _add_decls(text, toks, d, '<!NOTATION nn SYSTEM "nn"><!ENTITY upe SYSTEM "u.bin" NDATA nn>')
        return _reinsert(t2, '&upe;', k)
    if op == 'entity-unbalanced':
        t2 = _add_decls(text, toks, d, ['<!ENTITY ub "<q>">', '<!ENTITY ub "</q>">', '<!ENTITY ub "<q a=\'1>">', '<!ENTITY ub "x<!--">'][k % 4])
        return _reinsert(t2, '&ub;', k)
    if op == 'lt-via-entity-in-attr':
        t2 = _add_decls(text, toks, d, '<!ENTITY ltt "&#60;">')
        return _reinsert_attr(t2, '&ltt;', k)
    if op == 'pe-in-decl-internal':
        return _add_decls(text, toks, d, '<!ENTITY % ppe "v"><!ENTITY pq "%ppe;">')
    if op == 'amp-in-entity-value':
        return _add_decls(text, toks, d, ['<!ENTITY bad "a & b">', '<!ENTITY bad "a &#; b">', '<!ENTITY bad "a % b">'][k % 3])
    # ---- namespace constraint violations (only meaningful with namespace processing on) ----
    if op == 'ns-unbound-elem': return content_insert('<zzp:a/>')
    if op == 'ns-unbound-attr':
        t = toks[r0]; m = re.match(r'<[^\s/>]+', text[t[1]:t[2]])
        return ins(t[1] + m.end(), ' zzp:a="1"')
    if op in ('ns-xml-rebind', 'ns-xmlns-prefix', 'ns-empty-prefix-decl', 'ns-bind-to-xmlns-uri', 'ns-dup-expanded-attr', 'ns-bind-other-to-xml-uri', 'ns-default-xmlns-uri'):
        t = toks[r0]; m = re.match(r'<[^\s/>]+', text[t[1]:t[2]])
        add = {'ns-xml-rebind': ' xmlns:xml="urn:not-xml"', 'ns-xmlns-prefix': ' xmlns:xmlns="urn:x"',
               'ns-empty-prefix-decl': ' xmlns:zzq=""', 'ns-bind-to-xmlns-uri': ' xmlns:zzq="http://www.w3.org/2000/xmlns/"',
               'ns-dup-expanded-attr': ' xmlns:zz1="urn:zz" xmlns:zz2="urn:zz" zz1:a="1" zz2:a="2"',
               'ns-bind-other-to-xml-uri': ' xmlns:zzq="http://www.w3.org/XML/1998/namespace"',
               'ns-default-xmlns-uri': ' xmlns="http://www.w3.org/2000/xmlns/"'}[op]
        return ins(t[1] + m.end(), add)
    # a prefix that IS declared, but on a sibling / cousin / child: out of scope where it is used (scope stacks are recycled per depth)
    if op == 'ns-sibling-scope': return content_insert('<zzd xmlns:zzs="urn:zzs"/><zzs:u/>')
    if op == 'ns-cousin-scope': return content_insert('<zzd><zze xmlns:zzs="urn:zzs">t</zze></zzd><zzd><zzs:u/></zzd>')
    if op == 'ns-sibling-scope-attr': return content_insert('<zzd xmlns:zzs="urn:zzs" zzs:a="1"></zzd><zzd zzs:a="1"/>')
    if op == 'ns-child-scope-after-end': return content_insert('<zzd><zze xmlns:zzs="urn:zzs"/><zzs:u/></zzd>')
    # duplicate detection switches to a hash table above 100 attributes: same violations with 101..140 attributes on the element
    if op == 'ns-dup-expanded-attr-many':
        n = 97 + (k % 40); pos = k % 3
        fill = ''.join(' f%d="%d"' % (i, i) for i in range(n))
        clash = ' zz1:a="1" zz2:a="2"'
        body = (clash + fill) if pos == 0 else (fill[:len(fill) // 2] + clash + fill[len(fill) // 2:]) if pos == 1 else (' zz1:a="1"' + fill + ' zz2:a="2"')
        return content_insert('<zzm xmlns:zz1="urn:zz" xmlns:zz2="urn:zz"' + body + '/>')
    if op == 'dup-attr-many':
        n = 99 + (k % 40); pos = k % 3
        fill = ''.join(' f%d="%d"' % (i, i) for i in range(n))
        body = (' dup="1" dup="2"' + fill) if pos == 0 else (' dup="1"' + fill + ' dup="2"') if pos == 1 else (fill + ' f%d="x"' % (k % n))
        return content_insert('<zzm' + body + '/>')
    if op == 'ns-two-colons': return content_insert('<a:b:c xmlns:a="urn:a"/>')
    if op == 'ns-leading-colon': return content_insert('<:a/>')
    if op == 'ns-trailing-colon': return content_insert('<a: xmlns:a="urn:a"/>')
    if op == 'ns-pi-target-colon': return content_insert('<?a:b data?>')
    raise ValueError(op)

def _reinsert(t2, s, k):
    if t2 is None: return None
    toks = tokenize(t2)
    pos = _pick(_content_text_sites(t2, toks), k)
    if pos is None:
        # root is an empty-element tag: turn it into a pair
        r0, r1 = _root_span(toks)
        t = toks[r0]
        if t[0] != 'empty': return None
        tag = t2[t[1]:t[2]]; m = re.match(r'<([^\s/>]+)', tag)
        return t2[:t[2] - 2] + '>' + s + '</' + m.group(1) + '>' + t2[t[2]:]
    return t2[:pos] + s + t2[pos:]

def _reinsert_attr(t2, s, k):
    if t2 is None: return None
    toks = tokenize(t2)
    r0, r1 = _root_span(toks)
    t = toks[r0]; m = re.match(r'<[^\s/>]+', t2[t[1]:t[2]])
    return t2[:t[1] + m.end()] + ' zzatt="a%sb"' % s + t2[t[1] + m.end():]

BAD = {'utf8-c0-80': b'\xc0\x80', 'utf8-surrogate': b'\xed\xa0\x80', 'utf8-f4-90': b'\xf4\x90\x80\x80', 'utf8-lone-cont': b'\x80',
       'utf8-5byte': b'\xf8\x88\x80\x80\x80', 'utf8-fe': b'\xfe', 'utf8-overlong-e0': b'\xe0\x80\xaf'}
def mutate_bytes(data, text, op, k):
    """data: UTF-8 encoding of text (no BOM).  Insert an illegal byte sequence in element content / truncate a sequence."""
    toks = tokenize(text)
    sites = _content_text_sites(text, toks)
    if op == 'utf8-trunc-eof':
        return data + [b'\xe4\xb8', b'\xc3', b'\xf0\x90\x80', b'\xe4'][k % 4]       # misc after root, then an incomplete sequence at EOF
    pos = _pick(sites, k)
    if pos is None: return None
    bpos = len(text[:pos].encode('utf-8'))
    if op == 'utf8-trunc-mid':
        return data[:bpos] + [b'\xe4\xb8', b'\xc3', b'\xf0\x90\x80'][k % 3] + data[bpos:]
    return data[:bpos] + BAD[op] + data[bpos:]
