"""xmlmodel.py -- M1: XML infoset model, constructive renderer (inverse of XML processing with random
lexical freedom), expected canonical-event list, projections per API level, and the expat witness.

A generated case is a `Doc`:  the *model* (what every conformant processor must report) together with
the *lexical choices* that were drawn for it, so rendering is a pure function of the case.
Everything random comes from Hypothesis strategies (no own RNG).
"""
import re
from hypothesis import strategies as st

XMLNS_URI = 'http://www.w3.org/2000/xmlns/'
XML_URI = 'http://www.w3.org/XML/1998/namespace'

# ------------------------------------------------------------------------------------------------
# model classes (plain, JSON-able through to_json)
# ------------------------------------------------------------------------------------------------
class Tx:          # character data: list of (char, form) tokens
    k = 'T'
    def __init__(self, toks): self.toks = toks
    @property
    def value(self): return ''.join(c for c, f in self.toks)
class CD:
    k = 'CD'
    def __init__(self, toks): self.toks = toks       # (char, form) -- forms are literal or line-end variants
    @property
    def value(self): return ''.join(c for c, f in self.toks)
class Cm:
    k = 'C'
    def __init__(self, toks): self.toks = toks
    @property
    def value(self): return ''.join(c for c, f in self.toks)
class PI:
    k = 'PI'
    def __init__(self, target, toks, sep): self.target = target; self.toks = toks; self.sep = sep
    @property
    def data(self): return ''.join(c for c, f in self.toks)
class ER:
    k = 'ER'
    def __init__(self, name): self.name = name
class At:
    """attribute: qname, toks [(char, form)] (CDATA) or tokenised: words + spacing; written or defaulted"""
    def __init__(self, qname, toks, written=True, atype='CDATA', pads=None, quote='"'):
        self.qname = qname; self.toks = toks; self.written = written; self.atype = atype; self.pads = pads; self.quote = quote
    @property
    def value(self):
        return ''.join(c for c, f in self.toks)
class El:
    k = 'E'
    def __init__(self, qname, attrs, children, lex):
        self.qname = qname; self.attrs = attrs; self.children = children; self.lex = lex   # lex: dict of spacing choices

class EntDecl:
    def __init__(self, name, kind, content=None, attoks=None, sysid=None, pubid=None, ndata=None, where='int'):
        # kind: 'content' (internal, list of nodes), 'attr' (internal, attr-token list), 'ext' (external parsed), 'unparsed'
        self.name = name; self.kind = kind; self.content = content; self.attoks = attoks
        self.sysid = sysid; self.pubid = pubid; self.ndata = ndata; self.where = where
        self.textdecl = None; self.quote = '"'
class AttDecl:
    def __init__(self, elem, attr, atype, mode, dtoks=None, enum=None, where='int', pads=None):
        self.elem = elem; self.attr = attr; self.atype = atype; self.mode = mode; self.dtoks = dtoks; self.enum = enum; self.where = where; self.pads = pads
    @property
    def dvalue(self):
        return None if self.dtoks is None else ''.join(c for c, f in self.dtoks)
class NotDecl:
    def __init__(self, name, pubid, sysid, where='int'):
        self.name = name; self.pubid = pubid; self.sysid = sysid; self.where = where

class Doc:
    def __init__(self):
        self.version = '1.0'; self.xmldecl = None; self.standalone = None
        self.prolog = []; self.epilog = []; self.root = None
        self.doctype = None      # dict(name, pubid, sysid(ext subset or None), decls [EntDecl|AttDecl|NotDecl] in order)
        self.misc_ws = []        # whitespace choices between top-level items
        self.labels = set()

# ------------------------------------------------------------------------------------------------
# alphabets
# ------------------------------------------------------------------------------------------------
NAME_START = ['a', 'b', 'c', 'd', 'e', 'x', 'y', 'Z', '_', '\u00e9', '\u4e2d', '\u03a9']
NAME_REST = ['1', '-', '.', 'k', '\u00b7', '\u00e9', '_', '9', 'q']
LOCALS = ['a', 'b', 'c', 'd', 'e1', 'x-y', '_z', '\u00e9l', '\u4e2d', 'n.m', 'item', 'Z9']
PREFIXES = ['p', 'q', 'r', 'xs']
URIS = ['urn:p', 'urn:q', 'http://x.example/y', 'urn:p']     # 'urn:p' twice: two prefixes, one URI

PLAIN = [(c, c) for c in 'abcdefgxyzXYZ0123456789.,;:!?()[]{}+-*/=_#%@$^~|`']
NONASCII_COMMON = [('\u00e9', '\u00e9'), ('\u00e9', '&#233;'), ('\u00e9', '&#xE9;'), ('\u4e2d', '\u4e2d'), ('\u4e2d', '&#x4E2D;'),
                   ('\ufffd', '\ufffd'), ('\U00010000', '\U00010000'), ('\U00010000', '&#x10000;'), ('\U0010ffff', '&#x10FFFF;'),
                   ('\U0001f600', '\U0001f600'), ('\ud7ff', '\ud7ff'), ('\ue000', '&#xE000;'), ('\u00a0', '\u00a0')]

def content_tokens(version):
    t = list(PLAIN) * 2
    t += [('<', '&lt;'), ('<', '&#60;'), ('<', '&#x3c;'), ('&', '&amp;'), ('&', '&#38;'), ('&', '&#x26;'),
          ('>', '>'), ('>', '&gt;'), ('>', '&#62;'), ('"', '"'), ('"', '&quot;'), ("'", "'"), ("'", '&apos;'), (']', ']'), (']', ']')]
    t += [(' ', ' '), (' ', ' '), (' ', '&#32;'), ('\t', '\t'), ('\t', '&#9;'), ('\n', '\n'), ('\n', '\n'), ('\n', '\r\n'), ('\n', '\r'),
          ('\n', '&#10;'), ('\n', '&#xA;'), ('\r', '&#13;'), ('\r', '&#xD;')]
    t += NONASCII_COMMON
    if version == '1.0':
        t += [('\u0085', '\u0085'), ('\u2028', '\u2028'), ('\u0085', '&#x85;'), ('\x7f', '\x7f'), ('\u0080', '\u0080')]
    else:
        t += [('\n', '\u0085'), ('\n', '\r\u0085'), ('\n', '\u2028'), ('\u0085', '&#x85;'), ('\u2028', '&#x2028;'),
              ('\x01', '&#1;'), ('\x1f', '&#x1F;'), ('\x7f', '&#127;'), ('\u0080', '&#x80;'), ('\u009f', '&#x9F;')]
    return t

def cdata_tokens(version):
    t = list(PLAIN) * 2 + [('<', '<'), ('&', '&'), ('>', '>'), ('"', '"'), ("'", "'"), (']', ']'), (']', ']'),
                           (' ', ' '), ('\t', '\t'), ('\n', '\n'), ('\n', '\r\n'), ('\n', '\r')]
    t += [(c, f) for c, f in NONASCII_COMMON if c == f]
    if version == '1.0':
        t += [('\u0085', '\u0085'), ('\u2028', '\u2028')]
    else:
        t += [('\n', '\u0085'), ('\n', '\r\u0085'), ('\n', '\u2028')]
    return t

def attr_tokens(version):
    t = list(PLAIN) * 2
    t += [(' ', ' '), (' ', ' '), (' ', '\t'), (' ', '\n'), (' ', '\r\n'), (' ', '\r'), ('\t', '&#9;'), ('\n', '&#10;'), ('\r', '&#13;'), (' ', '&#32;'),
          ('\n', '&#xA;'), ('<', '&lt;'), ('<', '&#60;'), ('&', '&amp;'), ('&', '&#38;'), ('>', '>'), ('>', '&gt;'),
          ('"', '&quot;'), ('"', '&#34;'), ("'", '&apos;'), ("'", '&#39;'), ('"', '"'), ("'", "'")]
    t += NONASCII_COMMON
    if version == '1.0':
        t += [('\u0085', '\u0085'), ('\u2028', '\u2028')]
    else:
        t += [(' ', '\u0085'), (' ', '\r\u0085'), (' ', '\u2028'), ('\u0085', '&#x85;'), ('\x01', '&#1;')]
    return t

def misc_tokens(version):
    """comment / PI data: literal characters only"""
    t = list(PLAIN) * 2 + [('<', '<'), ('&', '&'), ('>', '>'), ('"', '"'), ("'", "'"), (' ', ' '), (' ', ' '), ('\t', '\t'),
                           ('\n', '\n'), ('\n', '\r\n'), ('\n', '\r'), ('\u00e9', '\u00e9'), ('\u4e2d', '\u4e2d'), ('\U00010000', '\U00010000')]
    if version == '1.1':
        t += [('\n', '\u0085'), ('\n', '\u2028')]
    return t

WS_FORMS = [' ', ' ', '  ', '\t', '\n', '\r\n', ' \n ']
def ws_strategy(min_size=0):
    return st.sampled_from(([''] if min_size == 0 else []) + WS_FORMS)

# ------------------------------------------------------------------------------------------------
# generation
# ------------------------------------------------------------------------------------------------
class GenCfg:
    def __init__(self, **kw):
        self.max_depth = 4; self.max_children = 5; self.max_text = 12
        self.doctype = True; self.entities = True; self.ext_subset = True; self.ext_entities = True
        self.attdecls = True; self.ns = True; self.v11 = True; self.notations = True
        self.big = False           # threshold-crossing sizes
        self.__dict__.update(kw)

def names(draw):
    return draw(st.sampled_from(LOCALS))

@st.composite
def name_strategy(draw):
    if draw(st.integers(0, 3)) > 0:
        return draw(st.sampled_from(LOCALS))
    s = draw(st.sampled_from(NAME_START)) + ''.join(draw(st.lists(st.sampled_from(NAME_REST + NAME_START), max_size=5)))
    if s.lower().startswith('xml'): s = 'y' + s
    return s

def tok_list(tokens, max_size, min_size=0):
    return st.lists(st.sampled_from(tokens), min_size=min_size, max_size=max_size)

@st.composite
def gen_doc(draw, cfg=None):
    cfg = cfg or GenCfg()
    d = Doc()
    d.version = '1.1' if (cfg.v11 and draw(st.integers(0, 5)) == 0) else '1.0'
    v = d.version
    ctoks = content_tokens(v); atoks = attr_tokens(v); mtoks = misc_tokens(v); cdtoks = cdata_tokens(v)
    # xml declaration
    if v == '1.1' or draw(st.booleans()):
        d.xmldecl = dict(q1=draw(st.sampled_from('"\'')), q2=draw(st.sampled_from('"\'')), ws1=draw(ws_strategy(1)), ws2=draw(ws_strategy()),
                         enc=draw(st.booleans()), ws3=draw(ws_strategy(1)), eq=draw(st.sampled_from(['=', ' =', '= ', ' = '])))
        d.standalone = draw(st.sampled_from([None, None, 'no', 'yes']))
    use_ns = cfg.ns and draw(st.integers(0, 3)) > 0
    d.use_ns = use_ns
    # ---- DTD ----
    ents_content = []   # EntDecl usable in content
    ents_attr = []      # EntDecl usable in attribute values
    attdecls = {}       # elem qname -> list of AttDecl
    decls = []
    has_dt = cfg.doctype and draw(st.integers(0, 2)) > 0
    ext_subset = has_dt and cfg.ext_subset and d.standalone != 'yes' and draw(st.integers(0, 3)) == 0
    def where():
        return 'ext' if (ext_subset and draw(st.booleans())) else 'int'
    if has_dt:
        if cfg.entities:
            n_attr_ents = draw(st.integers(0, 2))
            for i in range(n_attr_ents):
                e = EntDecl('ae%d' % i, 'attr', attoks=draw(gen_attr_toks(atoks, ents_attr[:], 6)), where=where())
                e.quote = draw(st.sampled_from('"\''))
                ents_attr.append(e); decls.append(e)
        if cfg.notations and draw(st.integers(0, 4)) == 0:
            decls.append(NotDecl('nt', draw(st.sampled_from([None, 'pub id'])), draw(st.sampled_from(['nt.exe', None])), where()))
            if decls[-1].pubid is None and decls[-1].sysid is None: decls[-1].sysid = 'n'
            decls.append(EntDecl('ue', 'unparsed', sysid='ue.bin', ndata='nt', where=decls[-1].where))
        if cfg.attdecls:
            for i in range(draw(st.integers(0, 3))):
                en = draw(st.sampled_from(LOCALS[:5])); an = draw(st.sampled_from(['da', 'db', 'dc']))
                if any(a.attr == an for a in attdecls.get(en, [])): continue
                atype = draw(st.sampled_from(['CDATA', 'CDATA', 'NMTOKEN', 'NMTOKENS', 'ENUM', 'ID', 'IDREFS']))
                mode = draw(st.sampled_from(['#IMPLIED', 'DEFAULT', 'DEFAULT', '#FIXED'])) if atype not in ('ID',) else '#IMPLIED'
                ad = AttDecl(en, an, atype, mode, where=where())
                if atype == 'ENUM': ad.enum = ['u', 'v-w', 'x1']
                if mode in ('DEFAULT', '#FIXED'):
                    if atype == 'CDATA':
                        ad.dtoks = draw(gen_attr_toks(atoks, ents_attr[:], 6))
                    elif atype == 'ENUM':
                        w = draw(st.sampled_from(ad.enum)); ad.dtoks = [(w, w)]
                    else:
                        ad.dtoks, ad.pads = draw(gen_tokenised(atype))
                ad.quote = draw(st.sampled_from('"\''))
                attdecls.setdefault(en, []).append(ad); decls.append(ad)
    # ---- tree ----
    state = dict(ids=0)
    def gen_children(depth, in_entity, allow_er):
        out = []
        n = draw(st.integers(0, cfg.max_children if depth < cfg.max_depth else 1))
        for i in range(n):
            kind = draw(st.sampled_from(['T', 'T', 'T', 'E', 'E', 'E', 'CD', 'C', 'PI', 'ER']))
            if kind == 'T':
                toks = draw(tok_list(ctoks, cfg.max_text, 1))
                out.append(Tx(toks))
            elif kind == 'E' and depth < cfg.max_depth:
                out.append(gen_el(depth + 1, in_entity, allow_er))
            elif kind == 'CD':
                toks = draw(tok_list(cdtoks, 8, 1))
                out.append(CD(toks))
            elif kind == 'C':
                out.append(Cm(draw(tok_list(mtoks, 8))))
            elif kind == 'PI':
                out.append(gen_pi())
            elif kind == 'ER' and allow_er:
                out.append(ER(draw(st.sampled_from(allow_er)).name))
        return out
    def gen_pi():
        t = draw(name_strategy())
        toks = draw(tok_list(mtoks, 8))
        while toks and toks[0][0] in ' \t\n': toks = toks[1:]
        return PI(t, toks, draw(ws_strategy(1)) if toks else draw(ws_strategy()))
    def gen_el(depth, in_entity, allow_er):
        local = draw(name_strategy())
        attrs = []
        qn = local
        if use_ns and not in_entity:
            # namespace declarations on this element
            for pfx in draw(st.lists(st.sampled_from(PREFIXES + ['']), max_size=3, unique=True)):
                if pfx == '':
                    uri = draw(st.sampled_from(URIS + ['']))
                    attrs.append(At('xmlns', [(c, c) for c in uri], quote=draw(st.sampled_from('"\''))))
                else:
                    uri = draw(st.sampled_from(URIS + ([''] if v == '1.1' else [])))
                    attrs.append(At('xmlns:' + pfx, [(c, c) for c in uri], quote=draw(st.sampled_from('"\''))))
            qn = (draw(st.sampled_from(PREFIXES + ['', '', 'xml'])) or None, local)   # prefix resolved/validated in fixup
        na = draw(st.integers(0, 3))
        for i in range(na):
            an = draw(st.sampled_from(['a1', 'b2', 'c', 'da', 'db', 'id', '\u00e9']))
            if use_ns and not in_entity:
                an = (draw(st.sampled_from(['', '', 'p', 'q', 'r', 'xml'])) or None, an)
            attrs.append(('raw', an))
        children = gen_children(depth, in_entity, allow_er)
        lex = dict(empty=draw(st.booleans()), ws_name=draw(ws_strategy()), ws_end=draw(ws_strategy()),
                   ws_attr=[draw(ws_strategy(1)) for _ in range(len(attrs) + 4)],
                   eq=[draw(st.sampled_from(['=', '=', ' =', '= ', '\n=\n'])) for _ in range(len(attrs) + 4)],
                   shuffle=draw(st.integers(0, 1000)))
        return El(qn, attrs, children, lex)
    # content entities (may nest: each may reference earlier ones)
    if has_dt and cfg.entities:
        for i in range(draw(st.integers(0, 3))):
            content = gen_children(cfg.max_depth - 1, True, ents_content[:])
            e = EntDecl('e%d' % i, 'content', content=content, where=where())
            e.quote = draw(st.sampled_from('"\''))
            ents_content.append(e); decls.append(e)
        if cfg.ext_entities and d.standalone != 'yes' and draw(st.integers(0, 3)) == 0:
            content = gen_children(cfg.max_depth - 1, True, [])
            e = EntDecl('xe', 'ext', content=content, sysid='xe.ent', where=where())
            e.textdecl = draw(st.sampled_from([None, '<?xml version="1.0" encoding="UTF-8"?>', "<?xml encoding='UTF-8' ?>"]))
            if v == '1.1' and e.textdecl: e.textdecl = e.textdecl.replace('1.0', '1.1')
            ents_content.append(e); decls.append(e)
    root = gen_el(1, False, ents_content[:])
    d.root = root
    d.ents_attr = {e.name: e for e in ents_attr}; d.ents_content = {e.name: e for e in ents_content}
    d.attdecls = attdecls
    if has_dt:
        d.doctype = dict(name=None, pubid=None, sysid='ext.dtd' if ext_subset else None, decls=decls,
                         pubq=draw(st.booleans()), ws=[draw(ws_strategy()) for _ in range(len(decls) + 6)])
        if ext_subset and draw(st.booleans()): d.doctype['pubid'] = 'pub-//x'
    # fix up names, namespaces, attributes (needs the scope, done top-down)
    fixup_el(draw, d, root, {'xml': XML_URI} if use_ns else None, atoks, list(d.ents_attr.values()), False)
    for e in ents_content:
        for ch in e.content: fixup_tree(draw, d, ch, atoks, [x for x in ents_attr if True])
    if has_dt:
        d.doctype['name'] = qname_str(root.qname)
    d.prolog = [draw(st.one_of(st.builds(Cm, tok_list(mtoks, 6)), st.just(None))) for _ in range(draw(st.integers(0, 2)))]
    d.prolog = [x if x is not None else gen_pi() for x in d.prolog]
    d.prolog2 = [Cm(draw(tok_list(mtoks, 6))) for _ in range(draw(st.integers(0, 1)))] if has_dt else []
    d.epilog = [draw(st.one_of(st.builds(Cm, tok_list(mtoks, 6)))) for _ in range(draw(st.integers(0, 2)))]
    if draw(st.integers(0, 3)) == 0: d.epilog.append(gen_pi())
    d.misc_ws = [draw(ws_strategy()) for _ in range(12)]
    fix_comments(d)
    return d

def fix_comments(d):
    def fix(n):
        if isinstance(n, Cm):
            toks = []
            for c, f in n.toks:
                if c == '-' and toks and toks[-1][0] == '-': continue
                toks.append((c, f))
            while toks and toks[-1][0] == '-': toks.pop()
            n.toks = toks
        elif isinstance(n, PI):
            toks = []
            for c, f in n.toks:
                if c == '>' and toks and toks[-1][0] == '?': continue
                toks.append((c, f))
            n.toks = toks
        elif isinstance(n, CD):
            toks = []
            for c, f in n.toks:
                if c == '>' and len(toks) >= 2 and toks[-1][0] == ']' and toks[-2][0] == ']': continue
                toks.append((c, f))
            n.toks = toks or [('x', 'x')]
        elif isinstance(n, El):
            for ch in n.children: fix(ch)
    for n in d.prolog + d.prolog2 + d.epilog: fix(n)
    fix(d.root)
    for e in d.ents_content.values():
        for ch in e.content: fix(ch)

def qname_str(q):
    if isinstance(q, tuple): return (q[0] + ':' + q[1]) if q[0] else q[1]
    return q

@st.composite
def gen_attr_toks(draw, atoks, ents, max_size):
    toks = draw(tok_list(atoks, max_size))
    if ents and draw(st.integers(0, 2)) == 0:
        e = draw(st.sampled_from(ents))
        pos = draw(st.integers(0, len(toks)))
        toks = toks[:pos] + [(''.join(c for c, f in expand_attoks(e.attoks)), '&%s;' % e.name)] + toks[pos:]
    return toks

def expand_attoks(toks):
    return toks    # tokens already carry their final characters (entity tokens carry the expansion)

@st.composite
def gen_tokenised(draw, atype):
    n = 1 if atype in ('NMTOKEN', 'ID', 'IDREF') else draw(st.integers(1, 3))
    words = []
    for i in range(n):
        if atype in ('NMTOKEN', 'NMTOKENS'):
            w = ''.join(draw(st.lists(st.sampled_from(NAME_REST + ['a', 'b']), min_size=1, max_size=4)))
        else:
            w = draw(st.sampled_from(['a', '_x', 'id1', 'Z9', '\u00e9l'])) + str(draw(st.integers(0, 50)))
        words.append(w)
    sp = st.sampled_from([' ', '  ', '\t', '\n', ' \r\n ', '\r'])
    pads = [draw(st.sampled_from(['', '', ' ', '\n', '\t ']))] + [draw(sp) for _ in range(n - 1)] + [draw(st.sampled_from(['', '', ' ', '  \n']))]
    toks = []
    for i, w in enumerate(words):
        if i: toks.append((' ', pads[i]))
        toks.append((w, w))
    return toks, (pads[0], pads[-1])

def fixup_tree(draw, d, n, atoks, ents_attr):
    if isinstance(n, El):
        fixup_el(draw, d, n, None, atoks, ents_attr, True)

def fixup_el(draw, d, el, scope, atoks, ents_attr, in_entity):
    """Resolve raw attribute placeholders into At objects, make prefixes legal in scope, add DTD-defaulted
    attributes.  scope: prefix->uri dict (None when namespaces are not modelled for this subtree)."""
    v = d.version
    new_scope = dict(scope) if scope is not None else None
    attrs = []
    seen_q = set()
    for a in el.attrs:
        if isinstance(a, At):
            if a.qname in seen_q: continue
            if new_scope is not None:
                pfx = a.qname[6:] if a.qname.startswith('xmlns:') else ''
                uri = a.value
                if pfx == 'xml' or pfx == 'xmlns' or uri in (XML_URI, XMLNS_URI): continue
                if pfx: new_scope[pfx] = uri      # '' = undeclare (1.1 only, generated only then)
                else: new_scope[''] = uri
            seen_q.add(a.qname); attrs.append(a)
    def legal_prefix(p):
        return p is None or (new_scope.get(p) not in (None, ''))
    if isinstance(el.qname, tuple):
        p, l = el.qname
        if not legal_prefix(p): p = None
        el.qname = (p, l)
    declared = {a.attr: a for a in d.attdecls.get(qname_str(el.qname), [])}
    seen_exp = set()
    for a in el.attrs:
        if isinstance(a, At): continue
        an = a[1]
        if isinstance(an, tuple):
            p, l = an
            if not legal_prefix(p) : p = None
            if p == 'xml': l = draw(st.sampled_from(['lang', 'space', 'base', 'id']))
            exp = (new_scope.get(p) if p else '', l)
            q = (p + ':' + l) if p else l
        else:
            q = an; exp = ('', an)
        if q in seen_q or exp in seen_exp: continue
        seen_q.add(q); seen_exp.add(exp)
        dec = declared.get(q)
        quote = draw(st.sampled_from('"\''))
        if q == 'xml:space':
            w = draw(st.sampled_from(['default', 'preserve'])); attrs.append(At(q, [(w, w)], quote=quote)); continue
        if dec is not None and dec.atype != 'CDATA':
            if dec.atype == 'ENUM':
                w = draw(st.sampled_from(dec.enum)); at = At(q, [(w, w)], atype='ENUM', quote=quote)
                at.pads = (draw(st.sampled_from(['', ' ', '\n'])), draw(st.sampled_from(['', ' '])))
            else:
                toks, pads = draw(gen_tokenised(dec.atype)); at = At(q, toks, atype=dec.atype, pads=pads, quote=quote)
            if dec.mode == '#FIXED':
                at = At(q, dec.dtoks, atype=dec.atype, pads=dec.pads, quote=quote)    # must equal the fixed value (not a WF matter, but keep valid)
            attrs.append(at)
        else:
            if dec is not None and dec.mode == '#FIXED':
                attrs.append(At(q, dec.dtoks, quote=quote))
            else:
                attrs.append(At(q, draw(gen_attr_toks(atoks, ents_attr, 8)), quote=quote))
    # defaulted attributes
    for an, dec in declared.items():
        if an in seen_q: continue
        if dec.mode in ('DEFAULT', '#FIXED'):
            attrs.append(At(an, dec.dtoks, written=False, atype=dec.atype, pads=dec.pads))
    el.attrs = attrs
    el.scope = new_scope
    for ch in el.children:
        if isinstance(ch, El): fixup_el(draw, d, ch, new_scope, atoks, ents_attr, in_entity)

# ------------------------------------------------------------------------------------------------
# rendering
# ------------------------------------------------------------------------------------------------
def join_forms(toks, version, ctx):
    """Concatenate token forms, repairing cross-token hazards without changing the model value:
       lone CR followed by LF/NEL; ']]>' in content; quote chars in attribute values (done by caller)."""
    out = []
    for c, f in toks:
        if out:
            prev = out[-1]
            if prev.endswith('\r') and (f.startswith('\n') or (version == '1.1' and f.startswith('\u0085'))):
                out[-1] = prev + '\n'       # lone CR -> CR LF: still exactly one line break, and no new CR LF pair with an earlier CR
            if ctx == 'content' and f.startswith('>') and ''.join(out).endswith(']]'):
                f = '&gt;' + f[1:]
        out.append(f)
    return ''.join(out)

def render_attr_value(at, version):
    toks = at.toks
    quote = at.quote
    s_parts = []
    for c, f in toks:
        if f == quote: f = '&quot;' if quote == '"' else '&apos;'
        s_parts.append((c, f))
    s = join_forms(s_parts, version, 'attr')
    if at.pads: s = at.pads[0] + s + at.pads[1]
    return quote + s + quote

class R:
    """rendering context: output pieces + event list with end offsets"""
    def __init__(self, d):
        self.d = d; self.out = []; self.n = 0; self.events = []; self.depth_ent = 0
    def w(self, s):
        if self.depth_ent: return
        self.out.append(s); self.n += len(s)
    def ev(self, *e):
        self.events.append((e, self.n if self.depth_ent == 0 else None))

def entity_literal(s, quote):
    s = s.replace('&', '&#38;').replace('%', '&#37;')
    s = s.replace(quote, '&#34;' if quote == '"' else '&#39;')
    return quote + s + quote

def render_nodes(r, nodes, version):
    for n in nodes: render_node(r, n, version)

def render_node(r, n, version):
    if isinstance(n, Tx):
        r.w(join_forms(n.toks, version, 'content'))
    elif isinstance(n, CD):
        r.w('<![CDATA[' + join_forms(n.toks, version, 'cdata') + ']]>')
    elif isinstance(n, Cm):
        r.w('<!--' + join_forms(n.toks, version, 'misc') + '-->')
    elif isinstance(n, PI):
        r.w('<?' + n.target + (n.sep + join_forms(n.toks, version, 'misc') if (n.toks or n.sep) else '') + '?>')
    elif isinstance(n, ER):
        r.w('&' + n.name + ';')
    elif isinstance(n, El):
        q = qname_str(n.qname)
        r.w('<' + q)
        written = [a for a in n.attrs if a.written]
        k = n.lex['shuffle']
        # deterministic permutation of written attributes
        order = list(range(len(written)))
        for i in range(len(order) - 1, 0, -1):
            j = (k * 7919 + i * 104729) % (i + 1); order[i], order[j] = order[j], order[i]
        for idx, i in enumerate(order):
            a = written[i]
            r.w(n.lex['ws_attr'][idx % len(n.lex['ws_attr'])] + a.qname + n.lex['eq'][idx % len(n.lex['eq'])] + render_attr_value(a, version))
        if not n.children and n.lex['empty']:
            r.w(n.lex['ws_name'] + '/>')
        else:
            r.w(n.lex['ws_name'] + '>')
            render_nodes(r, n.children, version)
            r.w('</' + q + n.lex['ws_end'] + '>')

def render_decl(d, x, version):
    if isinstance(x, EntDecl):
        if x.kind == 'content':
            r = R(d); render_nodes(r, x.content, version)
            return '<!ENTITY %s %s>' % (x.name, entity_literal(''.join(r.out), x.quote))
        if x.kind == 'attr':
            s = join_forms(x.attoks, version, 'attr')
            return '<!ENTITY %s %s>' % (x.name, entity_literal(s, x.quote))
        if x.kind == 'ext':
            return '<!ENTITY %s SYSTEM "%s">' % (x.name, x.sysid)
        if x.kind == 'unparsed':
            return '<!ENTITY %s SYSTEM "%s" NDATA %s>' % (x.name, x.sysid, x.ndata)
    if isinstance(x, NotDecl):
        if x.pubid is not None and x.sysid is not None: return '<!NOTATION %s PUBLIC "%s" "%s">' % (x.name, x.pubid, x.sysid)
        if x.pubid is not None: return '<!NOTATION %s PUBLIC "%s">' % (x.name, x.pubid)
        return '<!NOTATION %s SYSTEM "%s">' % (x.name, x.sysid)
    if isinstance(x, AttDecl):
        t = x.atype if x.atype != 'ENUM' else '(' + '|'.join(x.enum) + ')'
        s = '<!ATTLIST %s %s %s ' % (x.elem, x.attr, t)
        if x.mode == '#IMPLIED': s += '#IMPLIED'
        else:
            at = At(x.attr, x.dtoks, pads=x.pads, quote=x.quote)
            s += ('#FIXED ' if x.mode == '#FIXED' else '') + render_attr_value(at, version)
        return s + '>'
    raise ValueError(x)

def render(d):
    """-> (text, files {sysid: text}, events-with-offsets)  text is the document entity as a str."""
    v = d.version
    r = R(d)
    files = {}
    ws = list(d.misc_ws)
    def nextws(): return ws.pop() if ws else ''
    if d.xmldecl:
        x = d.xmldecl
        s = '<?xml' + x['ws1'] + 'version' + x['eq'] + x['q1'] + v + x['q1']
        if x['enc']: s += x['ws3'] + 'encoding' + x['eq'] + x['q2'] + '@ENC@' + x['q2']
        if d.standalone: s += x['ws3'] + 'standalone' + x['eq'] + x['q1'] + d.standalone + x['q1']
        s += x['ws2'] + '?>'
        r.w(s)
    r.w(nextws())
    for n in d.prolog:
        render_node(r, n, v); r.w(nextws())
    if d.doctype:
        dt = d.doctype
        s = '<!DOCTYPE ' + dt['name']
        if dt['sysid']:
            if dt['pubid']: s += ' PUBLIC "%s" "%s"' % (dt['pubid'], dt['sysid'])
            else: s += " SYSTEM '%s'" % dt['sysid']
        ints = [x for x in dt['decls'] if x.where == 'int']
        exts = [x for x in dt['decls'] if x.where == 'ext']
        dws = list(dt['ws'])
        if ints or not dt['sysid']:
            s += ' [' + (dws.pop() if dws else '')
            for x in ints: s += render_decl(d, x, v) + (dws.pop() if dws else '')
            s += ']'
        s += (dws.pop() if dws else '') + '>'
        r.w(s)
        if dt['sysid']:
            files[dt['sysid']] = ''.join(render_decl(d, x, v) + '\n' for x in exts)
        r.w(nextws())
        for n in d.prolog2:
            render_node(r, n, v); r.w(nextws())
    render_node(r, d.root, v)
    for n in d.epilog:
        r.w(nextws()); render_node(r, n, v)
    r.w(nextws())
    for e in d.ents_content.values():
        if e.kind == 'ext':
            rr = R(d); render_nodes(rr, e.content, v)
            files[e.sysid] = (e.textdecl or '') + ''.join(rr.out)
    return ''.join(r.out), files

# ------------------------------------------------------------------------------------------------
# expected events (full level) with line numbers
# ------------------------------------------------------------------------------------------------
def line_breaks_upto(text, version):
    """prefix array: lines[i] = 1 + number of line terminators in text[:i]"""
    n = len(text); lines = [1] * (n + 1); cur = 1; i = 0
    while i < n:
        c = text[i]
        adv = 1; brk = False
        if c == '\r':
            brk = True
            if i + 1 < n and (text[i + 1] == '\n' or (version == '1.1' and text[i + 1] == '\u0085')): adv = 2
        elif c == '\n': brk = True
        elif version == '1.1' and c in '\u0085\u2028': brk = True
        for k in range(adv):
            lines[i + k + 1] = cur if (k + 1 < adv) else (cur + 1 if brk else cur)
        if brk: cur += 1
        i += adv
    return lines

def expected_events(d, cfg=None):
    """Full-level expected event list for the document.  cfg: dict(ns=bool, loaddtd=bool)
       Lines: computed by re-rendering with offsets."""
    cfg = cfg or {}
    ns = cfg.get('ns', True)
    loadext = cfg.get('loaddtd', True)
    v = d.version
    text, files = render(d)
    lines = line_breaks_upto(text, v)
    ev = []
    # -- offsets: re-render while recording (same deterministic walk)
    r = R(d); r.lines = lines
    def L(): return lines[r.n] if r.depth_ent == 0 else None
    ws = list(d.misc_ws)
    def nextws(): return ws.pop() if ws else ''
    def walk(nodes, scope, in_ext):
        for n in nodes: walk1(n, scope, in_ext)
    def expname(q, scope, is_attr):
        if isinstance(q, tuple): p, l = q
        elif ':' in q and (scope is not None): p, l = q.split(':', 1)
        else: p, l = None, q
        if scope is None: return ('', l if not p else l, (p + ':' + l) if p else l)
        if p: return (scope.get(p, ''), l, p + ':' + l)
        if is_attr: return ('', l, l)
        return (scope.get('', ''), l, l)
    def walk1(n, scope, in_ext):
        if isinstance(n, Tx):
            render_node(r, n, v); ev.append(('T', n.value))
        elif isinstance(n, CD):
            render_node(r, n, v); ev.append(('CD[',)); ev.append(('T', n.value)); ev.append(('CD]',))
        elif isinstance(n, Cm):
            render_node(r, n, v); ev.append(('C', n.value, L()))
        elif isinstance(n, PI):
            render_node(r, n, v); ev.append(('PI', n.target, n.data, L()))
        elif isinstance(n, ER):
            r.w('&' + n.name + ';')
            e = d.ents_content[n.name]
            ev.append(('SER', n.name))
            r.depth_ent += 1
            walk(e.content, scope, True)
            r.depth_ent -= 1
            ev.append(('EER', n.name))
        elif isinstance(n, El):
            q = qname_str(n.qname)
            sc = scope
            if scope is not None:
                sc = dict(scope)
                for a in n.attrs:
                    if a.qname == 'xmlns': sc[''] = a.value
                    elif a.qname.startswith('xmlns:'): sc[a.qname[6:]] = a.value
            # render the start tag
            r.w('<' + q)
            written = [a for a in n.attrs if a.written]
            k = n.lex['shuffle']; order = list(range(len(written)))
            for i in range(len(order) - 1, 0, -1):
                j = (k * 7919 + i * 104729) % (i + 1); order[i], order[j] = order[j], order[i]
            for idx, i in enumerate(order):
                a = written[i]
                r.w(n.lex['ws_attr'][idx % len(n.lex['ws_attr'])] + a.qname + n.lex['eq'][idx % len(n.lex['eq'])] + render_attr_value(a, v))
            empty = (not n.children and n.lex['empty'])
            r.w(n.lex['ws_name'] + ('/>' if empty else '>'))
            u, l, qq = expname(n.qname, sc, False)
            spm = []
            if sc is not None:
                for a in n.attrs:
                    if a.qname == 'xmlns': spm.append(('', a.value))
                    elif a.qname.startswith('xmlns:'): spm.append((a.qname[6:], a.value))
            for p, uri in spm: ev.append(('SPM', p, uri))
            ev.append(('SE', u, l, qq, L()))
            arows = []
            for a in n.attrs:
                if a.qname == 'xmlns' and sc is not None: au, al, aq = XMLNS_URI, 'xmlns', 'xmlns'
                elif a.qname.startswith('xmlns:') and sc is not None: au, al, aq = XMLNS_URI, a.qname[6:], a.qname
                else: au, al, aq = expname(a.qname, sc, True)
                if not a.written and d.attdecl_where(qname_str(n.qname), a.qname) == 'ext' and not loadext: continue
                atype = a.atype
                if d.attdecl_where(qname_str(n.qname), a.qname) == 'ext' and not loadext: atype = 'CDATA'
                arows.append(('A', au, al, aq, atype, '1' if a.written else '0', a.value))
            arows.sort(key=lambda t: (xvkey(t[1], t[2], t[3])))
            ev.extend(arows)
            if not empty:
                walk(n.children, sc, in_ext)
                r.w('</' + q + n.lex['ws_end'] + '>')
            ev.append(('EE', u, l, qq, L()))
            for p, uri in reversed(spm): ev.append(('EPM', p))
    # prolog
    if d.xmldecl:
        x = d.xmldecl
        s = '<?xml' + x['ws1'] + 'version' + x['eq'] + x['q1'] + v + x['q1']
        if x['enc']: s += x['ws3'] + 'encoding' + x['eq'] + x['q2'] + '@ENC@' + x['q2']
        if d.standalone: s += x['ws3'] + 'standalone' + x['eq'] + x['q1'] + d.standalone + x['q1']
        s += x['ws2'] + '?>'
        r.w(s)
    r.w(nextws())
    scope0 = ({'xml': XML_URI} if (ns and d.use_ns) else None)
    for n in d.prolog:
        walk1(n, scope0, False); r.w(nextws())
    if d.doctype:
        dt = d.doctype
        ev.append(('DT', dt['name'], dt['pubid'], dt['sysid']))
        for x in dt['decls']:
            if x.where == 'ext' and not loadext: continue
            if isinstance(x, EntDecl):
                if x.kind in ('content', 'attr'):
                    ev.append(('IED', x.name, None)); ev.append(('ENT', x.name, None, None, None))
                elif x.kind == 'ext':
                    ev.append(('EED', x.name, x.pubid, x.sysid)); ev.append(('ENT', x.name, x.pubid, x.sysid, None))
                else:
                    ev.append(('UENT', x.name, x.pubid, x.sysid, x.ndata)); ev.append(('ENT', x.name, x.pubid, x.sysid, x.ndata))
            elif isinstance(x, NotDecl):
                ev.append(('NOT', x.name, x.pubid, x.sysid))
            elif isinstance(x, AttDecl):
                ev.append(('ATD', x.elem, x.attr, x.atype, x.mode, x.dvalue))
        ev.append(('DT]',))
        # advance r past the doctype text: recompute the same way render() does
        full, _ = text, None
        # find the doctype end offset in `text`: it's deterministic -- reuse render() logic by searching from r.n
        # (DOCTYPE contains no events with lines; we just need r.n to be right afterwards)
        m = _doctype_end(d, text, r.n)
        r.n = m
        r.w(nextws())
        for n in d.prolog2:
            walk1(n, scope0, False); r.w(nextws())
    walk1(d.root, scope0, False)
    for n in d.epilog:
        r.w(nextws()); walk1(n, scope0, False)
    return ev, text, files

def xvkey(u, l, q):
    # must sort like the C++ side: key string "{uri}local\tqname" in escaped form, bytewise
    from xv import esc
    return ('{' + esc(u) + '}' + esc(l) + '\t' + esc(q)).encode('ascii')

def _doctype_end(d, text, start):
    # the DOCTYPE declaration as rendered starts at `start`; compute its length by rendering it again
    v = d.version; dt = d.doctype
    s = '<!DOCTYPE ' + dt['name']
    if dt['sysid']:
        if dt['pubid']: s += ' PUBLIC "%s" "%s"' % (dt['pubid'], dt['sysid'])
        else: s += " SYSTEM '%s'" % dt['sysid']
    ints = [x for x in dt['decls'] if x.where == 'int']
    dws = list(dt['ws'])
    if ints or not dt['sysid']:
        s += ' [' + (dws.pop() if dws else '')
        for x in ints: s += render_decl(d, x, v) + (dws.pop() if dws else '')
        s += ']'
    s += (dws.pop() if dws else '') + '>'
    assert text[start:start + len(s)] == s, 'doctype re-render mismatch'
    return start + len(s)

def _attdecl_where(self, elem, attr):
    for a in self.attdecls.get(elem, []):
        if a.attr == attr: return a.where
    return None
Doc.attdecl_where = _attdecl_where

# ------------------------------------------------------------------------------------------------
# projection of event lists (expected and actual go through the same function)
# ------------------------------------------------------------------------------------------------
def actual_to_full(events, withloc=True):
    """CED tuples (strings, escaped) -> normalised tuples comparable with expected_events()."""
    from xv import unesc
    out = []
    def un(s): return None if s == '\\N' else unesc(s)
    for e in events:
        k = e[0]
        line = None
        if withloc and k in ('SE', 'EE', 'PI', 'C') and e[-1].startswith('@'): line = int(e[-1][1:]) or None; e = e[:-1]
        if k == 'SE' or k == 'EE':
            m = re.match(r'\{(.*)\}(.*)$', e[1], re.S)
            out.append((k, unesc(m.group(1)), unesc(m.group(2)), unesc(e[2]), line))
        elif k == 'A':
            m = re.match(r'\{(.*)\}(.*)$', e[1], re.S)
            out.append(('A', unesc(m.group(1)), unesc(m.group(2)), unesc(e[2]), e[3], e[4], unesc(e[5]) if len(e) > 5 else ''))
        elif k in ('T', 'IW'):
            out.append((k, unesc(e[1]) if len(e) > 1 else ''))
        elif k == 'C':
            out.append(('C', unesc(e[1]) if len(e) > 1 else '', line))
        elif k == 'PI':
            out.append(('PI', unesc(e[1]), unesc(e[2]) if len(e) > 2 else '', line))
        elif k in ('SER', 'EER', 'EPM', 'SKE'):
            out.append((k, unesc(e[1]) if len(e) > 1 else ''))
        elif k == 'SPM':
            out.append((k, unesc(e[1]), unesc(e[2]) if len(e) > 2 else ''))
        elif k == 'DT':
            out.append(('DT', unesc(e[1]), un(e[2]), un(e[3])))
        elif k == 'IED':
            out.append(('IED', unesc(e[1]), None))
        elif k == 'EED':
            out.append(('EED', unesc(e[1]), un(e[2]), un(e[3])))
        elif k == 'UENT':
            out.append(('UENT', unesc(e[1]), un(e[2]), un(e[3]), un(e[4])))
        elif k == 'ENT':
            out.append(('ENT', unesc(e[1]), un(e[2]), un(e[3]), un(e[4])))
        elif k == 'NOT':
            out.append(('NOT', unesc(e[1]), un(e[2]), un(e[3])))
        elif k == 'ATD':
            out.append(('ATD',) + tuple(un(x) for x in e[1:]))
        elif k == 'ELD':
            out.append(('ELD',) + tuple(un(x) for x in e[1:]))
        else:
            out.append(tuple(e))
    return out

def project(full, level, ns=True, lines=False, ere=True, nsp=True):
    """level: 'sax1' | 'sax2' | 'dom' | 'expat'.  Returns a list of comparable tuples."""
    out = []
    in_dt = False
    dtrows = []
    for e in full:
        k = e[0]
        if k in ('SD', 'ED'): continue
        if k == 'DT':
            in_dt = True; dtrows = []
            if level in ('sax2', 'dom'): out.append(e)
            continue
        if k == 'DT]':
            in_dt = False
            if level in ('sax2', 'dom'):
                out.extend(sorted(dtrows, key=repr)); out.append(e)
            continue
        if in_dt:
            if level == 'sax2' and k in ('IED', 'EED'): dtrows.append(e)
            elif level == 'dom' and k == 'ENT': dtrows.append(e)
            elif level in ('dom',) and k == 'NOT': dtrows.append(e)
            continue          # C / PI / SER inside the DTD: not compared
        if k in ('NOT', 'UENT'):
            continue          # SAX notation / unparsed entity events arrive outside DT..DT] in some APIs: compared via C07 lane
        if k in ('IED', 'EED', 'ATD', 'ELD', 'ENT'): continue
        if k in ('SPM', 'EPM'):
            if level == 'sax2' and ns: out.append(e)
            continue
        if k in ('SER', 'EER'):
            if e[1] == '[dtd]': continue
            if (level == 'sax2') or (level == 'dom' and ere): out.append(e)
            continue
        if k in ('CD[', 'CD]'):
            if level != 'sax1': out.append(e)
            continue
        if k == 'C':
            if level != 'sax1': out.append(('C', e[1], e[2] if lines and level == 'sax2' else None))
            continue
        if k == 'PI':
            out.append(('PI', e[1], e[2], e[3] if lines and level in ('sax1', 'sax2') else None)); continue
        if k in ('T', 'IW'):
            if out and out[-1][0] == 'T': out[-1] = ('T', out[-1][1] + e[1])
            else: out.append(('T', e[1]))
            continue
        if k in ('SE', 'EE'):
            ln = e[4] if (lines and level in ('sax1', 'sax2')) else None
            if level == 'sax1' or not ns: out.append((k, None, None, e[3], ln))
            else: out.append((k, e[1], e[2], e[3], ln))
            continue
        if k == 'A':
            _, u, l, q, atype, spec, val = e
            if ns and level == 'sax2' and not nsp and (q == 'xmlns' or q.startswith('xmlns:')): continue
            if level == 'sax1' or not ns: key = (None, None, q)
            elif level == 'sax2' and (q == 'xmlns' or q.startswith('xmlns:')): key = (None, None, q)   # URI of xmlns attributes: see C06
            else: key = (u, l, q)
            if atype == 'ENUM': atype = 'ENUMERATION'
            if level == 'dom': atype = None
            if level in ('sax1', 'sax2'): spec = None
            out.append(('A',) + key + (atype, spec, val))
            continue
        out.append(e)
    # drop empty text, sort attribute runs
    res = []
    i = 0
    while i < len(out):
        e = out[i]
        if e[0] == 'T' and e[1] == '': i += 1; continue
        if e[0] in ('A', 'SPM', 'EPM'):
            # order of attributes, and of prefix-mapping events of one element, is not fixed by XML/SAX2
            j = i
            while j < len(out) and out[j][0] == e[0]: j += 1
            res.extend(sorted(out[i:j], key=lambda t: (t[3] if t[0] == 'A' else t[1], repr(t)))); i = j; continue
        res.append(e); i += 1
    # merge T again (empty text removal may have made neighbours adjacent)
    fin = []
    for e in res:
        if e[0] == 'T' and fin and fin[-1][0] == 'T': fin[-1] = ('T', fin[-1][1] + e[1])
        else: fin.append(e)
    return fin

def normalise_actual_types(proj_actual, level):
    """actual A rows carry '-' for unknown columns: map to None so they compare with the projection"""
    out = []
    for e in proj_actual:
        if e[0] == 'A':
            e = e[:4] + (None if e[4] in ('-', None) else e[4], None if e[5] in ('-', None) else e[5], e[6])
        out.append(e)
    return out

def first_diff(a, b):
    for i in range(max(len(a), len(b))):
        x = a[i] if i < len(a) else None; y = b[i] if i < len(b) else None
        if x != y: return 'event %d:\n  expected %r\n  actual   %r' % (i, x, y)
    return None

# ------------------------------------------------------------------------------------------------
# encoding
# ------------------------------------------------------------------------------------------------
ENCODINGS = {
    'utf-8': ('UTF-8', 'utf-8', b''), 'utf-8-bom': ('UTF-8', 'utf-8', b'\xef\xbb\xbf'),
    'utf-16le-bom': ('UTF-16', 'utf-16-le', b'\xff\xfe'), 'utf-16be-bom': ('UTF-16', 'utf-16-be', b'\xfe\xff'),
}
def encode_doc(text, enc='utf-8'):
    name, codec, bom = ENCODINGS[enc]
    return bom + text.replace('@ENC@', name).encode(codec, 'surrogatepass')

def safe_first_read(data):
    """Smallest first read() size outside known finding C04-short-first-read: the reader probes the encoding and
    decodes the XML/Text declaration from the first raw buffer only."""
    i = data.find(b'>')
    return min(len(data), max(64, (i + 4) if i >= 0 else 0))

# ------------------------------------------------------------------------------------------------
# expat witness
# ------------------------------------------------------------------------------------------------
def expat_events(data, files, ns):
    """Parse with pyexpat -> ('ok', events at 'expat' level) or ('err', message)."""
    import pyexpat
    ev = []
    sep = '\x1f'
    p = pyexpat.ParserCreate(None, sep if ns else None)
    if ns: p.namespace_prefixes = True
    p.buffer_text = False
    p.ordered_attributes = True
    p.specified_attributes = False
    p.SetParamEntityParsing(pyexpat.XML_PARAM_ENTITY_PARSING_ALWAYS)
    def name3(n):
        if not ns: return (None, None, n)
        parts = n.split(sep)
        if len(parts) == 1: return ('', parts[0], parts[0])
        if len(parts) == 2: return (parts[0], parts[1], parts[1])
        return (parts[0], parts[1], parts[2] + ':' + parts[1] if parts[2] else parts[1])
    def se(n, attrs):
        u, l, q = name3(n)
        ev.append(('SE', u, l, q, None))
        rows = []
        for i in range(0, len(attrs), 2):
            au, al, aq = name3(attrs[i])
            if ns and au == '' : au = ''
            rows.append(('A', au, al, aq, None, None, attrs[i + 1]))
        ev.extend(rows)
    def ee(n):
        u, l, q = name3(n); ev.append(('EE', u, l, q, None))
    def cd(s): ev.append(('T', s))
    p.StartElementHandler = se; p.EndElementHandler = ee; p.CharacterDataHandler = cd
    p.ProcessingInstructionHandler = lambda t, dd: ev.append(('PI', t, dd, None))
    p.CommentHandler = lambda s: ev.append(('C', s, None))
    p.StartCdataSectionHandler = lambda: ev.append(('CD[',))
    p.EndCdataSectionHandler = lambda: ev.append(('CD]',))
    in_dt = [False]
    def sdt(name, sysid, pubid, has_int): ev.append(('DT', name, pubid, sysid)); in_dt[0] = True
    def edt(): ev.append(('DT]',)); in_dt[0] = False
    p.StartDoctypeDeclHandler = sdt; p.EndDoctypeDeclHandler = edt
    def ext(context, base, sysid, pubid):
        if sysid not in files: return 0
        sub = p.ExternalEntityParserCreate(context)
        sub.Parse(files[sysid], True)
        return 1
    p.ExternalEntityRefHandler = ext
    try:
        p.Parse(data, True)
    except pyexpat.ExpatError as e:
        return 'err', str(e)
    return 'ok', ev

def project_expat(full, ns):
    """project a full expected/actual list down to what expat reports (for the witness comparison)"""
    out = []
    in_dt = False
    for e in full:
        k = e[0]
        if k == 'DT': in_dt = True; continue
        if k == 'DT]': in_dt = False; continue
        if in_dt: continue
        if k in ('SPM', 'EPM', 'SER', 'EER', 'NOT', 'UENT', 'IED', 'EED', 'ATD', 'ENT', 'SD', 'ED', 'ELD'): continue
        if k in ('T', 'IW'):
            if out and out[-1][0] == 'T': out[-1] = ('T', out[-1][1] + e[1])
            elif e[1] != '': out.append(('T', e[1]))
            continue
        if k in ('SE', 'EE'):
            out.append((k, e[1], e[2], e[3], None) if ns else (k, None, None, e[3], None)); continue
        if k == 'A':
            _, u, l, q, atype, spec, val = e
            if ns and (q == 'xmlns' or q.startswith('xmlns:')): continue
            out.append(('A',) + ((u, l, q) if ns else (None, None, q)) + (None, None, val)); continue
        if k == 'C': out.append(('C', e[1], None)); continue
        if k == 'PI': out.append(('PI', e[1], e[2], None)); continue
        out.append(e)
    res = []; i = 0
    while i < len(out):
        e = out[i]
        if e[0] == 'A':
            j = i
            while j < len(out) and out[j][0] == 'A': j += 1
            res.extend(sorted(out[i:j], key=lambda t: (t[3], repr(t)))); i = j; continue
        res.append(e); i += 1
    return res


def debug_repr(d):
    """compact dump of the lexical choices (for triage of a failing case)"""
    out = []
    def w(n, ind):
        if isinstance(n, El):
            out.append('%sE %r' % (ind, n.qname))
            for a in n.attrs: out.append('%s @%s %s written=%s pads=%r toks=%r' % (ind, a.qname, a.atype, a.written, a.pads, a.toks))
            for c in n.children: w(c, ind + ' ')
        elif isinstance(n, ER): out.append('%sER %s' % (ind, n.name))
        else: out.append('%s%s %r' % (ind, n.k, n.toks))
    w(d.root, '')
    for e in list(d.ents_attr.values()): out.append('ENT %s attoks=%r' % (e.name, e.attoks))
    for e in list(d.ents_content.values()):
        out.append('ENT %s kind=%s' % (e.name, e.kind))
        for c in e.content: w(c, '  ')
    return '\n'.join(out)
